#!/usr/bin/env python3
"""Run checks against a scratch copy of /repo with a patch applied (self-test of the checker).
usage: mutrun.py <patch.diff|none> <Cxx> [Cxx..] [--tier quick]
The scratch copy lives outside /repo and /verif and is removed afterwards (its warm cargo target
dir under /verif/.work is keyed by the scratch path and reused)."""
import os, shutil, subprocess, sys
V = os.path.dirname(os.path.dirname(os.path.abspath(__file__)))
SCR = '/tmp/vscratch/' + os.environ.get('VSCRATCH', 'repo')


def make_scratch():
    if os.path.isdir(SCR):
        shutil.rmtree(SCR)
    os.makedirs(os.path.dirname(SCR), exist_ok=True)
    subprocess.check_call(['rsync', '-a', '--exclude', 'target', '--exclude', '.git', '/repo/', SCR + '/'])
    # fresh mtimes: cargo decides freshness of path dependencies by mtime, a re-used scratch path must not inherit stale artefacts
    subprocess.check_call('find %s -type f -exec touch {} +' % SCR, shell=True)


def main():
    args = sys.argv[1:]
    tier = 'quick'
    if '--tier' in args:
        i = args.index('--tier')
        tier = args[i + 1]
        del args[i:i + 2]
    patch, props = args[0], args[1:]
    make_scratch()
    if patch != 'none':
        r = subprocess.run(['git', 'apply', '--unsafe-paths', '--directory', SCR, os.path.abspath(patch)], cwd='/', capture_output=True, text=True)
        if r.returncode != 0:
            r = subprocess.run(['patch', '-p1', '-d', SCR, '-i', os.path.abspath(patch)], capture_output=True, text=True)
            if r.returncode != 0:
                print('PATCH-FAILED', r.stdout, r.stderr)
                return 2
    env = dict(os.environ, VERIF_REPO=SCR)
    rc = 0
    for p in props:
        r = subprocess.run([os.path.join(V, 'check'), p, '--tier', tier], env=env, capture_output=True, text=True)
        lines = [l for l in r.stdout.splitlines() if l.strip()]
        viol = [l for l in lines if 'VIOLATION' in l or 'BUILD-ERROR' in l or 'INTERNAL-ERROR' in l]
        print('== %s exit=%d' % (p, r.returncode))
        for l in lines[:12]:
            print('   ' + l[:400])
        if r.returncode not in (0, 1):
            print(r.stdout[-1500:], r.stderr[-1500:])
        rc = max(rc, r.returncode)
    shutil.rmtree(SCR, ignore_errors=True)
    return rc


sys.exit(main())
