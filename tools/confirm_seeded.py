#!/usr/bin/env python3
"""Confirm sub-agent mutants independently: in ONE scratch worktree of /repo (outside /repo and
/verif) apply each patch, run the pinned baseline suite (must give 204 passed), run the demo
(must fail), undo the patch, run the demo again (must pass).  Writes /tmp/mutout/confirm.json.
usage: confirm_seeded.py C01 C02 ..."""
import json, os, re, shutil, subprocess, sys
WT = os.environ.get('CONFIRM_WT', '/tmp/mutconfirm/wt')
OUT = os.environ.get('MUTOUT', '/tmp/mutout')
KS = [int(x) for x in os.environ.get('MUTKS', '1,2,3').split(',')]
AGENT_ROOT = os.environ.get('AGENT_ROOT', '/tmp/mut')
SKIP = set(os.environ.get('MUTSKIP', '').split(','))
FEAT = 'derive,bit-vec,bytes,generic-array,max-encoded-len'


def sh(cmd, cwd=WT, timeout=3600):
    env = dict(os.environ, CARGO_BUILD_JOBS='6', CARGO_NET_OFFLINE='true')
    r = subprocess.run(['/bin/bash', '-o', 'pipefail', '-c', cmd], cwd=cwd, stdout=subprocess.PIPE, stderr=subprocess.STDOUT, text=True, timeout=timeout, env=env)
    return r.returncode, r.stdout


def main():
    ids = sys.argv[1:]
    if not os.path.isdir(WT):
        os.makedirs(os.path.dirname(WT), exist_ok=True)
        subprocess.check_call(['git', '-C', '/repo', 'worktree', 'add', '-q', '--detach', WT, 'HEAD'])
    resf = os.path.join(OUT, os.environ.get('CONFIRM_JSON', 'confirm.json'))
    res = json.load(open(resf)) if os.path.exists(resf) else {}
    for pid in ids:
        d = os.path.join(OUT, pid)
        for k in KS:
            key = '%s-%d' % (pid, k)
            if key in SKIP:
                continue
            patch = os.path.join(d, 'patch%d.diff' % k)
            if key in res or not os.path.exists(patch):
                continue
            sh('git checkout -q -- . && git clean -fdq tests')
            rc, o = sh('git apply %s' % patch)
            if rc != 0:
                res[key] = {'error': 'patch does not apply: ' + o[-300:]}
                continue
            rc, o = sh('cargo nextest run --workspace --no-fail-fast --tool-config-file pb:/w/lib/nextest.toml --profile pb --test-threads 6 --offline 2>&1 | tail -8')
            m = re.search(r'(\d+) tests run: (\d+) passed, (\d+) failed', o)
            suite = m.group(0) if m else o[-300:]
            suite_ok = bool(m) and m.group(2) == '204'
            demo_rs = os.path.join(d, 'demo%d.rs' % k)
            demo_dir = os.path.join(d, 'demo%d' % k)
            with_rc = without_rc = None
            if os.path.exists(demo_rs):
                shutil.copy(demo_rs, os.path.join(WT, 'tests', 'demo%d.rs' % k))
                meta_txt = open(os.path.join(d, 'meta%d.json' % k)).read()
                rel = ' --release' if '--release' in meta_txt else ''
                feat = '--features %s' % FEAT
                try:
                    dc = json.loads(meta_txt).get('demo_cmd', '')
                except ValueError:
                    dc = ''
                m2 = re.search(r'--features[ =]"?([A-Za-z0-9_, -]+?)"?(?: --|$| #)', dc + ' ')
                if '--no-default-features' in dc:
                    feat = '--no-default-features' + (' --features %s' % m2.group(1).strip().replace(' ', ',') if m2 else '')
                elif 'cargo test' in dc and m2:
                    # the demonstration names its own feature set: use exactly that
                    feat = '--features %s' % m2.group(1).strip().replace(' ', ',')
                elif 'cargo test' in dc and '--features' not in dc:
                    feat = ''
                inc = ' -- --include-ignored' if 'include-ignored' in dc and os.environ.get('CONFIRM_IGNORED') else ''
                cmd = 'cargo test --offline %s --test demo%d%s%s 2>&1 | tail -15' % (feat, k, rel, inc)
                with_rc, o1 = sh(cmd)
                sh('git apply -R %s' % patch)
                without_rc, o2 = sh(cmd)
                os.remove(os.path.join(WT, 'tests', 'demo%d.rs' % k))
            elif os.path.isdir(demo_dir):
                # standalone project demos (C17 / C20): run.sh exits 0 iff behaviour is correct; they point at the agent's
                # worktree path, which we redirect to ours
                tmpd = WT + '-demo'
                shutil.rmtree(tmpd, ignore_errors=True)
                shutil.copytree(demo_dir, tmpd)
                sh("grep -rl '%s/%s' . | xargs -r sed -i 's#%s/%s#%s#g'" % (AGENT_ROOT, pid, AGENT_ROOT, pid, WT), cwd=tmpd)
                with_rc, o1 = sh('bash run.sh 2>&1 | tail -15', cwd=tmpd)
                sh('git apply -R %s' % patch)
                without_rc, o2 = sh('bash run.sh 2>&1 | tail -15', cwd=tmpd)
                shutil.rmtree(tmpd, ignore_errors=True)
            res[key] = {'suite': suite, 'suite_ok': suite_ok, 'demo_with_patch_rc': with_rc, 'demo_without_patch_rc': without_rc,
                        'confirmed': bool(suite_ok and with_rc not in (0, None) and without_rc == 0)}
            print(key, res[key], flush=True)
            json.dump(res, open(resf, 'w'), indent=1)
    sh('git checkout -q -- . && git clean -fdq tests')


main()
