#!/bin/bash
# run all 20 quick checks against each benign (behaviour-preserving) patch; any VIOLATION is a false alarm
cd /verif
for b in "$@"; do
  for k in 1 2 3 4 5 6 7 8; do
    f=/tmp/mutout/$b/patch$k.diff; [ -f $f ] || continue
    echo "#### $b-$k $(python3 -c "import json;d=json.load(open('/tmp/mutout/$b/meta$k.json'));print((d.get('kind','')+' @ '+d.get('where',''))[:160])")"
    python3 tools/mutrun.py $f C01 C02 C03 C04 C05 C06 C07 C08 C09 C10 C11 C12 C13 C14 C15 C16 C17 C18 C19 C20 2>&1 | grep -E "^   (src|-|witness|/root|derive)|PATCH-FAILED|BUILD-ERROR|INTERNAL" | cut -c1-300 | sort -u | head -14
  done
done
