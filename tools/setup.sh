#!/bin/bash
# Run once in /verif after a fresh restore, offline: builds the fact-extraction driver and
# pre-warms the dependency builds of the configurations the quick checks use.
set -e
cd "$(dirname "$0")/.."
export CARGO_NET_OFFLINE=true
(cd driver && cargo +nightly build --offline 2>&1 | tail -2)
python3 - <<'PY'
import sys
sys.path.insert(0, '.')
from scalecheck import facts
facts.build_configs(['A', 'D', 'G'])
print('facts pre-warmed for configurations A, D, G')
PY
