#!/usr/bin/env python3
"""List the patches of a new round that are not near-duplicates of an already imported seeded change (or of each other):
Jaccard similarity of the changed lines >= 0.7 counts as the same change.  usage: dedup_patches.py <round dir>"""
import glob, os, re, sys
V = os.path.dirname(os.path.dirname(os.path.abspath(__file__)))


def lines(p):
    out = set()
    for l in open(p, errors='replace'):
        if (l.startswith('+') or l.startswith('-')) and not l.startswith(('+++', '---')):
            t = re.sub(r'\s+', ' ', l[1:].strip())
            if t and not t.startswith('//'):
                out.add(l[0] + t)
    return out


old = {p: lines(p) for p in glob.glob(os.path.join(V, 'seeded', 'C*-*', 'patch.diff'))}
new = sorted(glob.glob(os.path.join(sys.argv[1], 'C*', 'patch*.diff')))
kept = {}
for p in new:
    a = lines(p)
    dup = None
    for q, b in list(old.items()) + list(kept.items()):
        if a and b and len(a & b) / len(a | b) >= 0.7:
            dup = q
            break
    if dup:
        print('DUP  %s ~ %s' % (p, dup))
    else:
        kept[p] = a
        print('NEW  %s' % p)
