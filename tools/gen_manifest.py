#!/usr/bin/env python3
"""Writes /verif/MANIFEST.json from the table below (kept in one place so that the manifest is
always valid and in step with the rule modules that exist)."""
import json, os, sys
V = os.path.dirname(os.path.dirname(os.path.abspath(__file__)))
sys.path.insert(0, V)

TECH = {
 'C01': 'wire-shape inference over typed THIR (rustc_private driver) compared with a transcribed SCALE table; callee census for endianness; TYPE_INFO table agreement; premises: derive corpus (C05), entry-point agreement and Output sinks (C07)',
 'C02': 'encoder/decoder mirror over inferred wire terms; vector-kernel conservation rules; array / in-place entry-point rules (no shortcut exits, decode_into — overrides and the trait default — performs the effects of decode on every path); state-coverage of foreign ADT fields; premises: derive corpus, TYPE_INFO census, Input impl shapes',
 'C03': 'strict-tag dispatch and validation-guard rules on decoder terms (guards evaluated at boundary values); MIR panic-site census over all functions reachable from decoding entry points, discharged by dominating-branch facts with kill checks, an interval evaluator and an audited table (panic-capable callees classified from the `# Panics` sections of rust-src / registry sources); error-propagation discipline; termination of loops',
 'C04': 'table agreement between compact encoder, length function and decoder by abstract evaluation of the branch conditions and written values at boundary values and every first byte; MIR panic-site census restricted to the compact module; premises: length peek / skip (C18), declared maximum lengths (C13 R13.1), fixed-buffer sink and entry-point agreement (C07 R07.1/R07.3)',
 'C05': 'translation validation of derive output: generated impls of a generated corpus (all index sources and literal spellings, 256 variants, custom encoded_as types, split attributes, transparent structs, same-type variants with different attributes) analysed by the same wire-shape inference against an independent layout oracle; index dispatch probed per byte value; path-sensitive in-place decode rule; premises: generated where-clauses and hygiene (C17 W17.4/W17.5 compile witnesses)',
 'C06': 'observer classification of resolved callees on encoding paths (non-interference), ambient-state census, TYPE_INFO census (holders never take the bulk path)',
 'C07': 'sibling agreement of wire terms inferred independently per entry point (library impls and derived impls of the corpus; encoded_size only as a pure forward); shape rules for Output sinks (both configurations) and trait defaults; Joiner / KeyedVec pass on the whole callback slice',
 'C08': 'forwarding rules on every Input impl (typed THIR), construct-site census, taint of remaining_len results plus soundness of rejections (exact byte need only), acceptance of cursor reads decided by evaluating guards at boundary values; premise: depth balance (C11)',
 'C09': 'allocation-sink census on decoding paths (named sinks and any sized constructor of a heap container) with taint/sanitiser classification of size arguments; progress rule on element shapes',
 'C10': 'unsafe-operation census plus initialisation typestate on decoder terms (drop guard, boxed path incl. the leak window between raw allocation and ownership, no shortcut success exits; the default in-place entry point path by path), compile witnesses for DecodeFinished; premise: in-place entry points (C02 R02.5)',
 'C11': 'descend/ascend pairing typestate over all paths of decoder terms; who-descends table (inline aggregates neither descend nor use the item kernel; the kernel bracket decided on its entry point with helpers inlined) and cost of one wrapper level followed through associated types and delegation; tracker shape; call-graph cycle check; premises: wrapper forwarding (C08 R08.1), in-place entry points (C02 R02.5)',
 'C12': 'accumulator shape rule, hook-before-allocation path rule with amount agreement (count * size_of, growth loops within the reservation) on decoder terms, marker-bound rule over the impl table (lifetime-insensitive, fail closed), B-tree estimate by evaluation; premises: wrapper forwarding (C08 R08.1), marker enforcement through representation types (C17 W17.3)',
 'C13': 'abstract interpretation of declared length expressions against maxlen of the inferred wire shape; marker-trait shape rules',
 'C14': 'dominance/shape rules on slice Input::read and the consume-all entry points; sequential tuple decoding rule; premises: the mirror rules of C02 / C05, the Input impl shapes and remaining_len discipline of C08 (R08.3/R08.4), depth balance (C11)',
 'C15': 'lossy-cast guard rule on THIR of every encoder and of append_or_new_impl, prefix-codec agreement and rewrite-shape rules (every path over non-empty input validates or rewrites the count); premises: fixed-buffer sink (C07), compact tables (C04)',
 'C16': 'equality of type-level wire shapes for every declared EncodeLike pair under the impl hypotheses; premises: TYPE_INFO census, entry-point agreement (C07 R07.1), validation guards incl. the bit-length limit on the encoder side (C03 R03.2), zero-copy cursor (C08 R08.4)',
 'C17': 'compile-only witness programs with compiling twins (rustc front end) against the artefacts of the current tree, verdict by error code and span root: index rules, variant count, attribute conflicts (separate and combined lists), unions, CompactAs shapes, generated where-clauses for generic definitions, name hygiene of generated items (names read off the corpus facts); the derive corpus must compile; derive macros re-exported from the resolved crate root per feature configuration (derive alone, all features, none)',
 'C18': 'first-event agreement between DecodeLength and Decode terms; skip-override census and mirror (library and derive corpus); premise: length narrowing on encoding paths is range-checked (C15 R15.1)',
 'C19': 'shape and path rules on the two counting methods of CountedInput (typed THIR); premises: failed reads of the provided inputs deliver nothing (C14 R14.1, C08 R08.4)',
 'C20': 'differential static analysis: normalised THIR of every body compared across feature configurations (default, no-default, all optional with and without std) with an audited exception set whose members are checked for equal effect (Output sinks by C07 R07.3, std-only input by C08); no inspection or comparison of Error values',
}
LEVELS = {p: 'other' for p in TECH}
LEVELS['C05'] = 'translation_validation'
LEVELS['C17'] = 'exploration'

TEXT = {
 'other': 'Static analysis over the compiler\'s resolved IR of the current tree: the rules constrain the code on every path / for every impl, so the clause they decide holds for all inputs; value-level remainders are listed in DESIGN.md and not claimed.',
 'translation_validation': 'The derive macros are run by rustc on a generated corpus of definitions; the generated impls are analysed (never executed) and compared with a layout computed independently from each definition.',
 'exploration': 'A finite, enumerated family of generated programs is compiled (front end only); each must-fail program must be rejected at the offending definition and its minimally different twin must compile.',
}


def main():
    impl = sorted(f[:-3].upper() for f in os.listdir(os.path.join(V, 'scalecheck', 'rules')) if f.startswith('c') and f[1:3].isdigit() and f.endswith('.py'))
    na_file = os.path.join(V, 'tools', 'not_applicable.json')
    na = json.load(open(na_file)) if os.path.exists(na_file) else {}
    checks = []
    for p in impl:
        if p in na:
            continue
        checks.append({
            'property_id': p,
            'quick_cmd': './check %s --tier quick' % p,
            'thorough_cmd': './check %s --tier thorough' % p,
            'evidence_file': 'evidence/%s.json' % p,
            'replay_cmd_template': './check %s --replay {path}' % p,
            'engine': 'scalecheck',
            'level_claimed': {'category': LEVELS[p], 'text': TEXT[LEVELS[p]], 'design_ref': 'DESIGN.md §6 ' + p},
            'level_note': 'Trusted: rustc front end (THIR/MIR of the pinned nightly), documented contracts of core/alloc/std and of bitvec/bytes/arrayvec/byte-slice-cast, little-endian target; see DESIGN.md §8 and the per-property "Does not decide" paragraphs.',
            'technique': TECH[p],
        })
    notapp = []
    for p in sorted(TECH):
        if p in impl and p not in na:
            continue
        notapp.append({'property_id': p, 'reason': na.get(p, 'check under construction in this session: rules designed in DESIGN.md §6 %s but not yet implemented; no claim is made until the check exists' % p)})
    m = {
        'version': 1,
        'setup_cmd': 'bash tools/setup.sh',
        'hooks': {
            'guard': 'none',
            'enable': 'no hooks: static analysis reads /repo as it is (a rustc_private driver is injected with RUSTC_WORKSPACE_WRAPPER under cargo +nightly check; nothing in /repo is instrumented)',
            'baseline_off_cmd': 'cd /repo && cargo nextest run --workspace --no-fail-fast --tool-config-file pb:/w/lib/nextest.toml --profile pb --test-threads 8 --offline',
            'source_commits': json.load(open(os.path.join(V, 'tools', 'source_commits.json'))) if os.path.exists(os.path.join(V, 'tools', 'source_commits.json')) else [],
            'add_only': True,
        },
        'engines': [
            {'name': 'scalefacts', 'path': 'driver/', 'serves_properties': sorted(TECH), 'kind_free_text': 'rustc_private driver dumping impl tables, ADTs, typed THIR and MIR as JSON'},
            {'name': 'scalecheck', 'path': 'scalecheck/', 'serves_properties': sorted(TECH), 'kind_free_text': 'Python rule evaluator: symbolic THIR evaluator, wire-shape calculus, MIR path analyses, censuses'},
        ],
        'checks': checks,
        'not_applicable': notapp,
        'notes': 'All checks are static: they rebuild facts from /repo\'s current working tree with a rustc_private driver and decide rules over THIR/MIR; nothing under analysis is executed. known_findings.json lists genuine defects recorded rather than repaired.',
    }
    with open(os.path.join(V, 'MANIFEST.json'), 'w') as f:
        json.dump(m, f, indent=1)
    print('MANIFEST: %d checks, %d not_applicable' % (len(checks), len(notapp)))


main()
