#!/usr/bin/env python3
"""Copy confirmed sub-agent changes from /tmp/mutout into /verif/seeded/<Cxx>-<k>/ (patch.diff,
demo.rs or demo/, meta.json with the confirmation record of tools/confirm_seeded.py)."""
import json, os, shutil, sys
OUT = '/tmp/mutout'
V = os.path.dirname(os.path.dirname(os.path.abspath(__file__)))
conf = json.load(open(os.path.join(OUT, 'confirm.json')))
n = 0
for key, c in sorted(conf.items()):
    pid, k = key.split('-')
    src = os.path.join(OUT, pid)
    dst = os.path.join(V, 'seeded', key)
    if not c.get('confirmed'):
        print('NOT CONFIRMED', key, c)
        continue
    os.makedirs(dst, exist_ok=True)
    shutil.copy(os.path.join(src, 'patch%s.diff' % k), os.path.join(dst, 'patch.diff'))
    if os.path.exists(os.path.join(src, 'demo%s.rs' % k)):
        shutil.copy(os.path.join(src, 'demo%s.rs' % k), os.path.join(dst, 'demo.rs'))
    elif os.path.isdir(os.path.join(src, 'demo%s' % k)):
        if os.path.isdir(os.path.join(dst, 'demo')):
            shutil.rmtree(os.path.join(dst, 'demo'))
        shutil.copytree(os.path.join(src, 'demo%s' % k), os.path.join(dst, 'demo'), ignore=shutil.ignore_patterns('target', 'Cargo.lock'))
    meta = json.load(open(os.path.join(src, 'meta%s.json' % k)))
    old = {}
    if os.path.exists(os.path.join(dst, 'meta.json')):
        old = json.load(open(os.path.join(dst, 'meta.json')))
    meta_out = {
        'property': pid,
        'breaks': meta.get('summary'),
        'needs_to_manifest': meta.get('needs'),
        'author': 'sub-agent given only the text of property %s and a scratch worktree' % pid,
        'what_i_ran': {
            'suite_with_patch': c['suite'],
            'demo_with_patch_exit': c['demo_with_patch_rc'],
            'demo_without_patch_exit': c['demo_without_patch_rc'],
            'how': 'tools/confirm_seeded.py in a fresh scratch worktree of /repo: git apply, pinned nextest command (204 passed required), demo run with the patch (must fail), git apply -R, demo run again (must pass)',
            'agent_demo_cmd': meta.get('demo_cmd'),
        },
        'detected_by': old.get('detected_by', {}),
    }
    json.dump(meta_out, open(os.path.join(dst, 'meta.json'), 'w'), indent=1)
    n += 1
print('imported', n)
