#!/usr/bin/env python3
"""Run checks against every kept seeded change (scratch copy of /repo with the patch applied,
VERIF_REPO) and record which checks report it; writes seeded/MATRIX.md and updates meta.json.
usage: seeded_matrix.py [--all-checks] [-j N] [--out DIR] [ids...]   (default: the change's own property check)
--out DIR: write meta.json / MATRIX.md under DIR/seeded instead of this checkout (when run from a snapshot copy)"""
import json, os, re, shutil, subprocess, sys, threading
V = os.path.dirname(os.path.dirname(os.path.abspath(__file__)))
SCR = '/tmp/vscratch/' + os.environ.get('VSCRATCH', 'repo')
ALL = ['C%02d' % i for i in range(1, 21)]


def run_one(d, checks, SCR=SCR):
    if os.path.isdir(SCR):
        shutil.rmtree(SCR)
    os.makedirs(os.path.dirname(SCR), exist_ok=True)
    subprocess.check_call(['rsync', '-a', '--exclude', 'target', '--exclude', '.git', '/repo/', SCR + '/'])
    # fresh mtimes: cargo decides freshness of path dependencies by mtime, a re-used scratch path must not inherit stale artefacts
    subprocess.check_call('find %s -type f -exec touch {} +' % SCR, shell=True)
    r = subprocess.run(['git', 'apply', '--unsafe-paths', '--directory', SCR, os.path.join(d, 'patch.diff')], cwd='/', capture_output=True, text=True)
    if r.returncode != 0:
        return {'error': 'patch does not apply: ' + r.stderr[-200:]}
    env = dict(os.environ, VERIF_REPO=SCR)
    res = {}
    for c in checks:
        r = subprocess.run([os.path.join(V, 'check'), c, '--tier', 'quick'], env=env, capture_output=True, text=True)
        rules = sorted(set(re.findall(r'  ((?:R|K|W)[0-9A-Za-z.\-]+)  ', r.stdout)))
        if r.returncode == 1:
            res[c] = rules or ['?']
        elif r.returncode != 0:
            res[c] = ['exit %d' % r.returncode]
    shutil.rmtree(SCR, ignore_errors=True)
    return res


def main():
    args = sys.argv[1:]
    allc = '--all-checks' in args
    jn = 1
    outd = V
    if '-j' in args:
        i = args.index('-j'); jn = int(args[i + 1]); del args[i:i + 2]
    if '--out' in args:
        i = args.index('--out'); outd = args[i + 1]; del args[i:i + 2]
    ids = [a for a in args if not a.startswith('--')]
    sd = os.path.join(outd, 'seeded')
    names = sorted(x for x in os.listdir(sd) if os.path.isdir(os.path.join(sd, x)) and re.match(r'C\d\d-\d', x))
    if ids:
        names = [n for n in names if n in ids or n.split('-')[0] in ids]
    lock = threading.Lock()

    def work(k):
        for idx, n in enumerate(names):
            if idx % jn != k:
                continue
            d = os.path.join(sd, n)
            meta = json.load(open(os.path.join(d, 'meta.json')))
            checks = ALL if allc else [meta['property']]
            res = run_one(d, checks, SCR + '-%d' % k)
            det = meta.get('detected_by', {})
            if not allc:
                det = {kk: v for kk, v in det.items() if kk != meta['property']}
            else:
                det = {}
            det.update(res)
            meta['detected_by'] = det
            with lock:
                json.dump(meta, open(os.path.join(d, 'meta.json'), 'w'), indent=1)
                print(n, det, flush=True)
    ts = [threading.Thread(target=work, args=(k,)) for k in range(jn)]
    [t.start() for t in ts]
    [t.join() for t in ts]
    # matrix
    rows = []
    for n in sorted(x for x in os.listdir(sd) if os.path.isdir(os.path.join(sd, x)) and re.match(r'C\d\d-\d', x)):
        meta = json.load(open(os.path.join(sd, n, 'meta.json')))
        det = meta.get('detected_by', {})
        own = meta['property'] in det
        rows.append('| %s | %s | %s | %s | %s |' % (n, (meta.get('breaks') or '').replace('|', '/')[:160], (meta.get('needs_to_manifest') or '').replace('|', '/')[:120],
                                                 'yes' if own else '**no**', '; '.join('%s: %s' % (k, ', '.join(v)) for k, v in sorted(det.items())) or '—'))
    with open(os.path.join(sd, 'MATRIX.md'), 'w') as f:
        f.write('# Seeded changes and the checks that report them\n\n'
                'Each row is a change produced by a sub-agent that saw only the property text; it compiles, keeps the pinned suite at 204 passed, and its demonstration '
                'fails with the change and passes without it (confirmed by tools/confirm_seeded.py). "own check" = the quick check of the property the change was written against.\n\n'
                '| id | what the change does | what it needs to manifest | caught by own check | checks reporting it (rules) |\n|---|---|---|---|---|\n')
        f.write('\n'.join(rows) + '\n')
    print('matrix written:', len(rows), 'rows')


main()
