#!/usr/bin/env python3
"""Write seeded/MATRIX.md from the log of `./check selftest seeded|all` (one line per kept change: caught / MISSED and the
rules that reported it) and the meta.json of each change.  Where an earlier all-checks run recorded which *other* checks
report a change (meta.json `detected_by`, tools/seeded_matrix.py --all-checks), that column is kept.
usage: matrix_from_selftest.py <selftest log> [<more logs>..]"""
import glob, json, os, re, sys
V = os.path.dirname(os.path.dirname(os.path.abspath(__file__)))
res = {}
for lg in sys.argv[1:]:
    for line in open(lg, errors='replace'):
        m = re.match(r'^seeded\s+(C\d+-\d+)\s+(caught|MISSED.*?)\s\s+(.*)$', line.rstrip('\n') + '  ')
        if m:
            res[m.group(1)] = (m.group(2).startswith('caught'), m.group(3).strip())


def esc(s, n):
    s = re.sub(r'\s+', ' ', str(s or '')).replace('|', '\\|')
    return s[:n]


rows = []
for d in sorted(glob.glob(os.path.join(V, 'seeded', 'C*-*')), key=lambda p: (p.split('/')[-1].split('-')[0], int(p.split('-')[-1]))):
    name = os.path.basename(d)
    try:
        meta = json.load(open(os.path.join(d, 'meta.json')))
    except (OSError, ValueError):
        meta = {}
    own = res.get(name)
    det = meta.get('detected_by') or {}
    others = '; '.join('%s: %s' % (k, ', '.join(v)) for k, v in sorted(det.items())) if det else ''
    rows.append('| %s | %s | %s | %s | %s | %s |' % (
        name, meta.get('round') or 'round 1', esc(meta.get('breaks'), 160), esc(meta.get('needs_to_manifest'), 120),
        ('yes: ' + own[1]) if own and own[0] else ('NO' if own else 'not run'), others))
n_yes = sum(1 for r in res.values() if r[0])
out = ['# Seeded changes and the checks that report them', '',
       'Each row is a change produced by a sub-agent that saw only the property text; it compiles, keeps the pinned suite at 204 passed, '
       'and its demonstration fails with the change and passes without it (confirmed by tools/confirm_seeded.py). "own check" = the quick '
       'check of the property the change was written against, with the rules that reported it in the last full self-test '
       '(`./check selftest seeded`; %d of %d changes run, %d reported). The last column lists the other checks that reported the change when '
       'all twenty were run against it (recorded for the changes of the first rounds only).' % (len(res), len(rows), n_yes), '',
       '| id | round | what the change does | what it needs to manifest | reported by own check (rules) | other checks reporting it (rules) |',
       '|---|---|---|---|---|---|'] + rows
open(os.path.join(V, 'seeded', 'MATRIX.md'), 'w').write('\n'.join(out) + '\n')
print('rows', len(rows), 'run', len(res), 'reported', n_yes)
