#!/usr/bin/env python3
"""Import the confirmed changes of a later round into /verif/seeded/<Cxx>-<k>/ with the next free k per property.
usage: import_round.py <round dir> <confirm json> [<confirm json> ..]"""
import glob, json, os, re, shutil, sys
V = os.path.dirname(os.path.dirname(os.path.abspath(__file__)))
OUT = sys.argv[1]
conf = {}
for f in sys.argv[2:]:
    conf.update(json.load(open(os.path.join(OUT, f))))
n = 0
mapping = {}
for key, c in sorted(conf.items()):
    pid, k = key.split('-')
    if not c.get('confirmed'):
        print('NOT CONFIRMED', key, c)
        continue
    src = os.path.join(OUT, pid)
    have = [int(os.path.basename(d).split('-')[1]) for d in glob.glob(os.path.join(V, 'seeded', pid + '-*')) if os.path.basename(d).split('-')[1].isdigit()]
    # already imported? (same patch text)
    patch_txt = open(os.path.join(src, 'patch%s.diff' % k)).read()
    dup = [d for d in glob.glob(os.path.join(V, 'seeded', pid + '-*', 'patch.diff')) if open(d).read() == patch_txt]
    if dup:
        mapping[key] = os.path.basename(os.path.dirname(dup[0]))
        continue
    nk = max(have + [0]) + 1
    dst = os.path.join(V, 'seeded', '%s-%d' % (pid, nk))
    os.makedirs(dst)
    shutil.copy(os.path.join(src, 'patch%s.diff' % k), os.path.join(dst, 'patch.diff'))
    if os.path.exists(os.path.join(src, 'demo%s.rs' % k)):
        shutil.copy(os.path.join(src, 'demo%s.rs' % k), os.path.join(dst, 'demo.rs'))
    elif os.path.isdir(os.path.join(src, 'demo%s' % k)):
        shutil.copytree(os.path.join(src, 'demo%s' % k), os.path.join(dst, 'demo'), ignore=shutil.ignore_patterns('target', 'Cargo.lock'))
    meta = json.load(open(os.path.join(src, 'meta%s.json' % k)))
    meta_out = {
        'property': pid,
        'round': os.path.basename(OUT.rstrip('/')),
        'breaks': meta.get('summary'),
        'needs_to_manifest': meta.get('needs'),
        'author': 'sub-agent given only the text of property %s and a scratch worktree (second round: asked for less-travelled code)' % pid,
        'what_i_ran': {
            'suite_with_patch': c['suite'],
            'demo_with_patch_exit': c['demo_with_patch_rc'],
            'demo_without_patch_exit': c['demo_without_patch_rc'],
            'how': 'tools/confirm_seeded.py in a fresh scratch worktree of /repo: git apply, pinned nextest command (204 passed required), demo run with the patch (must fail), git apply -R, demo run again (must pass)',
            'agent_demo_cmd': meta.get('demo_cmd'),
            'note': c.get('note'),
        },
        'detected_by': {},
    }
    json.dump(meta_out, open(os.path.join(dst, 'meta.json'), 'w'), indent=1)
    mapping[key] = '%s-%d' % (pid, nk)
    n += 1
print('imported', n)
json.dump(mapping, open(os.path.join(OUT, 'import_map.json'), 'w'), indent=1)
