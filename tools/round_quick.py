#!/usr/bin/env python3
"""Run the own-property quick check against every NEW patch of a round directory (see dedup_patches.py), three scratch
slots in parallel.  usage: round_quick.py <round dir> [all]  ->  one line per patch: property, patch, exit, rules"""
import os, subprocess, sys, threading
V = os.path.dirname(os.path.dirname(os.path.abspath(__file__)))
rd = sys.argv[1]
out = subprocess.run([sys.executable, os.path.join(V, 'tools', 'dedup_patches.py'), rd], capture_output=True, text=True).stdout
want = [l.split()[1] for l in out.splitlines() if l.startswith('NEW') or (len(sys.argv) > 2 and l.startswith('DUP'))]
lock = threading.Lock()


def slot(k):
    for i, p in enumerate(want):
        if i % 3 != k:
            continue
        pid = os.path.basename(os.path.dirname(p))
        props = [pid] + sys.argv[3:]
        r = subprocess.run([sys.executable, os.path.join(V, 'tools', 'mutrun.py'), p] + props, capture_output=True, text=True,
                           env=dict(os.environ, VSCRATCH='rq%d' % k))
        lines = r.stdout.splitlines()
        ex = [l for l in lines if l.startswith('== ')]
        rules = sorted({l.split()[1] for l in lines if l.startswith('   ') and len(l.split()) > 2 and l.split()[1][:1] in 'RWKP' and l.split()[1][1:2].isdigit() or l.startswith('   ') and len(l.split()) > 2 and l.split()[1] in ('K1', 'K2', 'K3', 'K4', 'K5', 'POS')})
        with lock:
            print(pid, os.path.basename(p), ' '.join(ex), ','.join(rules), flush=True)
            if 'PATCH-FAILED' in r.stdout or 'BUILD-ERROR' in r.stdout or 'INTERNAL' in r.stdout:
                print('     ' + ' | '.join(l[:200] for l in lines if 'PATCH-FAILED' in l or 'BUILD-ERROR' in l or 'INTERNAL' in l or 'error' in l)[:600], flush=True)


ts = [threading.Thread(target=slot, args=(k,)) for k in range(3)]
[t.start() for t in ts]
[t.join() for t in ts]
print('ALLDONE')
