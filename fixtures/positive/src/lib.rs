//! Positive examples: one deliberately WRONG item per zero-count rule (DESIGN 4.3).  The crate is
//! only analysed (compiled under the fact-extraction driver), never run.  Every item here violates
//! the property named in its comment; a rule that stops reporting its item is dead.
#![allow(dead_code, unused_variables, clippy::all)]
pub mod p {
    use parity_scale_codec::{
        Compact, ConstEncodedLen, Decode, Encode, EncodeLike, Error, Input, MaxEncodedLen, Output,
    };

    // R05.3 / R07.1: no output method overridden -> the three defaults recurse forever
    pub struct Cyc(pub u8);
    impl Encode for Cyc {}

    // R07.1: entry points disagree
    pub struct Disagree(pub u8);
    impl Encode for Disagree {
        fn encode_to<W: Output + ?Sized>(&self, dest: &mut W) {
            dest.push_byte(1);
        }
        fn using_encoded<R, F: FnOnce(&[u8]) -> R>(&self, f: F) -> R {
            f(&[2u8][..])
        }
    }

    // R16.1: declared to encode like u32 but encodes as u16
    pub struct W16(pub u16);
    impl Encode for W16 {
        fn encode_to<W: Output + ?Sized>(&self, dest: &mut W) {
            self.0.encode_to(dest)
        }
    }
    impl EncodeLike<u32> for W16 {}

    // R06.1: layout observer
    pub struct LayoutObs(pub Vec<u8>);
    impl Encode for LayoutObs {
        fn encode_to<W: Output + ?Sized>(&self, dest: &mut W) {
            dest.push_byte(self.0.capacity() as u8);
            self.0.encode_to(dest)
        }
    }

    // R06.2: ambient state
    pub static SALT: u8 = 7;
    pub struct Ambient(pub u8);
    impl Encode for Ambient {
        fn encode_to<W: Output + ?Sized>(&self, dest: &mut W) {
            dest.push_byte(self.0 ^ SALT);
        }
    }

    // R08.1: wrapper that swallows a hook
    pub struct BadWrapper<'a, I> {
        pub input: &'a mut I,
    }
    impl<I: Input> Input for BadWrapper<'_, I> {
        fn remaining_len(&mut self) -> Result<Option<usize>, Error> {
            self.input.remaining_len()
        }
        fn read(&mut self, into: &mut [u8]) -> Result<(), Error> {
            self.input.read(into)
        }
        fn read_byte(&mut self) -> Result<u8, Error> {
            self.input.read_byte()
        }
        fn descend_ref(&mut self) -> Result<(), Error> {
            Ok(())
        }
        fn ascend_ref(&mut self) {
            self.input.ascend_ref()
        }
        fn on_before_alloc_mem(&mut self, size: usize) -> Result<(), Error> {
            self.input.on_before_alloc_mem(size + 1)
        }
    }

    // R11.1: descend without ascend on the success path
    pub struct Unbalanced(pub u8);
    impl Decode for Unbalanced {
        fn decode<I: Input>(input: &mut I) -> Result<Self, Error> {
            input.descend_ref()?;
            Ok(Unbalanced(u8::decode(input)?))
        }
    }

    // R09.1 / R12.2: allocation sized by a decoded count, no hook
    pub struct NoHook(pub Vec<u8>);
    impl Decode for NoHook {
        fn decode<I: Input>(input: &mut I) -> Result<Self, Error> {
            let n = <Compact<u32>>::decode(input)?.0 as usize;
            let mut v: Vec<u8> = Vec::new();
            v.reserve_exact(n);
            for _ in 0..n {
                v.push(u8::decode(input)?);
            }
            Ok(NoHook(v))
        }
    }
    impl parity_scale_codec::DecodeWithMemTracking for NoHook {}

    // R13.1: declared maximum below the real one
    pub struct MelLow(pub u32);
    impl Encode for MelLow {
        fn encode_to<W: Output + ?Sized>(&self, dest: &mut W) {
            self.0.encode_to(dest)
        }
    }
    impl MaxEncodedLen for MelLow {
        fn max_encoded_len() -> usize {
            1
        }
    }

    // R13.3: constant length claimed for a sum type
    pub struct CelBad(pub Option<u8>);
    impl Encode for CelBad {
        fn encode_to<W: Output + ?Sized>(&self, dest: &mut W) {
            self.0.encode_to(dest)
        }
    }
    impl MaxEncodedLen for CelBad {
        fn max_encoded_len() -> usize {
            2
        }
    }
    impl ConstEncodedLen for CelBad {}

    // R03.1: lenient tag dispatch; R02.1: tags decode to the wrong constructor set
    pub enum Tagged {
        A,
        B,
    }
    impl Encode for Tagged {
        fn encode_to<W: Output + ?Sized>(&self, dest: &mut W) {
            match *self {
                Tagged::A => dest.push_byte(0),
                Tagged::B => dest.push_byte(1),
            }
        }
    }
    impl Decode for Tagged {
        fn decode<I: Input>(input: &mut I) -> Result<Self, Error> {
            match input.read_byte()? {
                0 => Ok(Tagged::A),
                _ => Ok(Tagged::B),
            }
        }
    }

    // R03.5: error swallowed
    pub struct Swallow(pub u8);
    impl Decode for Swallow {
        fn decode<I: Input>(input: &mut I) -> Result<Self, Error> {
            let x = u8::decode(input).ok().unwrap_or(0);
            Ok(Swallow(x))
        }
    }

    // R15.1: unguarded narrowing of a length into a count prefix
    pub struct CastLen(pub Vec<u16>);
    impl Encode for CastLen {
        fn encode_to<W: Output + ?Sized>(&self, dest: &mut W) {
            Compact(self.0.len() as u32).encode_to(dest);
            for x in self.0.iter() {
                x.encode_to(dest);
            }
        }
    }

    // R02.1: decoder reads the components in a different representation
    pub struct MirrorBad(pub u8, pub u32);
    impl Encode for MirrorBad {
        fn encode_to<W: Output + ?Sized>(&self, dest: &mut W) {
            self.0.encode_to(dest);
            self.1.encode_to(dest);
        }
    }
    impl Decode for MirrorBad {
        fn decode<I: Input>(input: &mut I) -> Result<Self, Error> {
            let b = u32::decode(input)?;
            let a = u8::decode(input)?;
            Ok(MirrorBad(a, b))
        }
    }

    // R03.3: panic-capable sites on a decoding path that no rule discharges: an unwrap of an attacker-controlled
    // Option, an index by a decoded value, unchecked arithmetic on a decoded value
    pub struct Panicky(pub u8);
    impl Decode for Panicky {
        fn decode<I: Input>(input: &mut I) -> Result<Self, Error> {
            let n = u8::decode(input)?;
            let k = u32::decode(input)?;
            let table = [1u8, 2, 3, 4];
            let v = table[n as usize];
            let w = core::num::NonZeroU8::new(n).unwrap();
            let z = k * 3 + 1;
            Ok(Panicky(v.wrapping_add(w.get()).wrapping_add(z as u8)))
        }
    }
}
