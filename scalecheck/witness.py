"""Compile-only witness programs with compiling twins (DESIGN 2.4): one-file programs compiled
with `rustc --emit=metadata --error-format=json` against the parity-scale-codec artefacts that one
`cargo check` of a fixture crate produced from the tree under analysis.  Nothing is run."""
import glob
import json
import os
import shutil
import subprocess
from concurrent.futures import ThreadPoolExecutor

from . import facts as factsmod

PRELUDE = ('#![allow(dead_code, unused_imports, unused_variables)]\n'
           'extern crate parity_scale_codec;\n'
           'use parity_scale_codec::{Encode, Decode, DecodeWithMemTracking, MaxEncodedLen, CompactAs, HasCompact, Compact};\n'
           'use core::marker::PhantomData;\n')
PRELUDE_LINES = PRELUDE.count('\n')


class Artefacts:
    def __init__(self, deps_dir, rmeta):
        self.deps = deps_dir
        self.rmeta = rmeta


def locate_artefacts(fixture_name='corpus'):
    """deps dir + rmeta of parity_scale_codec produced by the most recent check of the fixture"""
    root = factsmod.repo_root()
    import hashlib
    rid = hashlib.sha256(root.encode()).hexdigest()[:8]
    deps = os.path.join(factsmod.WORK, 'target-%s-fx' % rid, 'debug', 'deps')
    cands = sorted(glob.glob(os.path.join(deps, 'libparity_scale_codec-*.rmeta')), key=os.path.getmtime)
    if not cands:
        raise factsmod.BuildError('no parity_scale_codec artefact under %s (fixture not built?)' % deps)
    return Artefacts(deps, cands[-1])


def compile_one(art, src_path, out_dir):
    env = factsmod.base_env()
    cmd = ['rustc', '+nightly', '--edition', '2021', '--crate-type', 'lib', '--emit=metadata', '--error-format=json',
           '--crate-name', 'w_' + os.path.basename(src_path).replace('.rs', ''), '--out-dir', out_dir,
           '-L', 'dependency=' + art.deps, '--extern', 'parity_scale_codec=' + art.rmeta, '-Awarnings', src_path]
    r = subprocess.run(cmd, env=env, stdout=subprocess.PIPE, stderr=subprocess.PIPE, text=True, timeout=120)
    errs = []
    for line in r.stderr.splitlines():
        line = line.strip()
        if not line.startswith('{'):
            continue
        try:
            d = json.loads(line)
        except ValueError:
            continue
        if d.get('level') == 'error' and d.get('message', '').startswith('aborting due to'):
            continue
        if d.get('level') == 'error':
            errs.append(d)
    return r.returncode, errs


def root_span(span):
    """root of the macro expansion chain of a span: (file, line_start, line_end)"""
    s = span
    n = 0
    while s.get('expansion') and n < 40:
        s = s['expansion']['span']
        n += 1
    return s['file_name'], s['line_start'], s['line_end']


def run_programs(programs, tag):
    """programs: list of dicts with 'name', 'body' (the type definition(s)); adds 'rc', 'errors'
    [(code, root file, line, message)]."""
    import hashlib
    rid = hashlib.sha256(factsmod.repo_root().encode()).hexdigest()[:8]
    # the artefacts (library rmeta, derive .so) live in the fixture target directory of this tree: hold its lock so that
    # a concurrently running check cannot rebuild them under the compiler's feet; the scratch directory is per process
    with factsmod.locked('fx-%s' % rid):
        return _run_programs_locked(programs, tag, rid)


def _run_programs_locked(programs, tag, rid):
    art = locate_artefacts()
    wd = os.path.join(factsmod.WORK, 'witness-%s-%s-%d' % (tag, rid, os.getpid()))
    if os.path.isdir(wd):
        shutil.rmtree(wd)
    os.makedirs(wd)
    outd = os.path.join(wd, 'out')
    os.makedirs(outd)
    for p in programs:
        path = os.path.join(wd, p['name'] + '.rs')
        with open(path, 'w') as f:
            f.write(PRELUDE + p['body'])
        p['path'] = path

    def one(p):
        rc, errs = compile_one(art, p['path'], outd)
        p['rc'] = rc
        out = []
        for e in errs:
            code = (e.get('code') or {}).get('code')
            prim = [s for s in e.get('spans', []) if s.get('is_primary')] or e.get('spans', [])
            if prim:
                fn, ls, le = root_span(prim[0])
            else:
                fn, ls, le = '?', 0, 0
            out.append({'code': code, 'file': os.path.basename(fn), 'line': ls, 'msg': e.get('message', '')[:200]})
        p['errors'] = out
        return p
    with ThreadPoolExecutor(max_workers=16) as ex:
        list(ex.map(one, programs))
    shutil.rmtree(wd, ignore_errors=True)
    return programs
