"""Type-level wire shapes (DESIGN 3.2): W(T) computed from the crate's own Encode impls.

  W ::= ('eps',) | ('byte', k) | ('bytex', how) | ('prim', P) | ('cat', [W..]) | ('alt', [(label, W)..])
      | ('seq', W) | ('rep', W, N) | ('compact', P) | ('bitseq', store) | ('var', T) | ('cvar', T)
      | ('opaque', why)

`cvar T` is the compact representation of a generic T (CompactRef<T> with T a parameter).
"""
from . import sym, types as T, wire
from .sym import strip, items
from .facts import tname

# Deref::Target of the std / third-party holder types that implement WrapperTypeEncode (trusted
# std facts; the local `Ref` holder is read from its own Deref impl)
DEREF_TARGET = {
    'alloc::boxed::Box': lambda a: a[0],
    'alloc::rc::Rc': lambda a: a[0],
    'alloc::sync::Arc': lambda a: a[0],
    'alloc::borrow::Cow': lambda a: a[0],
    'alloc::vec::Vec': lambda a: ('slice', a[0]),
    'alloc::string::String': lambda a: ('prim', 'str'),
    'bytes::bytes::Bytes': lambda a: ('slice', ('prim', 'u8')),
}

INTS = ('u8', 'u16', 'u32', 'u64', 'u128', 'i8', 'i16', 'i32', 'i64', 'i128')
PRIM_SIZE = {'u8': 1, 'i8': 1, 'u16': 2, 'i16': 2, 'u32': 4, 'i32': 4, 'f32': 4, 'u64': 8, 'i64': 8, 'f64': 8, 'u128': 16,
             'i128': 16, 'bool': 1}


def wcat(ws):
    out = []
    for w in ws:
        if w == ('eps',):
            continue
        if w[0] == 'cat':
            out.extend(w[1])
        else:
            out.append(w)
    if not out:
        return ('eps',)
    if len(out) == 1:
        return out[0]
    return ('cat', out)


def wshow(w):
    k = w[0]
    if k == 'eps':
        return 'ε'
    if k == 'byte':
        return 'Byte(%s)' % w[1]
    if k == 'bytex':
        return 'ByteOf(%s)' % w[1]
    if k == 'prim':
        return 'Prim(%s)' % w[1]
    if k == 'cat':
        return 'Cat[%s]' % ', '.join(wshow(x) for x in w[1])
    if k == 'alt':
        return 'Alt[%s]' % '; '.join('%s→%s' % (l, wshow(x)) for l, x in w[1])
    if k == 'seq':
        return 'Seq(%s)' % wshow(w[1])
    if k == 'rep':
        return 'Rep(%s, %s)' % (wshow(w[1]), w[2])
    if k == 'compact':
        return 'CompactInt(%s)' % w[1]
    if k == 'bitseq':
        return 'BitSeq(%s)' % w[1]
    if k == 'var':
        return 'Var(%s)' % w[1]
    if k == 'cvar':
        return 'CompactVar(%s)' % w[1]
    if k == 'opaque':
        return 'Opaque(%s)' % w[1]
    return str(w)


class Shapes:
    def __init__(self, facts):
        self.facts = facts
        self.ev = sym.Evaluator(facts)
        self.enc_impls = []
        for i in facts.impls_of('Encode'):
            self.enc_impls.append((T.from_json(i['self_ty']), [g['name'] for g in i['generics']], i))
        self.wrapper_impls = []
        for i in facts.impls_of('WrapperTypeEncode'):
            self.wrapper_impls.append((T.from_json(i['self_ty']), [g['name'] for g in i['generics']], i))
        self.deref_local = {}
        for i in facts.impls:
            if i['trait'] == 'core::ops::deref::Deref':
                for it in i['items']:
                    if it['name'] == 'Target':
                        self.deref_local[(i['self_ty'] or {}).get('path')] = (T.from_json(i['self_ty']), [g['name'] for g in i['generics']], T.parse(it['value']))
        self.cache = {}
        self.impl_terms = {}
        self.stack = []

    # -------------------------------------------------------------- per-impl source term
    def methods_of(self, impl):
        ms = {}
        for f in self.facts.fns:
            if f['kind'] == 'AssocFn' and f['ctx'] == 'trait_impl' and f.get('impl') == impl['path'] and f['self'] == impl['self'] and tname(f['trait']) == 'Encode':
                ms[f['method']] = f
        return ms

    def source_term(self, impl):
        """the term of the impl's defining output method (encode_to, else using_encoded, else encode)"""
        key = impl['path'] + '|' + impl['self']
        if key in self.impl_terms:
            return self.impl_terms[key]
        ms = self.methods_of(impl)
        res = None
        for m in ('encode_to', 'using_encoded', 'encode'):
            if m in ms:
                t, v, _ = wire.infer_encoder_method(self.facts, ms[m], self.ev)
                # self-forwarding using_encoded (`self.encode_to(&mut buf); f(&buf)`) is not a source
                if m != 'encode_to' and _is_self_forward(t):
                    continue
                res = (m, t, ms[m])
                break
        if res is None and ms:
            res = ('none', ['opaque', 'no output method overridden (default-method cycle)', impl['loc']], None)
        self.impl_terms[key] = res
        return res

    # -------------------------------------------------------------- type level
    def normalize(self, t):
        """type-level normalisation: strip references, resolve the projections the crate defines"""
        t = T.strip_refs(t)
        if t[0] == 'proj':
            inner = self.normalize(t[1])
            trait = t[2][1] if t[2][0] == 'adt' else ''
            if tname(trait) == 'HasCompact' and t[3] == 'Type':
                # the unique blanket impl: <T as HasCompact>::Type = Compact<T>
                hc = self.facts.impls_of('HasCompact')
                if len(hc) == 1 and any(it['name'] == 'Type' and it['value'] == 'compact::Compact<T>' for it in hc[0]['items']):
                    return ('adt', 'compact::Compact', [inner])
            if tname(trait) == 'EncodeAsRef' and t[3] == 'RefType':
                ea = [i for i in self.facts.impls_of('EncodeAsRef') if i['self'].startswith('compact::Compact<')]
                if inner[0] == 'adt' and inner[1] == 'compact::Compact' and len(ea) == 1 and any(
                        it['name'] == 'RefType' and it['value'] == "compact::CompactRef<'a, T>" for it in ea[0]['items']):
                    return ('adt', 'compact::CompactRef', [self.normalize(inner[2][0])])
            if tname(trait) == 'ToOwned' and t[3] == 'Owned':
                return ('proj', inner, t[2], t[3])
            return ('proj', inner, t[2], t[3])
        if t[0] == 'adt':
            return ('adt', t[1], [self.normalize(a) if a[0] != 'const' else a for a in t[2]])
        if t[0] == 'tuple':
            return ('tuple', [self.normalize(a) for a in t[1]])
        if t[0] in ('slice',):
            return ('slice', self.normalize(t[1]))
        if t[0] == 'array':
            return ('array', self.normalize(t[1]), t[2])
        return t

    def find_impl(self, t):
        best = None
        for pat, params, impl in self.enc_impls:
            if pat[0] == 'param':
                continue  # the blanket wrapper impl
            env = T.unify(pat, t, set(params))
            if env is not None:
                # most specific impl wins (CompactRef<'_, u64> before CompactRef<'_, T: CompactAs>)
                if best is None or len(env) < len(best[1]):
                    best = (impl, env)
        return best if best else (None, None)

    def wire_type(self, t, depth=0):
        t = self.normalize(t)
        key = repr(t)
        if key in self.cache:
            return self.cache[key]
        if depth > 48 or key in self.stack:
            return ('opaque', 'recursive type ' + T.show(t))
        self.stack.append(key)
        try:
            w = self._wire_type(t, depth)
        finally:
            self.stack.pop()
        self.cache[key] = w
        return w

    def _wire_type(self, t, depth):
        if t[0] == 'param':
            return ('var', t[1])
        if t[0] == 'proj':
            return ('var', T.show(t))
        if t[0] == 'adt' and t[1] == 'compact::CompactRef' and t[2] and t[2][0][0] in ('param', 'proj'):
            return ('cvar', T.show(t[2][0]))
        if t[0] == 'adt' and t[1] == 'compact::CompactRef' and t[2] and t[2][0][0] == 'prim' and t[2][0][1] in ('u8', 'u16', 'u32', 'u64', 'u128'):
            # internal structure of the compact encoders is C04's business
            if self.find_impl(t)[0] is not None:
                return ('compact', t[2][0][1])
        impl, env = self.find_impl(t)
        if impl is not None:
            return self.wire_impl(impl, env, depth)
        # holders: WrapperTypeEncode + Deref::Target
        for pat, params, wi in self.wrapper_impls:
            if T.unify(pat, t, set(params)) is not None and t[0] == 'adt':
                if t[1] in DEREF_TARGET:
                    return self.wire_type(DEREF_TARGET[t[1]](t[2]), depth + 1)
                if t[1] in self.deref_local:
                    spat, sparams, target = self.deref_local[t[1]]
                    env2 = T.unify(spat, t, set(sparams))
                    if env2 is not None:
                        return self.wire_type(T.subst(target, env2), depth + 1)
                return ('opaque', 'holder %s without a known Deref::Target' % T.show(t))
        return ('opaque', 'no Encode impl found for ' + T.show(t))

    def wire_impl(self, impl, env=None, depth=0):
        """shape of one impl, with its type parameters substituted by env (or left as Var)"""
        src = self.source_term(impl)
        if src is None:
            return ('opaque', 'impl without methods')
        m, term, fn = src
        w = self.term_shape(term, env or {}, depth, impl)
        st = impl.get('self_ty') or {}
        if st.get('k') == 'prim' and w in (('bytex', 'self'), ('bytex', 'self as u8')) and st['s'] in ('u8', 'i8', 'bool'):
            if (st['s'] == 'u8') == (w[1] == 'self'):
                return ('prim', st['s'])
        return w

    # -------------------------------------------------------------- term -> shape
    def enc_shape(self, ty_s, val, env, depth):
        t = T.subst(T.parse(ty_s), env)
        # encoding a literal integer: its LE bytes are constant, but keep the primitive shape
        return self.wire_type(t, depth + 1)

    def term_shape(self, term, env, depth, impl):
        its = [e for e in items(term)]
        out = []
        i = 0
        n = len(its)
        while i < n:
            e = its[i]
            k = e[0]
            if k in ('CFG', 'SET', 'MUTCALL', 'UNWRAP_OR', 'OWN', 'ALLOC', 'SINKW'):
                i += 1
                continue
            if k == 'PANIC':
                i += 1
                continue
            if k == 'byte':
                out.append(_byte_shape(e[1]))
            elif k == 'write':
                v = strip(e[1])
                if isinstance(v, tuple) and v[0] == 'array':
                    out.extend(_byte_shape(x) for x in v[1])
                else:
                    out.append(('opaque', 'write of ' + sym.vstr(v)[:60]))
            elif k == 'prim_le':
                ty = e[2]
                nm = ty.rsplit('<impl ', 1)[-1].split('>')[0] if '<impl ' in ty else ty
                if strip(e[1]) == ('self',):
                    out.append(('prim', nm))
                else:
                    out.append(('opaque', 'little-endian bytes of a computed value ' + sym.vstr(e[1])[:60]))
            elif k == 'prim_other':
                out.append(('opaque', 'non-little-endian byte conversion ' + e[2]))
            elif k == 'enc':
                w = self.enc_event_shape(e, its, i, env, depth)
                if isinstance(w, tuple) and w and w[0] == '__count':
                    # count prefix: must be followed by the elements of the same collection
                    j = i + 1
                    while j < n and its[j][0] in ('PANIC', 'CFG'):
                        j += 1
                    el, used = self.elems_shape(its, j, w[1], env, depth)
                    if el is None:
                        out.append(('opaque', 'count prefix of %s not followed by its elements' % sym.vstr(w[1])[:60]))
                        i += 1
                        continue
                    out.append(el)
                    i = j + used
                    continue
                out.append(w)
            elif k == 'HELPER':
                if _is_count_helper(e):
                    c = _count_of_helper(e[2])
                    if c is None:
                        out.append(('opaque', 'compact_encode_len_to of unrecognised shape'))
                    else:
                        j = i + 1
                        while j < n and its[j][0] in ('PANIC', 'CFG'):
                            j += 1
                        el, used = self.elems_shape(its, j, c, env, depth)
                        if el is None:
                            out.append(('opaque', 'count prefix of %s not followed by its elements' % sym.vstr(c)[:60]))
                            i += 1
                            continue
                        out.append(el)
                        i = j + used
                        continue
                elif _slice_helper_arg(e)[0] is not None:
                    src, ety = _slice_helper_arg(e)
                    if src is None:
                        out.append(('opaque', 'encode_slice_no_len of unrecognised shape'))
                    else:
                        out.append(('__elems', src, ety))
                else:
                    out.append(self.term_shape(e[2], env, depth, impl))
            elif k == 'star':
                src = strip(e[1])
                body = self.term_shape(e[2], env, depth, impl)
                out.append(('__star', src, body))
            elif k == 'alt':
                out.append(self.alt_shape(e, env, depth, impl))
            elif k in ('ERR', '?', 'RET', 'CHECK', 'ONOK'):
                pass
            elif k == 'opaque':
                out.append(('opaque', e[1]))
            else:
                out.append(('opaque', 'event ' + k))
            i += 1
        # uncounted element sequences: fixed-size arrays
        fin = []
        for w in out:
            if w[0] == '__elems':
                n_ = _fixed_len(w[1], impl, env)
                ew = self.wire_type(T.subst(T.parse(w[2]), env), depth + 1) if w[2] else ('opaque', 'element type unknown')
                fin.append(('rep', ew, n_) if n_ is not None else ('opaque', 'uncounted element sequence over ' + sym.vstr(w[1])[:60]))
            elif w[0] == '__star':
                n_ = _fixed_len(_iter_src(w[1]), impl, env)
                if n_ is not None:
                    fin.append(('rep', w[2], n_))
                elif _is_chunks(w[1]):
                    fin.append(('__chunks', w[1], w[2]))
                else:
                    fin.append(('opaque', 'loop over %s without a count prefix' % sym.vstr(w[1])[:60]))
            else:
                fin.append(w)
        return wcat(fin)

    def enc_event_shape(self, e, its, i, env, depth):
        ty_s, val = e[1], strip(e[2])
        t = self.normalize(T.subst(T.parse(ty_s), env))
        # count prefix `Compact(len(X) as u32)`
        if t == ('adt', 'compact::Compact', [('prim', 'u32')]) and isinstance(val, tuple) and val[0] == 'adt' and val[1].endswith('Compact'):
            inner = strip(val[3][0][1])
            if isinstance(inner, tuple) and inner[0] == 'cast' and inner[1] == 'u32':
                c = strip(inner[2])
                if isinstance(c, tuple) and c[0] == 'call' and c[1] == 'len':
                    return ('__count', strip(c[3][0]))
                if isinstance(c, tuple) and c[0] in ('mutvar', 'var') or (isinstance(c, tuple) and c[0] == 'call'):
                    return ('__count', c)
        # a tuple expression encodes as the concatenation of its components
        if t[0] == 'tuple' and isinstance(val, tuple) and val[0] == 'tuple' and len(val[1]) == len(t[1]):
            return wcat([self.value_shape(ct, cv, env, depth) for ct, cv in zip(t[1], val[1])])
        return self.value_shape(t, val, env, depth)

    def value_shape(self, t, val, env, depth):
        """shape of encoding the value `val` of type t: the operand must be a pure access path"""
        val = strip(val)
        if not _pure_access(val):
            # computed operands are allowed only inside the compact encoders (C04 governs them)
            return ('__computed', self.wire_type(t, depth + 1), sym.vstr(val)[:80])
        return self.wire_type(t, depth + 1)

    def elems_shape(self, its, j, coll, env, depth):
        """elements of collection `coll` starting at its[j]; returns (Seq shape, items consumed)"""
        if j >= len(its):
            return None, 0
        e = its[j]
        cs = sym.vstr(coll)
        if e[0] == 'HELPER' and _slice_helper_arg(e)[0] is not None:
            src, ety = _slice_helper_arg(e)
            if src is None:
                return None, 0
            ss = sym.vstr(src)
            ew = self.wire_type(T.subst(T.parse(ety), env), depth + 1)
            if ss in (cs, 'index(%s, RangeFull::RangeFull{})' % cs):
                return ('seq', ew), 1
            # VecDeque: both halves, in order
            if ss == 'as_slices(%s).0' % cs and j + 1 < len(its):
                e2 = its[j + 1]
                if e2[0] == 'HELPER' and _slice_helper_arg(e2)[0] is not None:
                    src2, ety2 = _slice_helper_arg(e2)
                    if src2 is not None and sym.vstr(src2) == 'as_slices(%s).1' % cs and ety2 == ety:
                        return ('seq', ew), 2
            return None, 0
        if e[0] == 'star':
            src = _iter_src(strip(e[1]))
            if sym.vstr(src) == cs and _is_forward_iter(strip(e[1])):
                body = self.term_shape(e[2], env, depth, None)
                return ('seq', body), 1
            if _is_chunks(strip(e[1])) and sym.vstr(_chunks_src(strip(e[1]))) == cs:
                return ('bitseq', 'chunks'), 1
        return None, 0

    def alt_shape(self, e, env, depth, impl):
        scrut = strip(e[1])
        arms = []
        # `if cond { panic } else {}` guards (asserts) contribute nothing
        if isinstance(scrut, tuple) and scrut and scrut[0] == 'if':
            bodies = [(d, x) for d, x in e[2]]
            live = [(d, x) for d, x in bodies if not _only_panic_or_err(x)]
            if len(live) == 1:
                return self.term_shape(live[0][1], env, depth, impl)
            # `if let Some(x) = v { .. } else { .. }` is the two-arm match on v: label the arms by the pattern and its complement
            c_ = strip(scrut[1])
            relab = {}
            if isinstance(c_, tuple) and c_ and c_[0] == 'letcond' and c_[1] in ('Some', 'None', 'Ok', 'Err'):
                other = {'Some': 'None', 'None': 'Some', 'Ok': 'Err', 'Err': 'Ok'}[c_[1]]
                relab = {'true': c_[1], 'false': other}
            shp = [(relab.get(str(d), str(d)), self.term_shape(x, env, depth, impl)) for d, x in bodies]
            if all(w == ('eps',) for _, w in shp):
                return ('eps',)
            return ('alt', shp)
        for d, x in e[2]:
            lab = d[1] if isinstance(d, tuple) and d[0] == 'pat' else sym.dstr(d)
            arms.append((lab, self.term_shape(x, env, depth, impl)))
        if isinstance(scrut, tuple) and scrut[0] == 'const' and scrut[1].endswith('TYPE_INFO'):
            return ('__typeinfo', arms)
        return ('alt', arms)


def _is_self_forward(t):
    its = [e for e in items(t) if e[0] not in ('CFG', 'ALLOC', 'OWN', 'SINKW')]
    return len(its) == 1 and its[0][0] == 'enc' and strip(its[0][2]) == ('self',)


def _byte_shape(v):
    v = strip(v)
    if isinstance(v, tuple) and v[0] == 'lit' and isinstance(v[1], int):
        return ('byte', v[1])
    if isinstance(v, tuple) and v[0] == 'cast' and v[1] == 'u8':
        inner = strip(v[2])
        if isinstance(inner, tuple) and inner[0] == 'lit' and isinstance(inner[1], int):
            return ('byte', inner[1] % 256)
        if isinstance(inner, tuple) and inner[0] == 'const' and inner[2] is not None:
            return ('byte', inner[2] % 256)
        if inner == ('self',):
            return ('bytex', 'self as u8')
        from .decshape import _const_int
        k = _const_int(inner)
        if k is not None:
            return ('byte', k % 256)
    if v == ('self',):
        return ('bytex', 'self')
    if isinstance(v, tuple) and v[0] == 'matchval':
        arms = []
        for d, x in v[2]:
            x = strip(x)
            arms.append((d[1] if isinstance(d, tuple) else str(d), ('byte', x[1]) if isinstance(x, tuple) and x[0] == 'lit' else ('opaque', 'computed tag')))
        return ('alt', arms)
    return ('bytex', sym.vstr(v)[:80])


def _is_count_helper(e):
    """an inlined helper whose only output is the Compact<u32> count of a length (compact_encode_len_to)"""
    if e[0] != 'HELPER' or _count_of_helper(e[2]) is None:
        return False
    outs = [x for x in sym.walk(e[2]) if x[0] in ('enc', 'byte', 'write', 'star')]
    return len(outs) == 1


def _count_of_helper(t):
    for e in sym.walk(t):
        if e[0] == 'enc' and e[1] == 'compact::Compact<u32>':
            val = strip(e[2])
            if isinstance(val, tuple) and val[0] == 'adt':
                inner = strip(val[3][0][1])
                c = None
                if isinstance(inner, tuple) and inner[0] == 'cast' and inner[1] == 'u32':
                    c = strip(inner[2])
                else:
                    # the Ok payload of a lossless conversion: `match u32::try_from(len) { Ok(n) => Compact(n), .. }`
                    x = inner
                    for _ in range(4):
                        if isinstance(x, tuple) and x and x[0] in ('field', 'unwrapped', 'tried'):
                            x = strip(x[1])
                        else:
                            break
                    if isinstance(x, tuple) and x and x[0] == 'call' and x[1] in ('try_from', 'try_into') and x[3]:
                        c = strip(x[3][0])
                if c is not None:
                    if isinstance(c, tuple) and c[0] == 'call' and c[1] == 'len':
                        return strip(c[3][0])
                    return c
    return None


def _slice_helper_arg(e):
    """(slice value, element type) of an inlined encode_slice_no_len: read off its Unknown arm"""
    for x in sym.walk(e[2]):
        if x[0] == 'alt' and isinstance(strip(x[1]), tuple) and strip(x[1])[0] == 'const' and strip(x[1])[1].endswith('TYPE_INFO'):
            for d, arm in x[2]:
                if isinstance(d, tuple) and d[1] == 'Unknown':
                    for y in sym.walk(arm):
                        if y[0] == 'star':
                            src = _iter_src(strip(y[1]))
                            encs = [z for z in sym.walk(y[2]) if z[0] == 'enc']
                            idx = _indexed_loop(y)
                            if idx is not None and len(encs) == 1:
                                # `for i in 0..slice.len() { slice[i].encode_to(dest) }` (or its while spelling)
                                return idx, encs[0][1]
                            if src == ('loop',):
                                continue
                            if len(encs) == 1:
                                return src, encs[0][1]
    return None, None


def _indexed_loop(star):
    """for an index loop `for i in 0..len(X) { .. X[i] .. }` (sym canonicalises the `while i < len(X)` counter
    spelling to the same term) return X"""
    src = strip(star[1])
    if not (isinstance(src, tuple) and src[0] == 'adt' and src[1].endswith('ops::range::Range')):
        return None
    lo = strip([v for i_, v in src[3] if i_ == 0][0])
    bound = strip([v for i_, v in src[3] if i_ == 1][0])
    if not (isinstance(lo, tuple) and lo[0] == 'lit' and lo[1] == 0):
        return None
    if not (isinstance(bound, tuple) and bound[0] == 'call' and bound[1] == 'len'):
        return None
    X = strip(bound[3][0])
    body = star[2]
    encs = [z for z in sym.walk(body) if z[0] == 'enc']
    if len(encs) != 1:
        return None
    op = strip(encs[0][2])

    def is_idx(v):
        v = strip(v)
        return isinstance(v, tuple) and v[0] == 'elem' and sym.vstr(v[1]) == sym.vstr(src)
    okop = isinstance(op, tuple) and ((op[0] == 'index' and sym.vstr(op[1]) == sym.vstr(X) and is_idx(op[2])) or
                                      (op[0] == 'call' and op[1] == 'index' and sym.vstr(op[3][0]) == sym.vstr(X) and is_idx(op[3][1])))
    return X if okop else None


def _iter_src(v):
    v = strip(v)
    while isinstance(v, tuple) and v[0] == 'call' and v[1] in ('iter', 'into_iter', 'deref'):
        v = strip(v[3][0])
    return v


def _is_forward_iter(v):
    v = strip(v)
    return isinstance(v, tuple) and v[0] == 'call' and v[1] in ('iter', 'into_iter')


def _is_chunks(v):
    v = strip(v)
    return isinstance(v, tuple) and v[0] == 'call' and v[1] == 'chunks'


def _chunks_src(v):
    return strip(strip(v)[3][0])


def _fixed_len(src, impl, env):
    """length of an uncounted element source when it is fixed by the type"""
    s = sym.vstr(src)
    if impl is None:
        return None
    st = impl.get('self_ty') or {}
    if st.get('k') == 'array' and s in ('self', 'index(self, RangeFull::RangeFull{})'):
        n = st['n']
        return env[n][1] if n in env and env[n][0] == 'const' else n
    if st.get('k') == 'adt' and st['path'].endswith('GenericArray') and s in ('self', 'deref(self)'):
        a = st['args'][1]
        nm = a.get('name') or a.get('s')
        return T.show(env[nm]) if nm in env else nm
    return None


def _only_panic_or_err(t):
    evs = [e for e in sym.walk(t) if e[0] not in ('cat', 'eps')]
    return bool(evs) and all(e[0] in ('PANIC', 'ERR') for e in evs)


def _pure_access(v):
    """access path from self: projections, pattern bindings, iteration elements, pure observers"""
    v = strip(v)
    if not isinstance(v, tuple):
        return False
    k = v[0]
    if k in ('self', 'elem'):
        return True
    if k == 'field':
        return _pure_access(v[1])
    if k == 'call' and v[1] in ('get', 'as_secs', 'subsec_nanos', 'start', 'end', 'as_bytes', 'as_bitslice', 'deref', 'as_ref',
                                'borrow', 'encode_as', 'iter', 'as_slices', 'as_slice', 'as_str'):
        return all(_pure_access(a) for a in v[3])
    if k == 'adt' and v[1].endswith(('CompactRef', 'Compact')) and len(v[3]) == 1:
        return _pure_access(v[3][0][1])
    if k == 'conv':
        return _pure_access(v[1])
    if k == 'tuple':
        return all(_pure_access(a) for a in v[1])
    if k == 'index':
        return _pure_access(v[1])
    return False


# ------------------------------------------------------------------------------------------------
# lengths


INF = float('inf')


def maxlen(w, mel):
    """symbolic maximum length: returns (const, {var: coeff}) or INF; `mel(var)` names the symbol"""
    k = w[0]
    if k == 'eps':
        return (0, {})
    if k in ('byte', 'bytex'):
        return (1, {})
    if k == 'prim':
        return (PRIM_SIZE.get(w[1], INF), {}) if w[1] in PRIM_SIZE else INF
    if k == 'compact':
        return ({'u8': 2, 'u16': 4, 'u32': 5, 'u64': 9, 'u128': 17}[w[1]], {})
    if k == 'cat':
        acc = (0, {})
        for x in w[1]:
            r = maxlen(x, mel)
            if r == INF:
                return INF
            acc = _padd(acc, r)
        return acc
    if k == 'alt':
        # max of polynomials is not a polynomial: return a 'max' node
        rs = [maxlen(x, mel) for _, x in w[1]]
        if any(r == INF for r in rs):
            return INF
        return ('max', rs)
    if k == 'var':
        return (0, {w[1]: 1})
    if k == 'cvar':
        return (0, {'compact ' + w[1]: 1})
    if k == 'rep':
        r = maxlen(w[1], mel)
        if r == INF:
            return INF
        return ('mul', r, w[2])
    return INF


def _padd(a, b):
    if isinstance(a, tuple) and len(a) == 2 and isinstance(a[1], dict) and isinstance(b, tuple) and len(b) == 2 and isinstance(b[1], dict):
        d = dict(a[1])
        for k, v in b[1].items():
            d[k] = d.get(k, 0) + v
        return (a[0] + b[0], d)
    return ('add', a, b)
