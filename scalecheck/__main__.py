"""Entry point: python3 -m scalecheck <ID|all|list> [--tier quick|thorough] [--replay file]"""
import importlib
import json
import os
import sys
import time
import traceback

from . import facts as factsmod
from .report import Out, write_evidence, load_known, VERIF, evidence_dir

PROPS = ['C%02d' % i for i in range(1, 21)]


class RunCtx:
    def __init__(self, tier, seed):
        self.tier = tier
        self.seed = seed
        self._paths = {}
        self._facts = {}
        self._fixtures = {}

    def need(self, cfgs):
        missing = [c for c in cfgs if c not in self._paths]
        if missing:
            self._paths.update(factsmod.build_configs(missing))

    def facts(self, cfg, crate='parity_scale_codec'):
        self.need([cfg])
        k = (cfg, crate)
        if k not in self._facts:
            try:
                self._facts[k] = factsmod.Facts(self._paths[cfg][crate])
            except factsmod.BuildError as e:
                if 'stale facts' not in str(e) and 'older driver' not in str(e):
                    raise
                # the memo entry does not describe the files on disk: drop it and extract again, once
                import shutil
                shutil.rmtree(os.path.dirname(self._paths[cfg][crate]), ignore_errors=True)
                self._paths.pop(cfg, None)
                self.need([cfg])
                self._facts[k] = factsmod.Facts(self._paths[cfg][crate])
        return self._facts[k]

    def fixture(self, name, src_dir=None, need_artefacts=False):
        """facts of a fixture crate; need_artefacts: the compiled library / derive artefacts in the fixture target
        directory must be those of the current tree (witness programs compile against them)"""
        if name not in self._fixtures or (need_artefacts and not factsmod.fixture_artefacts_current(name, src_dir or os.path.join(VERIF, 'fixtures', name))):
            sd = src_dir or os.path.join(VERIF, 'fixtures', name)
            p = factsmod.build_fixture(name, sd, need_artefacts=need_artefacts)
            try:
                self._fixtures[name] = factsmod.Facts(p)
            except factsmod.BuildError as e:
                if 'stale facts' not in str(e) and 'older driver' not in str(e):
                    raise
                import shutil
                shutil.rmtree(os.path.dirname(p), ignore_errors=True)
                p = factsmod.build_fixture(name, sd, need_artefacts=need_artefacts)
                self._fixtures[name] = factsmod.Facts(p)
        return self._fixtures[name]


def run_property(pid, tier, seed):
    t0 = time.time()
    out = Out(pid)
    mod = importlib.import_module('scalecheck.rules.' + pid.lower())
    cx = RunCtx(tier, seed)
    try:
        mod.run(cx, out)
    except factsmod.BuildError as e:
        sys.stdout.write('BUILD-ERROR property=%s: the tree under analysis does not compile (nothing decided)\n%s\n' % (pid, e))
        return 2
    known = load_known()
    known_ids = {k['id']: k for k in known.get('findings', []) if k['property'] == pid}
    new = []
    reported_known = []
    for f in out.findings:
        if f.ident() in known_ids:
            reported_known.append(f)
        else:
            new.append(f)
    seen = set()
    for f in reported_known:
        if f.ident() in seen:
            continue
        seen.add(f.ident())
        print('KNOWN-FINDING: property=%s %s [%s] %s' % (pid, known_ids[f.ident()]['what'], f.ident(), f.loc))
    level = getattr(mod, 'LEVEL', 'other')
    out.explanation = getattr(mod, 'EXPLANATION', '')
    rc = 0
    if new:
        rdir = os.path.join(evidence_dir(), 'replay')
        os.makedirs(rdir, exist_ok=True)
        rp = os.path.join(rdir, '%s-%d.json' % (pid, int(t0)))
        with open(rp, 'w') as fh:
            json.dump({'property': pid, 'tier': tier, 'repo': factsmod.repo_root(),
                       'findings': [f.as_json() for f in new]}, fh, indent=1)
        for f in new:
            print(f.line())
        print('VIOLATION property=%s replay=%s' % (pid, rp))
        rc = 1
    wall = time.time() - t0
    write_evidence(pid, tier, seed, level, out, wall,
                   extra_cov=getattr(mod, 'extra_coverage', lambda o: None)(out),
                   assumptions=getattr(mod, 'ASSUMPTIONS', []), violations=len(new), known=len(seen))
    print('%s %s tier=%s obligations=%d discharged=%d new_violations=%d known=%d wall=%.1fs' % (
        pid, 'FAIL' if rc else 'ok', tier, out.obligations, out.discharged, len(new), len(seen), wall))
    return rc


def main(argv):
    tier = os.environ.get('VERIF_TIER', 'quick')
    seed = int(os.environ.get('VERIF_SEED', '0') or 0)
    args = []
    i = 0
    replay = None
    while i < len(argv):
        a = argv[i]
        if a == '--tier':
            tier = argv[i + 1]
            i += 2
            continue
        if a == '--replay':
            replay = argv[i + 1]
            i += 2
            continue
        args.append(a)
        i += 1
    if not args:
        print(__doc__)
        return 2
    if tier not in ('quick', 'thorough'):
        tier = 'quick'
    what = args[0]
    if replay:
        # a replay re-runs the property's check (the findings are functions of the tree) and shows
        # whether the recorded instances still fire
        with open(replay) as fh:
            rec = json.load(fh)
        print('replaying %s: %d recorded finding(s)' % (rec['property'], len(rec['findings'])))
        for f in rec['findings']:
            print('  recorded: %s  %s  %s' % (f['loc'], f['rule'], f['key']))
        return run_property(rec['property'], rec.get('tier', tier), seed)
    if what == 'list':
        print(' '.join(PROPS))
        return 0
    if what == 'selftest':
        from . import selftest
        return selftest.main(args[1:], tier)
    ids = PROPS if what == 'all' else [what.upper()]
    rc = 0
    for pid in ids:
        try:
            r = run_property(pid, tier, seed)
        except Exception:
            traceback.print_exc()
            print('INTERNAL-ERROR property=%s' % pid)
            r = 3
        rc = max(rc, r)
    return rc


if __name__ == '__main__':
    sys.exit(main(sys.argv[1:]))
