"""Building and loading fact files (DESIGN 2.1).

Facts are always produced from the current content of the tree under VERIF_REPO (default
/repo).  A content-addressed memo avoids recompiling when *nothing* in the tree changed between
two invocations: the key is a hash over every source file of the tree plus the driver binary, so
any edit of /repo invalidates it.
"""
import hashlib
import json
import re
import os
import shutil
import subprocess
import sys
import threading
import time

VERIF = os.path.dirname(os.path.dirname(os.path.abspath(__file__)))
WORK = os.path.join(VERIF, '.work')
DRIVER_DIR = os.path.join(VERIF, 'driver')
DRIVER = os.path.join(DRIVER_DIR, 'target', 'debug', 'scalefacts')


def repo_root():
    return os.path.abspath(os.environ.get('VERIF_REPO', '/repo'))


# feature configurations of the library crate (DESIGN 2.1, U1)
OPT = 'derive bit-vec bytes generic-array max-encoded-len'
CONFIGS = {
    'A': [],
    'B': ['--no-default-features'],
    'C': ['--no-default-features', '--features', 'chain-error'],
    'D': ['--features', OPT + ' serde'],
    'E': ['--no-default-features', '--features', OPT],
    # the fuzzer crate (U3): its own feature selection of the library (derive, bit-vec, fuzz)
    'F': ['-p', 'codec-fuzzer'],
    # the derive macros alone (what a crate that asks only for `derive` gets)
    'G': ['--features', 'derive'],
}
CRATES_OF = {
    'A': ['parity_scale_codec'], 'B': ['parity_scale_codec'], 'C': ['parity_scale_codec'],
    'D': ['parity_scale_codec', 'parity_scale_codec_derive'],
    'E': ['parity_scale_codec'],
    'F': ['codec_fuzzer'],
    'G': ['parity_scale_codec', 'parity_scale_codec_derive'],
}


def sysroot():
    return subprocess.check_output(['rustc', '+nightly', '--print', 'sysroot'], text=True).strip()


_SYSROOT = None


def base_env():
    global _SYSROOT
    if _SYSROOT is None:
        _SYSROOT = sysroot()
    env = dict(os.environ)
    env['CARGO_NET_OFFLINE'] = 'true'
    env['LD_LIBRARY_PATH'] = _SYSROOT + '/lib' + (':' + env['LD_LIBRARY_PATH'] if env.get('LD_LIBRARY_PATH') else '')
    env.pop('RUSTC_WRAPPER', None)
    return env


def ensure_driver():
    """Build the driver if its sources are newer than the binary (or it is missing)."""
    srcs = [os.path.join(DRIVER_DIR, 'Cargo.toml')] + [
        os.path.join(DRIVER_DIR, 'src', f) for f in os.listdir(os.path.join(DRIVER_DIR, 'src'))]
    newest = max(os.path.getmtime(s) for s in srcs)
    if os.path.exists(DRIVER) and os.path.getmtime(DRIVER) >= newest:
        return
    r = subprocess.run(['cargo', '+nightly', 'build', '--offline'], cwd=DRIVER_DIR, env=base_env(),
                       stdout=subprocess.PIPE, stderr=subprocess.STDOUT, text=True)
    if r.returncode != 0 or not os.path.exists(DRIVER):
        sys.stderr.write(r.stdout)
        raise SystemExit(3)


SKIP_DIRS = {'target', '.git', 'node_modules'}


def tree_hash(root, extra=()):
    h = hashlib.sha256()
    for dp, dns, fns in os.walk(root):
        dns[:] = sorted(d for d in dns if d not in SKIP_DIRS)
        for fn in sorted(fns):
            p = os.path.join(dp, fn)
            try:
                with open(p, 'rb') as f:
                    data = f.read()
            except OSError:
                continue
            h.update(os.path.relpath(p, root).encode())
            h.update(b'\0')
            h.update(hashlib.sha256(data).digest())
    with open(DRIVER, 'rb') as f:
        h.update(hashlib.sha256(f.read()).digest())
    for e in extra:
        h.update(str(e).encode())
    return h.hexdigest()[:24]


class BuildError(Exception):
    pass


class locked:
    """Cross-process lock (flock) so that concurrently running checks never share a staging directory, a cargo
    target directory or a half-written fact memo entry."""

    def __init__(self, name):
        d = os.path.join(WORK, 'locks')
        os.makedirs(d, exist_ok=True)
        self.path = os.path.join(d, name + '.lock')

    def __enter__(self):
        import fcntl
        self.fh = open(self.path, 'w')
        fcntl.flock(self.fh, fcntl.LOCK_EX)
        return self

    def __exit__(self, *a):
        import fcntl
        fcntl.flock(self.fh, fcntl.LOCK_UN)
        self.fh.close()


def _clear_fingerprints(target_dir, names):
    fp = os.path.join(target_dir, 'debug', '.fingerprint')
    if not os.path.isdir(fp):
        return
    for d in os.listdir(fp):
        if any(d.startswith(n + '-') for n in names):
            shutil.rmtree(os.path.join(fp, d), ignore_errors=True)


def run_driver(cwd, cargo_args, cfg_label, out_dir, target_dir, members, crates=None, timeout=900):
    """One cargo check under the driver.  `members`: package names whose fingerprints must be
    dropped so that cargo really re-invokes the wrapper."""
    os.makedirs(out_dir, exist_ok=True)
    _clear_fingerprints(target_dir, members)
    env = base_env()
    env['RUSTFLAGS'] = '-Zmir-opt-level=0 -Awarnings'
    env['RUSTC_WORKSPACE_WRAPPER'] = DRIVER
    env['CARGO_TARGET_DIR'] = target_dir
    env['SCALEFACTS_OUT'] = out_dir
    env['SCALEFACTS_CFG'] = cfg_label
    if crates:
        env['SCALEFACTS_CRATES'] = ','.join(crates)
    cmd = ['cargo', '+nightly', 'check', '--offline'] + cargo_args
    r = subprocess.run(cmd, cwd=cwd, env=env, stdout=subprocess.PIPE, stderr=subprocess.STDOUT, text=True,
                       timeout=timeout)
    if r.returncode != 0:
        # once more from a cold target directory: a failure that comes from the build cache (an artefact of another tree state
        # taken for fresh, an interrupted earlier build) must not be reported as "the tree does not compile"
        first = r.stdout
        shutil.rmtree(target_dir, ignore_errors=True)
        r = subprocess.run(cmd, cwd=cwd, env=env, stdout=subprocess.PIPE, stderr=subprocess.STDOUT, text=True,
                           timeout=timeout)
        if r.returncode != 0:
            raise BuildError('cargo check failed for configuration %s in %s (twice, the second time from a cold target directory):\n%s'
                             % (cfg_label, cwd, r.stdout[-6000:]))
        sys.stderr.write('note: the first build of configuration %s failed and a cold rebuild succeeded; first output:\n%s\n' % (cfg_label, first[-1500:]))
    return r.stdout


def build_configs(cfgs):
    """Returns {cfg: {crate_name: path-of-fact-file}} for the requested library configurations."""
    ensure_driver()
    root = repo_root()
    th = tree_hash(root)
    rid = hashlib.sha256(root.encode()).hexdigest()[:8]
    _note_root(rid, root)
    _touch_memo(th)
    res = {}
    errors = []
    lock = threading.Lock()

    def one(cfg):
        out_dir = os.path.join(WORK, 'facts', th, cfg)
        want = CRATES_OF[cfg]
        paths = {c: os.path.join(out_dir, c + '.json') for c in want}
        marker = os.path.join(out_dir, '.complete')
        with locked('cfg-%s-%s' % (rid, cfg)):
            return one_locked(cfg, out_dir, want, paths, marker)

    def one_locked(cfg, out_dir, want, paths, marker):
        if not (os.path.exists(marker) and all(os.path.exists(p) for p in paths.values())):
            start = time.time()
            target = os.path.join(WORK, 'target-%s-%s' % (rid, cfg))
            try:
                run_driver(root, CONFIGS[cfg], cfg, out_dir, target,
                           ['parity-scale-codec', 'parity-scale-codec-derive', 'codec-fuzzer'], crates=want)
            except BuildError as e:
                with lock:
                    errors.append(str(e))
                return
            stale = [p for c, p in paths.items() if not os.path.exists(p) or os.path.getmtime(p) < start - 1]
            if stale:
                # cargo took a crate for fresh and did not call the driver: once more from a cold target directory
                shutil.rmtree(target, ignore_errors=True)
                start = time.time()
                try:
                    run_driver(root, CONFIGS[cfg], cfg, out_dir, target,
                               ['parity-scale-codec', 'parity-scale-codec-derive', 'codec-fuzzer'], crates=want)
                except BuildError as e:
                    with lock:
                        errors.append(str(e))
                    return
            for c, p in paths.items():
                if not os.path.exists(p) or os.path.getmtime(p) < start - 1:
                    with lock:
                        errors.append('fact file %s was not (re)written by the driver for configuration %s' % (p, cfg))
                    return
            open(marker, 'w').write(str(time.time()))
        with lock:
            res[cfg] = paths

    ths = [threading.Thread(target=one, args=(c,)) for c in cfgs]
    for t in ths:
        t.start()
    for t in ths:
        t.join()
    if errors:
        raise BuildError('\n'.join(errors))
    _gc_facts(keep=th)
    return res


def _gc_facts(keep):
    """Keep the fact memo small: drop memo entries of other tree states that were not used for an hour, beyond the 6
    most recently used (an entry in use by a concurrently running check is touched when that check starts)."""
    d = os.path.join(WORK, 'facts')
    if not os.path.isdir(d):
        return
    now = time.time()
    ents = []
    for e in os.listdir(d):
        if e == keep:
            continue
        try:
            ents.append((os.path.getmtime(os.path.join(d, e)), e))
        except OSError:
            pass
    ents.sort(reverse=True)
    for i, (mt, e) in enumerate(ents):
        if i >= 6 and now - mt > 3600:
            shutil.rmtree(os.path.join(d, e), ignore_errors=True)
    _gc_targets()


def _note_root(rid, root):
    d = os.path.join(WORK, 'roots')
    os.makedirs(d, exist_ok=True)
    p = os.path.join(d, rid)
    if not os.path.exists(p):
        with open(p, 'w') as f:
            f.write(root)


def _touch_memo(th):
    d = os.path.join(WORK, 'facts', th)
    os.makedirs(d, exist_ok=True)
    os.utime(d, None)


def purge_repo_cache(root):
    """remove the cargo target directories and staged fixtures kept for a scratch tree"""
    root = os.path.abspath(root)
    rid = hashlib.sha256(root.encode()).hexdigest()[:8]
    for e in os.listdir(WORK):
        if e.startswith('target-%s-' % rid) or e == 'fixtures-%s' % rid:
            shutil.rmtree(os.path.join(WORK, e), ignore_errors=True)
    try:
        os.unlink(os.path.join(WORK, 'roots', rid))
    except OSError:
        pass


def _gc_targets():
    """target directories are keyed by the path of the tree they were built from: drop those of scratch trees that no
    longer exist"""
    d = os.path.join(WORK, 'roots')
    if not os.path.isdir(d):
        return
    for rid in os.listdir(d):
        try:
            root = open(os.path.join(d, rid)).read().strip()
            age = time.time() - os.path.getmtime(os.path.join(d, rid))
        except OSError:
            continue
        if root and not os.path.exists(root) and age > 1800:
            purge_repo_cache(root)


def build_fixture(name, src_dir, features=None, need_artefacts=False):
    """Compile a fixture crate (under /verif/fixtures/<name>) that path-depends on the repo and
    return the path of its fact file.  The crate is materialised under .work with the dependency
    path substituted, so VERIF_REPO is honoured."""
    ensure_driver()
    root = repo_root()
    th = tree_hash(root, extra=[tree_hash_dir(src_dir)])
    rid = hashlib.sha256(root.encode()).hexdigest()[:8]
    _note_root(rid, root)
    _touch_memo(th)
    crate = 'vf_' + name
    out_dir = os.path.join(WORK, 'facts', th, 'fx-' + name)
    path = os.path.join(out_dir, crate + '.json')
    marker = os.path.join(out_dir, '.complete')
    with locked('fx-%s' % rid):
        return _build_fixture_locked(name, src_dir, root, rid, crate, out_dir, path, marker, need_artefacts)


def _artefact_stamp(rid, name):
    return os.path.join(WORK, 'target-%s-fx' % rid, '.built-for-' + name)


def fixture_artefacts_current(name, src_dir):
    """do the compiled artefacts in the fixture target directory of this tree path belong to the current tree content?
    (the fact memo is keyed by content, the cargo target directory by path: a memo hit says nothing about the latter)"""
    root = repo_root()
    th = tree_hash(root, extra=[tree_hash_dir(src_dir)])
    rid = hashlib.sha256(root.encode()).hexdigest()[:8]
    try:
        return open(_artefact_stamp(rid, name)).read().strip() == th
    except OSError:
        return False


def _build_fixture_locked(name, src_dir, root, rid, crate, out_dir, path, marker, need_artefacts=False):
    th_now = os.path.basename(os.path.dirname(out_dir))
    stamp_ok = False
    try:
        stamp_ok = open(_artefact_stamp(rid, name)).read().strip() == th_now
    except OSError:
        pass
    if os.path.exists(marker) and os.path.exists(path) and (stamp_ok or not need_artefacts):
        return path
    stage = os.path.join(WORK, 'fixtures-%s' % rid, name)
    if os.path.isdir(stage):
        shutil.rmtree(stage)
    shutil.copytree(src_dir, stage)
    ct = os.path.join(stage, 'Cargo.toml')
    s = open(ct).read().replace('@REPO@', root)
    open(ct, 'w').write(s)
    lock = os.path.join(root, 'Cargo.lock')
    if os.path.exists(lock):
        shutil.copy(lock, os.path.join(stage, 'Cargo.lock'))
    start = time.time()
    target = os.path.join(WORK, 'target-%s-fx' % rid)
    # the library and the derive crate are path dependencies of the fixture: force their re-check too, so that a stale
    # artefact can never stand in for the tree under analysis (cargo's own freshness test is mtime based)
    run_driver(stage, [], 'fx-' + name, out_dir, target, ['vf-' + name, 'vf_' + name, 'parity-scale-codec', 'parity-scale-codec-derive'], crates=[crate])
    if not os.path.exists(path) or os.path.getmtime(path) < start - 1:
        raise BuildError('fixture %s: fact file not written' % name)
    open(marker, 'w').write(str(time.time()))
    # the other fixtures share the target directory: their artefact stamps are no longer trustworthy for the library
    for e in os.listdir(os.path.dirname(_artefact_stamp(rid, name))):
        if e.startswith('.built-for-'):
            try:
                os.unlink(os.path.join(os.path.dirname(_artefact_stamp(rid, name)), e))
            except OSError:
                pass
    open(_artefact_stamp(rid, name), 'w').write(th_now)
    return path


def tree_hash_dir(d):
    h = hashlib.sha256()
    for dp, dns, fns in os.walk(d):
        dns.sort()
        for fn in sorted(fns):
            p = os.path.join(dp, fn)
            h.update(os.path.relpath(p, d).encode())
            with open(p, 'rb') as f:
                h.update(hashlib.sha256(f.read()).digest())
    return h.hexdigest()[:16]


# ------------------------------------------------------------------------------------------
# loaded facts + indexes


def verify_sources(doc, fact_path):
    """the facts must describe the files that are on disk now: every source file the compiler read (recorded by the
    driver with rustc's own hash of it) is re-hashed here; a mismatch means the fact memo is stale for this tree"""
    srcs = doc.get('sources')
    if srcs is None:
        raise BuildError('fact file %s was written by an older driver (no source hashes): rebuild' % fact_path)
    cwd = doc.get('cwd') or ''
    algo = {'Md5': hashlib.md5, 'Sha1': hashlib.sha1, 'Sha256': hashlib.sha256}
    root = repo_root()
    for s in srcs:
        p = s['path'] if os.path.isabs(s['path']) else os.path.join(cwd, s['path'])
        # facts of a scratch tree that has since been removed and rebuilt elsewhere are keyed by content: map the
        # recorded location onto the tree under analysis
        if cwd and not p.startswith(root) and os.path.abspath(cwd) != os.path.abspath(root) and '/.work/' not in p:
            p = os.path.join(root, os.path.relpath(p, cwd))
        h = algo.get(s.get('kind'))
        if h is None:
            continue
        try:
            with open(p, 'rb') as f:
                data = f.read()
        except OSError:
            if '/.work/' in p:
                continue        # staged fixture sources are regenerated per run; their content is part of the memo key
            raise BuildError('stale facts: %s was compiled from %s, which no longer exists' % (fact_path, p))
        if h(data).hexdigest() != s['hash']:
            raise BuildError('stale facts: %s does not describe the current content of %s (memo entry out of date)' % (fact_path, p))


_LIB_NESTED_MODS = []


def _flatten_nested_mods(txt, is_lib):
    """Items are named by their top-level module: `codec::std_io::IoReader` is `codec::IoReader`.  Moving an item into a
    nested (inline, private) module and re-exporting it changes its def-path, not what it is; every rule that names a
    crate item would otherwise depend on the module layout.  The module tree comes from the compiler (fact field `mods`);
    a name that would collide after flattening is left alone."""
    import re
    global _LIB_NESTED_MODS
    if is_lib:
        m = re.search(r'"mods":\s*\[([^\]]*)\]', txt)
        mods = json.loads('[' + m.group(1) + ']') if m else []
        nested = sorted((x for x in mods if x.count('::') >= 1), key=lambda x: -x.count('::'))
        if nested:
            _LIB_NESTED_MODS = nested
    for mod in _LIB_NESTED_MODS:
        top = mod.split('::')[0]
        txt = re.sub(r'(?<![A-Za-z0-9_])%s::' % re.escape(mod), top + '::', txt)
    return txt


_LIB_ROLE_RENAMES = []


def _role_names(txt, is_lib):
    """Crate-private adapter types are named by the role they play, whatever the source calls them: the private input that
    overrides the zero-copy `Bytes` hook is `BytesCursor`, the private input wrappers that keep a depth / a memory budget
    are `DepthTrackingInput` / `MemTrackingInput`.  (Renaming a type that is not reachable from outside the crate changes
    nothing a user can observe; the rules that audit these types would otherwise depend on their spelling.)  A type that is
    reachable from outside keeps its name, and so does every type if the roles are not unambiguous."""
    global _LIB_ROLE_RENAMES
    if is_lib:
        ren = []
        try:
            d = json.loads(txt)
            adts = {a['path']: a for a in d.get('adts', [])}
            cand = {}
            for i in d.get('impls', []):
                if not (i.get('trait') or '').endswith('Input'):
                    continue
                head = re.sub(r'<.*$', '', i.get('self') or '')
                a = adts.get(head)
                if not a or a.get('exported', True) or a.get('kind') != 'struct' or not a.get('variants'):
                    continue
                names = {it['name'] for it in i.get('items', [])}
                ftys = sorted(str(f.get('ty')) for f in a['variants'][0]['fields'])
                refs = [t for t in ftys if t.startswith('&')]
                role = None
                if 'scale_internal_decode_bytes' in names and not refs:
                    role = 'BytesCursor'
                elif {'descend_ref', 'ascend_ref'} <= names and refs and ftys.count('u32') == 2:
                    role = 'DepthTrackingInput'
                elif 'on_before_alloc_mem' in names and refs and ftys.count('usize') == 2:
                    role = 'MemTrackingInput'
                if role:
                    cand.setdefault(role, []).append(head)
            for role, heads in cand.items():
                if len(heads) == 1 and heads[0].split('::')[-1] != role and not any(p.split('::')[-1] == role for p in adts):
                    ren.append((heads[0].split('::')[-1], role))
        except (ValueError, KeyError, TypeError):
            ren = []
        _LIB_ROLE_RENAMES = ren
    for old, new_ in _LIB_ROLE_RENAMES:
        txt = re.sub(r'(?<![A-Za-z0-9_])%s(?![A-Za-z0-9_])' % re.escape(old), new_, txt)
    return txt


class Facts:
    def __init__(self, path):
        with open(path) as f:
            txt = f.read()
        if not os.path.basename(path).startswith('parity_scale_codec'):
            # items of the library print with the crate name when seen from another crate
            txt = txt.replace('parity_scale_codec::', '')
        txt = _flatten_nested_mods(txt, os.path.basename(path).startswith('parity_scale_codec.'))
        txt = _role_names(txt, os.path.basename(path).startswith('parity_scale_codec.'))
        d = json.loads(txt)
        self.path = path
        verify_sources(d, path)
        self.crate = d['crate']
        self.cfg = d['cfg']
        self.impls = d['impls']
        self.adts = d['adts']
        self.consts = {c['path']: c for c in d['consts']}
        self.traits = {t['path']: t for t in d['traits']}
        self.fns = d['fns']
        self.root_exports = d.get('root_exports')
        self.by_path = {}
        for f in self.fns:
            self.by_path.setdefault(f['path'], f)
        self.adt_by_path = {a['path']: a for a in self.adts}
        # closures by direct parent
        self.children = {}
        for f in self.fns:
            if f.get('parent'):
                self.children.setdefault(f['parent'], []).append(f)
        self._impl_methods = None

    def merge(self, other):
        """view of this crate's facts together with those of a dependency (impl lookup, helper
        inlining and type-level shapes then see both)"""
        self.impls = self.impls + other.impls
        self.own_fns = list(self.fns)
        self.fns = self.fns + other.fns
        for k, v in other.by_path.items():
            self.by_path.setdefault(k, v)
        for k, v in other.adt_by_path.items():
            self.adt_by_path.setdefault(k, v)
        for k, v in other.consts.items():
            self.consts.setdefault(k, v)
        for k, v in other.traits.items():
            self.traits.setdefault(k, v)
        for k, v in other.children.items():
            self.children.setdefault(k, v)
        self.merged_with = other.crate
        return self

    def impls_of(self, trait_suffix):
        return [i for i in self.impls if i['trait'] and tname(i['trait']) == trait_suffix]

    def methods(self, trait_suffix, method=None):
        """all fn records that are methods of impls of the trait (closures excluded)"""
        out = []
        for f in self.fns:
            if f['kind'] != 'AssocFn' or f['ctx'] != 'trait_impl':
                continue
            if tname(f['trait']) != trait_suffix:
                continue
            if method and f['method'] != method:
                continue
            out.append(f)
        return out

    def trait_default(self, trait_suffix, method):
        for f in self.fns:
            if f['kind'] == 'AssocFn' and f['ctx'] == 'trait_default' and tname(f['trait']) == trait_suffix and f['method'] == method:
                return f
        return None

    def impl_method(self, trait_suffix, self_ty, method):
        for f in self.methods(trait_suffix, method):
            if f['self'] == self_ty:
                return f
        return None

    # ---- canonical field names of the crate's input adapters (private fields may be renamed freely)
    WRAPPER_FIELDS = {
        'CountedInput': [('ref', 'input'), ('ty:u64', 'counter')],
        'DepthTrackingInput': [('ref', 'input'), ('written:u32', 'depth'), ('unwritten:u32', 'max_depth')],
        'MemTrackingInput': [('ref', 'input'), ('written:usize', 'used_mem'), ('unwritten:usize', 'mem_limit')],
        'BytesCursor': [('ty:bytes::bytes::Bytes', 'bytes'), ('ty:usize', 'position')],
        'PrefixInput': [('ty:core::option::Option<u8>', 'prefix'), ('ref', 'input')],
    }

    def canon_field(self, lty, fname):
        """the role name of a field of one of the input adapters, decided by the field's type (and, for two fields of one
        type, by which of them the methods assign to); any other field keeps its name"""
        if not fname or not lty:
            return fname
        m = re.search(r'([A-Za-z_][A-Za-z0-9_]*)(?:<[^<>]*(?:<[^<>]*>[^<>]*)*>)?\s*$', str(lty).replace('&mut ', '').replace('&', '').strip())
        short = m.group(1) if m else None
        if short not in self.WRAPPER_FIELDS:
            return fname
        cache = self.__dict__.setdefault('_canon_fields', {})
        if short not in cache:
            cache[short] = self._canon_map(short)
        return cache[short].get(fname, fname)

    def _canon_map(self, short):
        adt = [a for a in self.adts if a['path'].split('::')[-1] == short and a.get('variants')]
        if not adt:
            return {}
        fields = adt[0]['variants'][0]['fields']
        written = set()

        def scan(n):
            if isinstance(n, dict):
                if n.get('k') in ('assign', 'assignop'):
                    l = n.get('l')
                    while isinstance(l, dict) and l.get('k') in ('deref', 'ref'):
                        l = l.get('e')
                    if isinstance(l, dict) and l.get('k') == 'field' and short in str(l.get('lty') or ''):
                        written.add(l.get('fname'))
                for x in n.values():
                    scan(x)
            elif isinstance(n, list):
                for x in n:
                    scan(x)
        for f in self.fns:
            if f.get('thir') and short in (f.get('self') or ''):
                scan(f['thir'])
        out = {}
        used = set()
        for kind, role in self.WRAPPER_FIELDS[short]:
            for fl in fields:
                if fl['name'] in used:
                    continue
                ty = fl['ty']
                ok = False
                if kind == 'ref':
                    ok = ty.startswith('&') and 'mut' in ty
                elif kind.startswith('ty:'):
                    ok = ty == kind[3:]
                elif kind.startswith('written:'):
                    ok = ty == kind[8:] and fl['name'] in written
                elif kind.startswith('unwritten:'):
                    ok = ty == kind[10:] and fl['name'] not in written
                if ok:
                    out[fl['name']] = role
                    used.add(fl['name'])
                    break
        return out

    def closures_of(self, fn):
        return [c for c in self.children.get(fn['path'], [])]


def tname(path):
    """last segment of a trait/def path: 'codec::Encode' -> 'Encode'"""
    return path.rsplit('::', 1)[-1] if path else path


def fkey(f):
    """stable key of a function record (DESIGN 2.2): never positional"""
    if f.get('ctx') in ('trait_impl',):
        base = '<%s as %s>::%s' % (f['self'], tname(f['trait']), f['method'])
    elif f.get('ctx') == 'trait_default':
        base = '%s::%s (default)' % (tname(f['trait']), f['method'])
    elif f.get('ctx') == 'inherent_impl':
        base = '<%s>::%s' % (f['self'], f['method'])
    else:
        base = f['path'] if f['kind'] not in ('Closure', 'InlineConst') else (f.get('parent') or f['path'])
    if f['kind'] in ('Closure', 'InlineConst'):
        tail = f['path'].rsplit('::', 1)[-1]
        # closure paths end with {closure#N}; keep the chain of closure ordinals
        chain = [seg for seg in f['path'].split('::') if seg.startswith('{')]
        return base + '::' + '::'.join(chain) if chain else base + '::' + tail
    return base
