"""Decoder side of the wire calculus: the shape a Decode impl reads, in the same language as
shape.py, children expressed through the *encoder's* type-level shape W(T) so that the mirror
rule (C02 R02.1) is compositional: impl by impl, the decoder must read exactly what the encoder
of the same type writes."""
from . import sym, types as T, wire, shape
from .sym import strip, items
from .facts import tname

KERNELS = {'decode_vec_with_len'}


def abstract(t, names):
    k = t[0]
    if k == 'HELPER':
        if t[1] in names:
            return ['KERNEL', t[1], t[2]]
        return ['HELPER', t[1], abstract(t[2], names)]
    if k == 'cat':
        return ['cat', [abstract(x, names) for x in t[1]]]
    if k == 'alt':
        return ['alt', t[1], [(d, abstract(x, names)) for d, x in t[2]]]
    if k == 'star':
        return ['star', t[1], abstract(t[2], names)]
    if k == 'ONOK':
        return ['ONOK', abstract(t[1], names)]
    return t


class DecShapes:
    def __init__(self, facts, shapes):
        self.facts = facts
        self.S = shapes
        self.ev = shapes.ev
        self.terms = {}

    def method(self, impl, name):
        for f in self.facts.fns:
            if f['kind'] == 'AssocFn' and f['ctx'] == 'trait_impl' and f.get('impl') == impl['path'] and f['self'] == impl['self'] and f['method'] == name:
                return f
        return None

    def term(self, fn):
        k = fn['path']
        if k not in self.terms:
            t, v, _ = wire.infer_decoder_fn(self.facts, fn, self.ev)
            self.terms[k] = (t, v)
        return self.terms[k]

    def wt(self, ty_s):
        return self.S.wire_type(T.parse(ty_s))

    def dec_shape(self, impl, method='decode'):
        fn = self.method(impl, method)
        if fn is None:
            return ('opaque', 'no %s method' % method), None, None
        t, v = self.term(fn)
        st = impl.get('self_ty') or {}
        w = self.term_shape(abstract(t, KERNELS), impl, fn, v)
        # primitives: read of size_of bytes + from_le_bytes / single byte
        if st.get('k') == 'prim':
            w = self.prim_shape(t, v, st['s'], w)
        return w, t, v

    def prim_shape(self, t, v, name, w):
        its = [e for e in items(t) if e[0] not in ('?', 'CFG')]
        sv = strip(v)
        if len(its) == 1 and its[0][0] == 'read':
            buf = sym.deinit(strip(its[0][1]))
            n = None
            if isinstance(buf, tuple) and buf[0] == 'buf':
                # [0u8; size_of::<P>()] : the length is printed by rustc as an evaluated constant
                try:
                    n = int(str(buf[1]).split('_')[0])
                except ValueError:
                    n = None
            inner = strip(sv[1]) if isinstance(sv, tuple) and sv[0] == 'res' else None
            inner = sym.deinit(inner) if inner else None
            if n == shape.PRIM_SIZE.get(name) and isinstance(inner, tuple) and inner[0] == 'call' and inner[1] == 'from_le_bytes' and \
                    sym.deinit(strip(inner[3][0])) == buf and name in inner[2]:
                return ('prim', name)
            if isinstance(inner, tuple) and inner[0] == 'call' and inner[1] in ('from_be_bytes', 'from_ne_bytes'):
                return ('opaque', 'non-little-endian conversion ' + inner[1])
            return ('opaque', 'read of %s bytes converted by %s' % (n, sym.vstr(inner)[:60]))
        if len(its) == 1 and its[0][0] == 'rb':
            inner = strip(sv[1]) if isinstance(sv, tuple) and sv[0] == 'res' else None
            if name == 'u8' and inner == ('byte', its[0][1]):
                return ('prim', 'u8')
            if name == 'i8' and isinstance(inner, tuple) and inner[0] == 'cast' and inner[1] == 'i8' and strip(inner[2]) == ('byte', its[0][1]):
                return ('prim', 'i8')
        if name == 'bool' and w[0] == 'alt':
            arms = dict(w[1])
            if set(arms) == {0, 1} and all(x == ('eps',) for x in arms.values()):
                return ('prim', 'bool')
        return w

    def term_shape(self, term, impl, fn, value=None):
        its = []
        for e in items(term):
            # an inlined helper that is not one of the known kernels is part of the sequence it was called in
            if e[0] == 'HELPER' and not any(y[0] == 'RET' for y in sym.walk(e[2])):
                its.extend(items(e[2]))
            else:
                its.append(e)
        out = []
        i = 0
        n = len(its)
        while i < n:
            e = its[i]
            k = e[0]
            if k in ('?', 'CFG', 'DESC', 'ASC', 'HOOK', 'SET', 'MUTCALL', 'UNWRAP_OR', 'CHECK', 'COLLECT', 'REMLEN', 'RET', 'PANIC', 'ERR', 'SWALLOW', 'OWN', 'ALLOC', 'SINKW'):
                i += 1
                continue
            if k == 'rb':
                # tag dispatch: rb followed (after ?) by an alt on that byte
                j = i + 1
                while j < n and its[j][0] in ('?', 'CFG'):
                    j += 1
                if j < n and its[j][0] == 'alt' and self._scrut_is_byte(its[j][1], e[1]):
                    # a `match byte` whose catch-all arm does not reject only classifies the byte (`matches!(byte, 0 | 1)`):
                    # what is accepted is decided further on — probe the whole rest for each byte value instead
                    lax = any(isinstance(d, tuple) and d[0] == 'pat' and (d[1] == '_' or d[2] is None) and not _pure_err(x) for d, x in its[j][2])
                    if lax and j + 1 < n:
                        w = self.probed_tag_alt(sym.cat(*its[j:]), e[1], impl, fn)
                        if w is not None:
                            out.append(w)
                            i = n
                            continue
                    out.append(self.tag_alt(its[j], impl, fn))
                    i = j + 1
                    continue
                if j < n and its[j][0] == 'alt' and _mentions_byte(its[j][1], e[1]):
                    # a dispatch on the byte that is not a `match byte { .. }` (an if / else-if chain, guards, ..): evaluate
                    # the conditions for each of the 256 byte values and group the values by what happens next
                    w = self.probed_tag_alt(sym.cat(*its[j:]), e[1], impl, fn)
                    if w is not None:
                        out.append(w)
                        i = n
                        continue
                out.append(('prim', 'u8'))
            elif k == 'read':
                out.append(('opaque', 'raw read of ' + sym.vstr(e[1])[:60]))
            elif k == 'dec':
                ty, uid, mode = e[1], e[2], e[3]
                if mode in ('decode', 'decode_into', 'skip', 'decode_wrapped', 'bytes', 'len'):
                    # count prefix followed by elements?
                    cnt = self.count_elems(its, i, impl, fn)
                    if cnt is not None:
                        w, used = cnt
                        out.append(w)
                        i += used
                        continue
                    if mode == 'decode_wrapped':
                        out.append(('var', '<wrapped>'))
                    elif mode == 'bytes':
                        out.append(('seq', ('prim', 'u8')))
                    else:
                        out.append(self.child(ty, impl))
                elif mode == 'prefixed':
                    out.append(('opaque', 'prefixed primitive decode (compact decoder; decided by C04)'))
                else:
                    out.append(('opaque', 'decode through ' + mode))
            elif k == 'alt':
                term_arms = [(d, x) for d, x in e[2] if _terminates(x)]
                if term_arms and not all(_pure_err(x) for d, x in term_arms) and isinstance(e[1], tuple) and e[1] and e[1][0] == 'if':
                    # early return: the rest of the sequence belongs only to the arms that fall through
                    rest = self.term_shape(sym.cat(*its[i + 1:]), impl, fn)
                    res = []
                    for d, x in e[2]:
                        if _pure_err(x):
                            continue
                        a = self.term_shape(x, impl, fn)
                        res.append(a if _terminates(x) else shape.wcat([a, rest]))
                    if res and len({repr(w) for w in res}) == 1:
                        out.append(res[0])
                    else:
                        out.append(('alt', [(str(n_), w) for n_, w in enumerate(res)]))
                    return shape.wcat(out)
                out.append(self.plain_alt(e, impl, fn))
            elif k == 'star':
                rng = strip(e[1])
                fixed = None
                if isinstance(rng, tuple) and rng[0] == 'adt' and rng[1].endswith('ops::range::Range'):
                    lo = strip([v for i_, v in rng[3] if i_ == 0][0])
                    hi = strip([v for i_, v in rng[3] if i_ == 1][0])
                    if isinstance(lo, tuple) and lo[0] == 'lit' and lo[1] == 0:
                        if isinstance(hi, tuple) and hi[0] == 'call' and hi[1] == 'to_usize' and hi[4]:
                            fixed = hi[4][0]
                        elif isinstance(hi, tuple) and hi[0] == 'cparam':
                            fixed = hi[1]
                if fixed is None and rng == ('loop',):
                    # `while i < N { ..; i += 1 }` / `while i < L::to_usize()`
                    from .rules.c04 import _is_counter_star
                    bound, body = _is_counter_star(e, None)
                    b = strip(bound) if bound is not None else None
                    if isinstance(b, tuple) and b[0] == 'cparam':
                        out.append(('rep', self.term_shape(body, impl, fn), b[1]))
                        i += 1
                        continue
                    if isinstance(b, tuple) and b[0] == 'call' and b[1] == 'to_usize' and b[4]:
                        out.append(('rep', self.term_shape(body, impl, fn), b[4][0]))
                        i += 1
                        continue
                if fixed is not None:
                    out.append(('rep', self.term_shape(e[2], impl, fn), fixed))
                else:
                    out.append(('opaque', 'loop without a count prefix: ' + sym.vstr(e[1])[:60]))
            elif k == 'HELPER':
                out.append(self.term_shape(e[2], impl, fn))
            elif k == 'ONOK':
                out.append(self.term_shape(e[1], impl, fn))
            elif k == 'KERNEL':
                out.append(('opaque', 'vector kernel without a count prefix'))
            elif k == 'opaque':
                out.append(('opaque', e[1]))
            else:
                out.append(('opaque', 'event ' + k))
            i += 1
        return shape.wcat(out)

    def child(self, ty_s, impl):
        t = self.S.normalize(T.parse(ty_s))
        if t[0] == 'adt' and t[1] == 'compact::Compact' and t[2]:
            a = t[2][0]
            if a[0] == 'prim' and a[1] in ('u8', 'u16', 'u32', 'u64', 'u128'):
                return ('compact', a[1])
            if a[0] in ('param', 'proj'):
                return ('cvar', T.show(a))
            if a == ('tuple', []):
                return ('eps',)
        return self.S.wire_type(t)

    def _scrut_is_byte(self, scrut, uid):
        s = strip(scrut)
        return s == ('byte', uid)

    def probed_tag_alt(self, rest, uid, impl, fn):
        from .rules.common import choose_arms

        def spec(term, leaf):
            outl = []
            for e in items(term):
                if e[0] == 'alt':
                    ch = choose_arms(e, leaf)
                    if len(ch) == 1:
                        sub = spec(ch[0], leaf)
                        outl.extend(items(sub))
                        if _terminates(ch[0]):
                            break
                        continue
                outl.append(e)
            return sym.cat(*outl)
        groups = {}
        for b in range(256):
            res = spec(rest, lambda v, b=b: b if strip(v) == ('byte', uid) else None)
            groups.setdefault(sym.tstr(res), [res, []])[1].append(b)
        arms = []
        for key, (res, bs) in groups.items():
            if _pure_err(res):
                continue
            if len(bs) > 40:
                return None         # not a tag dispatch: most byte values are accepted alike
            w = self.term_shape(res, impl, fn)
            for b in bs:
                arms.append((b, w))
        return ('alt', sorted(arms, key=lambda a: a[0]))

    def tag_alt(self, alt, impl, fn):
        arms = []
        for d, x in alt[2]:
            if _pure_err(x) and not (isinstance(d, tuple) and d[0] == 'guard'):
                # a rejecting arm, however its pattern is written (`_`, `2..=u8::MAX`, a list): contributes nothing to the
                # shape; that exactly the right bytes are rejected is C03 R03.1
                continue
            if isinstance(d, tuple) and d[0] == 'pat' and d[2] and len(d[2]) == 1 and d[2][0][0] == d[2][0][1]:
                arms.append((d[2][0][0], self.term_shape(x, impl, fn)))
            elif isinstance(d, tuple) and d[0] == 'guard':
                # derive: `x if x == IDX as u8`
                g = strip(d[2])
                k = _guard_const(g)
                if k is None:
                    arms.append(('guard?', ('opaque', 'unrecognised arm guard ' + sym.vstr(g)[:60])))
                else:
                    arms.append((k, self.term_shape(x, impl, fn)))
            elif isinstance(d, tuple) and d[0] == 'pat' and d[1] == '_':
                # wildcard: must be a pure error exit, checked by C03 R03.1; contributes nothing
                if not _pure_err(x):
                    arms.append(('_', self.term_shape(x, impl, fn)))
            elif isinstance(d, tuple) and d[0] == 'pat' and d[2]:
                for lo, hi in d[2]:
                    for kk in range(lo, min(hi, lo + 300) + 1):
                        arms.append((kk, self.term_shape(x, impl, fn)))
            else:
                arms.append((sym.dstr(d), self.term_shape(x, impl, fn)))
        return ('alt', arms)

    def plain_alt(self, e, impl, fn):
        scrut = strip(e[1])
        if isinstance(scrut, tuple) and scrut and scrut[0] == 'if':
            live = [(d, x) for d, x in e[2] if not _pure_err(x)]
            if len(live) == 1:
                return self.term_shape(live[0][1], impl, fn)
            if not live:
                return ('eps',)
            shp = [(str(d), self.term_shape(x, impl, fn)) for d, x in e[2]]
            if all(w == ('eps',) for _, w in shp):
                return ('eps',)
            if len({repr(w) for _, w in shp}) == 1:
                return shp[0][1]   # both branches read the same thing (e.g. N element skips vs. a whole-array decode)
            return ('alt', shp)
        if isinstance(scrut, tuple) and scrut and scrut[0] == 'const' and scrut[1].endswith('TYPE_INFO'):
            return ('opaque', 'TYPE_INFO dispatch outside the vector kernel')
        live = [(d, x) for d, x in e[2] if not _pure_err(x)]
        shapes = [self.term_shape(x, impl, fn) for d, x in live]
        if all(s == ('eps',) for s in shapes):
            return ('eps',)
        return ('alt', [(sym.dstr(d), s) for (d, x), s in zip(live, shapes)])

    def count_elems(self, its, i, impl, fn):
        """`dec<Compact<u32>>#c · ? · <elements driven by c>` -> (Seq shape, items consumed)"""
        e = its[i]
        if e[1] != 'compact::Compact<u32>' or e[3] != 'decode':
            return None
        uid = e[2]
        cnt_s = 'decoded#%s:compact::Compact<u32>.0' % uid
        j = i + 1
        used_guard = 0
        while j < len(its):
            k = its[j][0]
            if k in ('?', 'DESC', 'HOOK', 'CFG', 'SET', 'ASC'):
                j += 1
                continue
            if k == 'alt' and _pure_guard(its[j]):
                j += 1
                continue
            break
        if j >= len(its):
            return None
        x = its[j]
        if x[0] == 'KERNEL' and x[1] == 'decode_vec_with_len':
            el = _kernel_elem(x[2])
            ln = _kernel_len(x[2], self.facts)
            if el is None:
                return None
            ew = self.child(el, impl)
            return ('__seq', ew, ln, cnt_s), j - i + 1
        if x[0] == 'star':
            rng = strip(x[1])
            if isinstance(rng, tuple) and rng[0] == 'adt' and rng[1].endswith('ops::range::Range'):
                lo = sym.vstr([v for i_, v in rng[3] if i_ == 0][0])
                hi = sym.vstr([v for i_, v in rng[3] if i_ == 1][0])
                if lo.startswith('0:') and hi == cnt_s:
                    body = self.term_shape(x[2], impl, fn)
                    return ('seq', body), j - i + 1
        return None


def _mentions_byte(scrut, uid):
    found = []

    def walk(v):
        if isinstance(v, tuple):
            if v == ('byte', uid):
                found.append(1)
                return
            for x in v:
                walk(x)
        elif isinstance(v, list):
            for x in v:
                walk(x)
    walk(scrut)
    return bool(found)


def _guard_const(g):
    """value k of an arm guard `x == K as u8` / `x == K`"""
    if isinstance(g, tuple) and g[0] == 'bin' and g[1] == 'Eq':
        for a in (strip(g[2]), strip(g[3])):
            v = _const_int(a)
            if v is not None:
                return v
    return None


def _const_int(a):
    a = strip(a)
    if isinstance(a, tuple):
        if a[0] == 'lit' and isinstance(a[1], int) and not isinstance(a[1], bool):
            return a[1]
        if a[0] == 'cast':
            v = _const_int(a[2])
            if v is not None and a[1] == 'u8':
                return v % 256
            return v
        if a[0] == 'const' and a[2] is not None:
            return a[2]
        if a[0] == 'bin' and len(a) >= 4:
            # a constant expression (`1 + 1`, `1 << 4`, `b'A' | 0x20`): constant evaluation rejects overflow, so exact integer
            # arithmetic is what the compiler computes
            l, r = _const_int(a[2]), _const_int(a[3])
            if l is None or r is None:
                return None
            try:
                return {'Add': lambda: l + r, 'Sub': lambda: l - r, 'Mul': lambda: l * r, 'Div': lambda: int(l / r) if r else None,
                        'Rem': lambda: (l - r * int(l / r)) if r else None, 'Shl': lambda: l << r if 0 <= r < 128 else None,
                        'Shr': lambda: l >> r if 0 <= r < 128 else None, 'BitOr': lambda: l | r, 'BitAnd': lambda: l & r,
                        'BitXor': lambda: l ^ r}.get(a[1], lambda: None)()
            except (ValueError, OverflowError):
                return None
    return None


def _terminates(t):
    its_ = items(t)
    return bool(its_) and its_[-1][0] in ('RET', 'ERR', 'PANIC')


def _pure_err(t):
    evs = [e for e in sym.walk(t) if e[0] not in ('cat', 'eps')]
    return bool(evs) and all(e[0] in ('ERR', 'PANIC') for e in evs)


def _pure_guard(alt):
    """an alt all of whose arms are empty or bare error exits (validation guard)"""
    def pr(t):
        k = t[0]
        if k in ('eps', 'ERR'):
            return True
        if k == 'alt':
            return all(pr(x) for _, x in t[2])
        if k == 'cat':
            return all(pr(x) for x in t[1])
        return False
    return pr(alt)


def _kernel_elem(t):
    """element type decoded by the inlined decode_vec_with_len (from its item path = the arm of the
    TYPE_INFO dispatch taken for non-primitive elements)"""
    for x in sym.walk(t):
        if x[0] == 'alt' and isinstance(strip(x[1]), tuple) and strip(x[1])[0] == 'const' and strip(x[1])[1].endswith('TYPE_INFO'):
            for d, arm in x[2]:
                if isinstance(d, tuple) and d[1] == 'Unknown':
                    for y in sym.walk(arm):
                        if y[0] == 'dec' and y[3] == 'decode':
                            return y[1]
    return None


def _kernel_len(t, facts):
    """the `len` argument the kernel was inlined with, recovered from its chunk loop condition"""
    for x in sym.walk(t):
        if x[0] == 'star' and strip(x[1]) == ('loop',):
            for y in items(x[2]):
                if y[0] == 'alt' and isinstance(y[1], tuple) and y[1][0] == 'if':
                    c = strip(y[1][1])
                    # however the test is spelled (`n > 0`, `n != 0`, `!(n == 0)`): the counter is the mutable variable it
                    # compares with zero (that the loop runs exactly while it is positive is rule K1-K2 of C02)
                    neg = 0
                    while isinstance(c, tuple) and c[0] == 'un' and c[1] == 'Not':
                        c = strip(c[2])
                        neg += 1
                    if isinstance(c, tuple) and c[0] == 'bin' and c[1] in ('Gt', 'Ne', 'Lt', 'Eq', 'Le', 'Ge'):
                        for side, other in ((strip(c[2]), strip(c[3])), (strip(c[3]), strip(c[2]))):
                            if isinstance(side, tuple) and side[0] == 'mutvar' and isinstance(other, tuple) and other[0] == 'lit' and other[1] in (0, 1):
                                return sym.vstr(side[3])
    return None
