"""Which external functions can panic?  Decided from the sources on disk: a function of core/alloc/std (rust-src of the
nightly toolchain) or of a third-party crate (the cargo registry copy named by Cargo.lock) is *panic-capable* when its
documentation has a `# Panics` section (or its name is one of the panicking entry points themselves).  Nothing is
fetched or executed; the lookup is by (crate, module path, function name) and over-approximates: if several functions of
that name live in the module's files and any of them documents a panic, the callee counts as panic-capable."""
import glob
import os
import re
import subprocess

_cache = {}
_sysroot = None

ALWAYS = ('core::panicking::', 'std::panicking::', 'core::option::unwrap_failed', 'core::option::expect_failed',
          'core::result::unwrap_failed', 'core::slice::index::slice_', 'core::str::slice_error_fail',
          'alloc::alloc::handle_alloc_error', 'alloc::raw_vec::capacity_overflow', 'std::process::abort', 'std::process::exit',
          'core::intrinsics::abort', 'std::rt::begin_panic', 'core::cell::panic_already')

FN_RE = re.compile(r'^\s*(?:pub(?:\([a-z: ]+\))?\s+)?(?:default\s+)?(?:const\s+)?(?:unsafe\s+)?(?:extern\s+"[^"]*"\s+)?fn\s+([A-Za-z_][A-Za-z0-9_]*)')


def sysroot_lib():
    global _sysroot
    if _sysroot is None:
        s = subprocess.run(['rustc', '+nightly', '--print', 'sysroot'], capture_output=True, text=True).stdout.strip()
        _sysroot = os.path.join(s, 'lib', 'rustlib', 'src', 'rust', 'library')
    return _sysroot


def _registry_dir(crate, lock_versions):
    name = crate.replace('_', '-')
    cands = []
    for alt in {name, crate}:
        cands += glob.glob(os.path.expanduser('~/.cargo/registry/src/*/%s-[0-9]*' % alt))
    vers = lock_versions.get(name) or lock_versions.get(crate) or []
    for c in cands:
        for v in vers:
            if c.endswith('-' + v):
                return os.path.join(c, 'src')
    return os.path.join(sorted(cands)[-1], 'src') if cands else None


def lock_versions(repo_root):
    out = {}
    try:
        txt = open(os.path.join(repo_root, 'Cargo.lock')).read()
    except OSError:
        return out
    for m in re.finditer(r'name = "([^"]+)"\nversion = "([^"]+)"', txt):
        out.setdefault(m.group(1), []).append(m.group(2))
    return out


def parse_file(path):
    """{fn name: [bool has_panics_section, ..]} for one source file"""
    key = ('file', path)
    if key in _cache:
        return _cache[key]
    res = {}
    try:
        lines = open(path, errors='replace').read().split('\n')
    except OSError:
        _cache[key] = res
        return res
    doc_panics = False
    in_doc = False
    for ln in lines:
        s = ln.strip()
        if s.startswith('///') or s.startswith('#[doc') or s.startswith('//!'):
            in_doc = True
            # a `# Panics` heading; `# Panics during const evaluation` documents compile-time evaluation only
            if re.search(r'#+\s*Panics\s*$', s):
                doc_panics = True
            continue
        if s.startswith('#[') or s.startswith('#!['):
            continue            # attributes between the doc comment and the item
        if s.startswith('//') or s == '':
            if s == '' and not in_doc:
                doc_panics = False
            continue
        m = FN_RE.match(ln)
        if m:
            res.setdefault(m.group(1), []).append(doc_panics)
        doc_panics = False
        in_doc = False
    _cache[key] = res
    return res


def module_files(src_root, segs):
    """source files that can hold items of module path `segs` (relative to the crate root directory)"""
    files = []
    p = src_root
    depth = 0
    for s in segs:
        d = os.path.join(p, s)
        f = d + '.rs'
        if os.path.isdir(d):
            p = d
            depth += 1
            if os.path.exists(f):
                files.append(f)
        elif os.path.exists(f):
            files.append(f)
            p = None
            break
        else:
            break
    if p is not None:
        if depth == 0:
            # crate root: lib.rs and every file (inline modules and re-exports make the real module unknowable)
            files += glob.glob(os.path.join(p, '**', '*.rs'), recursive=True)
        else:
            files += glob.glob(os.path.join(p, '**', '*.rs'), recursive=True)
    return sorted(set(files))


def split_path(defpath):
    """'core::slice::<impl [T]>::copy_from_slice' -> ('core', ['slice'], 'copy_from_slice')"""
    parts = []
    cur = ''
    depth = 0
    i = 0
    while i < len(defpath):
        ch = defpath[i]
        if ch in '<([':
            depth += 1
        elif ch in '>)]':
            depth -= 1
        if ch == ':' and depth == 0 and defpath[i:i + 2] == '::':
            parts.append(cur)
            cur = ''
            i += 2
            continue
        cur += ch
        i += 1
    parts.append(cur)
    crate = parts[0]
    name = re.sub(r'<.*$', '', parts[-1])
    mods = []
    for s in parts[1:-1]:
        if s.startswith('<') or s.startswith('{') or (s[:1].isupper()):
            break
        mods.append(s)
    return crate, mods, name


def classify(defpath, repo_root):
    """'panics' | 'total' | 'unknown' (source not found), with the files consulted"""
    key = ('cls', defpath, repo_root)
    if key in _cache:
        return _cache[key]
    r = _classify(defpath, repo_root)
    _cache[key] = r
    return r


def _classify(defpath, repo_root):
    if any(defpath.startswith(a) for a in ALWAYS):
        return ('panics', 'panicking entry point')
    crate, mods, name = split_path(defpath)
    if crate in ('core', 'alloc', 'std'):
        root = os.path.join(sysroot_lib(), crate, 'src')
    else:
        root = _registry_dir(crate, lock_versions(repo_root))
    if not root or not os.path.isdir(root):
        return ('unknown', 'no source for crate %s' % crate)
    files = module_files(root, mods)
    hits = []
    for f in files:
        for flag in parse_file(f).get(name, []):
            hits.append((flag, f))
    if not hits:
        # item defined in a sibling module and re-exported, or generated by a macro defined elsewhere: search the crate
        for f in glob.glob(os.path.join(root, '**', '*.rs'), recursive=True):
            for flag in parse_file(f).get(name, []):
                hits.append((flag, f))
        if not hits:
            return ('unknown', 'function %s not found under %s' % (name, root))
    if any(h[0] for h in hits):
        f = [h[1] for h in hits if h[0]][0]
        return ('panics', 'documented `# Panics` (%s)' % os.path.relpath(f, root))
    return ('total', 'no `# Panics` section in %d definition(s)' % len(hits))
