"""Obligation bookkeeping, findings, known findings, evidence files (DESIGN 2.2, 2.5)."""
import json
import os
import time

VERIF = os.path.dirname(os.path.dirname(os.path.abspath(__file__)))
EVID = os.path.join(VERIF, 'evidence')
KNOWN = os.path.join(VERIF, 'known_findings.json')


class Finding:
    def __init__(self, rule, key, msg, loc='?', unit=''):
        self.rule = rule
        self.key = key
        self.msg = msg
        self.loc = loc
        self.unit = unit

    def ident(self):
        return '%s|%s' % (self.rule, self.key)

    def line(self):
        return '%s  %s  %s  %s' % (self.loc, self.rule, self.key, self.msg)

    def as_json(self):
        return {'rule': self.rule, 'key': self.key, 'msg': self.msg, 'loc': self.loc, 'unit': self.unit}


class Out:
    """Collector handed to the rules of one property."""

    def __init__(self, prop):
        self.prop = prop
        self.findings = []          # violated obligations
        self.obligations = 0
        self.discharged = 0
        self.by_rule = {}           # rule -> [n_obligations, n_discharged]
        self.samples = []
        self.rule_texts = {}
        self.notes = []
        self.units = set()
        self.instances = {}         # free-form counters
        self.unit = ''
        self.mute = False           # used when running rules on positive fixtures
        self.ob_keys = set()

    def rule(self, rid, text):
        self.rule_texts[rid] = text

    def ob(self, rule, key, ok, msg='', loc='?', sample=None):
        """record one obligation; `ok` False makes it a finding"""
        self.obligations += 1
        self.ob_keys.add((rule, key))
        br = self.by_rule.setdefault(rule, [0, 0])
        br[0] += 1
        if ok:
            self.discharged += 1
            br[1] += 1
        else:
            self.findings.append(Finding(rule, key, msg, loc, self.unit))
        if sample is not None and len([s for s in self.samples if s.get('rule') == rule]) < 4:
            self.samples.append({'rule': rule, 'key': key, 'ok': bool(ok), 'case': sample})
        return ok

    def fail(self, rule, key, msg, loc='?'):
        return self.ob(rule, key, False, msg, loc)

    def count(self, name, n=1):
        self.instances[name] = self.instances.get(name, 0) + n

    def floor(self, rule, what, n, minimum):
        """fail closed when fewer instances than confirmed by hand were analysed"""
        self.instances['floor:' + what] = n
        self.ob(rule, 'floor:' + what, n >= minimum,
                'only %d instance(s) of "%s" analysed, at least %d were confirmed by hand on the pinned tree: '
                'an anchor disappeared from the analysis (fail closed)' % (n, what, minimum), loc='-')

    def note(self, s):
        self.notes.append(s)

    def absorb(self, other, rules):
        """take over the obligations of the given rules evaluated into another collector"""
        for r in rules:
            if r in other.by_rule:
                a, b = other.by_rule[r]
                br = self.by_rule.setdefault(r, [0, 0])
                br[0] += a
                br[1] += b
                self.obligations += a
                self.discharged += b
                if r in other.rule_texts:
                    self.rule_texts[r] = other.rule_texts[r]
        for f in other.findings:
            if f.rule in rules:
                self.findings.append(f)
        for k in other.ob_keys:
            if k[0] in rules:
                self.ob_keys.add(k)
        for smp in other.samples:
            if smp.get('rule') in rules and len([x for x in self.samples if x.get('rule') == smp.get('rule')]) < 4:
                self.samples.append(smp)
        self.units |= other.units


def load_known():
    if not os.path.exists(KNOWN):
        return {'findings': [], 'fixed': []}
    with open(KNOWN) as f:
        return json.load(f)


def evidence_dir():
    """evidence/ describes /repo only: a run pointed at a scratch tree (checker self-test) records elsewhere"""
    root = os.path.abspath(os.environ.get('VERIF_REPO', '/repo'))
    if root != '/repo':
        return os.path.join(VERIF, '.work', 'evidence-scratch')
    return EVID


def write_evidence(prop, tier, seed, level, out, wall, extra_cov=None, assumptions=None, violations=0, known=0):
    EVID = evidence_dir()
    os.makedirs(EVID, exist_ok=True)
    cov = {
        'explanation': out.explanation if hasattr(out, 'explanation') else '',
        'obligations': out.obligations,
        'discharged': out.discharged,
        'evaluations': max(out.obligations, 1),
        'distinct_nontrivial': len(out.ob_keys),
        'rule': 'one evaluation = one rule instance (obligation) evaluated on facts extracted from the current tree; '
                'distinct = distinct (rule, instance key) pairs; all are non-trivial in the sense that a violated '
                'instance is reported as a VIOLATION',
        'by_rule': {r: {'obligations': a, 'discharged': b} for r, (a, b) in sorted(out.by_rule.items())},
        'rules': out.rule_texts,
        'units_analysed': sorted(out.units),
        'instances': out.instances,
        'samples': out.samples[:40] or [{'note': 'no samples recorded'}],
        'notes': out.notes,
        'known_findings_reported': known,
        'trusted_base': assumptions or [],
        'checker_cmd': './check %s --tier %s' % (prop, tier),
    }
    if extra_cov:
        cov.update(extra_cov)
    doc = {
        'property_id': prop,
        'tier': tier,
        'seed': seed,
        'level': level,
        'coverage': cov,
        'assumptions': assumptions or [],
        'wall_s': round(wall, 2),
        'violations': violations,
    }
    p = os.path.join(EVID, prop + '.json')
    tmp = p + '.tmp%d' % os.getpid()
    with open(tmp, 'w') as f:
        json.dump(doc, f, indent=1, sort_keys=False)
    os.replace(tmp, p)
    return p
