"""Parsing of rustc-printed type strings into a small structure, unification against impl self
types, substitution.  Types:  ('prim', name) ('param', name) ('adt', path, [args]) ('ref', T)
('ptr', T) ('tuple', [..]) ('array', T, n) ('slice', T) ('proj', selfT, trait, name)
('other', s)"""
import re

PRIMS = {'u8', 'u16', 'u32', 'u64', 'u128', 'usize', 'i8', 'i16', 'i32', 'i64', 'i128', 'isize', 'f32', 'f64', 'bool',
         'char', 'str', '!'}


class P:
    def __init__(self, s):
        self.s = s
        self.i = 0

    def ws(self):
        while self.i < len(self.s) and self.s[self.i] == ' ':
            self.i += 1

    def peek(self, t):
        self.ws()
        return self.s.startswith(t, self.i)

    def eat(self, t):
        self.ws()
        if self.s.startswith(t, self.i):
            self.i += len(t)
            return True
        return False

    def expect(self, t):
        if not self.eat(t):
            raise ValueError('expected %r at %d in %r' % (t, self.i, self.s))

    def lifetime(self):
        self.ws()
        m = re.match(r"'[A-Za-z_][A-Za-z0-9_]*", self.s[self.i:])
        if m:
            self.i += m.end()
            return True
        return False

    def ty(self):
        self.ws()
        if self.eat('&'):
            self.lifetime()
            self.ws()
            self.eat('mut ')
            return ('ref', self.ty())
        if self.eat('*const ') or self.eat('*mut '):
            return ('ptr', self.ty())
        if self.eat('('):
            items = []
            while not self.peek(')'):
                items.append(self.ty())
                if not self.eat(','):
                    break
            self.expect(')')
            return ('tuple', items)
        if self.eat('['):
            t = self.ty()
            if self.eat(';'):
                self.ws()
                j = self.i
                depth = 0
                while self.i < len(self.s) and not (self.s[self.i] == ']' and depth == 0):
                    if self.s[self.i] in '([{':
                        depth += 1
                    if self.s[self.i] in ')]}':
                        depth -= 1
                    self.i += 1
                n = self.s[j:self.i].strip()
                self.expect(']')
                return ('array', t, n)
            self.expect(']')
            return ('slice', t)
        if self.eat('<'):
            st = self.ty()
            self.expect(' as ') if False else None
            self.ws()
            if not self.eat('as '):
                raise ValueError('projection without as in %r' % self.s)
            tr = self.path_with_args()
            self.expect('>')
            self.expect('::')
            m = re.match(r'[A-Za-z_][A-Za-z0-9_]*', self.s[self.i:])
            name = m.group(0)
            self.i += m.end()
            return ('proj', st, tr, name)
        if self.peek('dyn ') or self.peek('impl ') or self.peek('fn(') or self.peek('for<') or self.peek('unsafe ') or self.peek('extern '):
            rest = self.s[self.i:]
            self.i = len(self.s)
            return ('other', rest)
        p = self.path_with_args()
        return p

    def path_with_args(self):
        self.ws()
        segs = []
        args = []
        while True:
            m = re.match(r'[A-Za-z_][A-Za-z0-9_]*|\{[^}]*\}', self.s[self.i:])
            if not m:
                break
            segs.append(m.group(0))
            self.i += m.end()
            if self.s.startswith('::<', self.i):
                self.i += 2
            if self.s.startswith('<', self.i):
                self.i += 1
                while True:
                    self.ws()
                    if self.s.startswith('>', self.i):
                        break
                    if self.lifetime():
                        pass
                    else:
                        # const argument (number) or type
                        m2 = re.match(r'-?\d+(_\w+)?', self.s[self.i:])
                        if m2:
                            args.append(('const', m2.group(0)))
                            self.i += m2.end()
                        else:
                            args.append(self.ty())
                    if not self.eat(','):
                        break
                self.expect('>')
            if self.s.startswith('::', self.i) and not self.s.startswith('::<', self.i):
                self.i += 2
                continue
            break
        path = '::'.join(segs)
        if not segs:
            raise ValueError('cannot parse type at %d in %r' % (self.i, self.s))
        if len(segs) == 1 and not args:
            if path in PRIMS:
                return ('prim', path)
            return ('param', path)
        return ('adt', path, args)


_cache = {}


def parse(s):
    if s in _cache:
        return _cache[s]
    try:
        p = P(s)
        t = p.ty()
        p.ws()
        if p.i != len(p.s):
            t = ('other', s)
    except (ValueError, AttributeError):
        t = ('other', s)
    _cache[s] = t
    return t


def from_json(j):
    """ty_json of the driver -> the same structure"""
    k = j['k']
    if k == 'prim':
        return ('prim', j['s'])
    if k == 'param':
        return ('param', j['name'])
    if k == 'adt':
        return ('adt', j['path'], [from_json(a) for a in j['args'] if a['k'] != 'lt' and not (
            a['k'] == 'adt' and a['path'] == 'alloc::alloc::Global')])
    if k == 'ref':
        return ('ref', from_json(j['t']))
    if k == 'ptr':
        return ('ptr', from_json(j['t']))
    if k == 'tuple':
        return ('tuple', [from_json(a) for a in j['ts']])
    if k == 'array':
        return ('array', from_json(j['t']), j['n'])
    if k == 'slice':
        return ('slice', from_json(j['t']))
    if k == 'const':
        return ('const', j['s'])
    return parse(j['s'])


def show(t):
    k = t[0]
    if k in ('prim', 'param'):
        return t[1]
    if k == 'adt':
        short = t[1].rsplit('::', 1)[-1]
        return short + ('<%s>' % ', '.join(show(a) for a in t[2]) if t[2] else '')
    if k == 'ref':
        return '&' + show(t[1])
    if k == 'ptr':
        return '*' + show(t[1])
    if k == 'tuple':
        return '(%s)' % ', '.join(show(a) for a in t[1])
    if k == 'array':
        return '[%s; %s]' % (show(t[1]), t[2])
    if k == 'slice':
        return '[%s]' % show(t[1])
    if k == 'proj':
        return '<%s as %s>::%s' % (show(t[1]), show(t[2]), t[3])
    if k == 'const':
        return t[1]
    return str(t[1])


def strip_refs(t):
    while t[0] == 'ref':
        t = t[1]
    return t


def subst(t, env):
    k = t[0]
    if k == 'param':
        return env.get(t[1], t)
    if k == 'adt':
        return ('adt', t[1], [subst(a, env) for a in t[2]])
    if k in ('ref', 'ptr', 'slice'):
        return (k, subst(t[1], env))
    if k == 'tuple':
        return ('tuple', [subst(a, env) for a in t[1]])
    if k == 'array':
        n = t[2]
        if n in env and env[n][0] == 'const':
            n = env[n][1]
        return ('array', subst(t[1], env), n)
    if k == 'proj':
        return ('proj', subst(t[1], env), subst(t[2], env), t[3])
    return t


def unify(pat, t, params, env=None):
    """match an impl's self type pattern (with `params` as variables) against a type"""
    env = {} if env is None else env
    if pat[0] == 'param' and pat[1] in params:
        if pat[1] in env:
            return env if env[pat[1]] == t else None
        env[pat[1]] = t
        return env
    if pat[0] != t[0]:
        return None
    k = pat[0]
    if k in ('prim', 'param', 'other', 'const'):
        return env if pat[1] == t[1] else None
    if k == 'adt':
        if pat[1] != t[1] or len(pat[2]) != len(t[2]):
            return None
        for a, b in zip(pat[2], t[2]):
            if unify(a, b, params, env) is None:
                return None
        return env
    if k in ('ref', 'ptr', 'slice'):
        return unify(pat[1], t[1], params, env)
    if k == 'tuple':
        if len(pat[1]) != len(t[1]):
            return None
        for a, b in zip(pat[1], t[1]):
            if unify(a, b, params, env) is None:
                return None
        return env
    if k == 'array':
        if unify(pat[1], t[1], params, env) is None:
            return None
        if pat[2] in params:
            env[pat[2]] = ('const', t[2])
            return env
        return env if pat[2] == t[2] else None
    if k == 'proj':
        if pat[3] != t[3]:
            return None
        if unify(pat[1], t[1], params, env) is None:
            return None
        return unify(pat[2], t[2], params, env)
    return None


def params_in(t, acc=None):
    acc = set() if acc is None else acc
    k = t[0]
    if k == 'param':
        acc.add(t[1])
    elif k == 'adt':
        for a in t[2]:
            params_in(a, acc)
    elif k in ('ref', 'ptr', 'slice', 'array'):
        params_in(t[1], acc)
    elif k == 'tuple':
        for a in t[1]:
            params_in(a, acc)
    elif k == 'proj':
        params_in(t[1], acc)
        params_in(t[2], acc)
    return acc
