"""MIR utilities for the panic-site census (R03.3): CFG, dominators, expression trees of operands (through single
definitions), dominating branch facts, kill checks for mutable leaves, a small interval evaluator.

Expressions (tuples):
  ('c', int, ty)                 integer / bool constant            ('cs', text, ty)      other constant
  ('arg', i, ty)                 function argument (never reassigned)
  ('mut', local, ty)             local with several definitions (evaluated where it is read)
  ('bin', op, a, b) ('un', op, a) ('cast', to_ty, a)
  ('call', callee, (args..))     result of a call (callee = resolved def path or declared path)
  ('field', base, i) ('deref', base) ('idx', base, index) ('down', base, variant) ('cidx', base, k)
  ('len', base)                  PtrMetadata / slice length
  ('ref', base) ('discr', base) ('agg', kind, (ops..)) ('opaque', why)
Checked arithmetic `AddWithOverflow(a,b).0` is normalised to ('bin','Add',a,b)."""
import re

INT_BITS = {'u8': 8, 'u16': 16, 'u32': 32, 'u64': 64, 'u128': 128, 'usize': 64,
            'i8': 8, 'i16': 16, 'i32': 32, 'i64': 64, 'i128': 128, 'isize': 64}


def ty_range(ty):
    if ty in INT_BITS:
        b = INT_BITS[ty]
        if ty.startswith('u'):
            return (0, (1 << b) - 1)
        return (-(1 << (b - 1)), (1 << (b - 1)) - 1)
    if ty == 'bool':
        return (0, 1)
    return None


class Body:
    def __init__(self, fn):
        self.fn = fn
        m = fn['mir']
        self.m = m
        self.blocks = m['blocks']
        self.argc = m['argc']
        self.ltys = [l['ty'] for l in m['locals']]
        self.n = len(self.blocks)
        self.succ = [self._succs(b) for b in self.blocks]
        self.pred = [[] for _ in range(self.n)]
        for i, ss in enumerate(self.succ):
            for s in ss:
                self.pred[s].append(i)
        self.defs = {}      # local -> [(block, stmt index or 'term', rvalue-or-term)]
        for bi, b in enumerate(self.blocks):
            for si, s in enumerate(b['stmts']):
                if s['k'] == 'assign' and not s['p']['p']:
                    self.defs.setdefault(s['p']['l'], []).append((bi, si, s['r']))
                elif s['k'] == 'assign' and s['p']['p'][0] != '*':
                    # partial write to a field of the local: it is not single-assignment any more (a write through
                    # `*local` changes the pointee, not the pointer: see leaf_stable)
                    self.defs.setdefault(s['p']['l'], []).append((bi, si, None))
            t = b['term']
            if t['k'] == 'call' and not t['dest']['p']:
                self.defs.setdefault(t['dest']['l'], []).append((bi, 'term', t))
            elif t['k'] == 'call' and t['dest']['p'][0] != '*':
                self.defs.setdefault(t['dest']['l'], []).append((bi, 'term', None))
        self._dom = None
        self.mut_borrowed = set()
        for bi, b in enumerate(self.blocks):
            for s in b['stmts']:
                if s['k'] == 'assign' and s['r']['k'] in ('ref', 'rawptr') and (s['r'].get('mut') or s['r']['k'] == 'rawptr'):
                    if '*' not in s['r']['p']['p']:
                        # the local's own storage is mutably borrowed (a reborrow through `*local` leaves the pointer alone)
                        self.mut_borrowed.add(s['r']['p']['l'])

    def _succs(self, b):
        t = b['term']
        k = t['k']
        if k == 'goto':
            return [t['t']]
        if k == 'switch':
            return sorted({x[1] for x in t['ts']} | {t['otherwise']})
        if k in ('call', 'drop', 'assert'):
            return [t['t']] if t.get('t') is not None else []
        return []

    # -------------------------------------------------------------------------------- dominators
    def dom(self):
        if self._dom is not None:
            return self._dom
        n = self.n
        full = set(range(n))
        dom = [set(full) for _ in range(n)]
        dom[0] = {0}
        reach = self.reachable_from(0)
        changed = True
        order = [i for i in range(n) if i in reach]
        while changed:
            changed = False
            for b in order:
                if b == 0:
                    continue
                ps = [p for p in self.pred[b] if p in reach]
                if not ps:
                    continue
                new = set.intersection(*[dom[p] for p in ps]) | {b}
                if new != dom[b]:
                    dom[b] = new
                    changed = True
        self._dom = dom
        return dom

    def reachable_from(self, start, without=None):
        seen = set()
        work = [start] if not isinstance(start, (list, set, tuple)) else list(start)
        while work:
            x = work.pop()
            if x in seen or x == without:
                continue
            seen.add(x)
            work.extend(self.succ[x])
        return seen

    def reaching(self, target, without=None):
        seen = set()
        work = [target]
        while work:
            x = work.pop()
            if x in seen or x == without:
                continue
            seen.add(x)
            work.extend(self.pred[x])
        return seen

    def between(self, frm, to):
        """blocks on some path frm -> to that does not re-enter frm (frm itself excluded, to included)"""
        fwd = self.reachable_from(self.succ[frm], without=frm)
        bwd = self.reaching(to, without=frm)
        return fwd & bwd

    # -------------------------------------------------------------------------------- expressions
    def local_ty(self, l):
        return self.ltys[l] if l < len(self.ltys) else '?'

    def operand_ty(self, o):
        if 'const' in o:
            return o['const']['ty']
        p = o.get('copy') or o.get('move')
        if p is None:
            return '?'
        if not p['p']:
            return self.local_ty(p['l'])
        last = p['p'][-1]
        if isinstance(last, dict) and 'ty' in last:
            return last['ty']
        return '?'

    def expr_at(self, o, block):
        """(expression, blocks in which parts of it were evaluated)"""
        self._pts = {block}
        self._reads = []
        e = self.expr_operand(o, 0, (block, 'term'))
        pts = set(self._pts)
        # blocks in which a value that can change (a re-assigned local, memory behind a pointer) was read
        rd = {(l, tuple(path), b, fl) for l, path, b, fl in self._reads}
        self._reads = None
        return e, (pts, rd)

    def expr_operand(self, o, depth=0, at=None):
        if 'const' in o:
            c = o['const']
            if 'v' in c and isinstance(c['v'], (int, bool)):
                return ('c', int(c['v']), c['ty'])
            if 'fn' in c:
                return ('cs', c['fn'].get('resolved') or c['fn']['f'], 'fn')
            return ('cs', c.get('def') or c['s'], c['ty'])
        if 'rtcheck' in o:
            return ('cs', 'rtcheck', 'bool')
        p = o.get('copy') or o.get('move')
        return self.expr_place(p, depth, at)

    def expr_place(self, p, depth=0, at=None):
        e = self._expr_place(p, depth, at)
        if getattr(self, '_reads', None) is not None and at is not None:
            for l, path in mem_leaves(e):
                self._reads.append((l, path, at[0], getattr(self, '_lenctx', 0) > 0))
        return e

    def _expr_place(self, p, depth=0, at=None):
        base = self.expr_local(p['l'], depth, at)
        for pr in p['p']:
            if pr == '*':
                if isinstance(base, tuple) and base and base[0] == 'ref':
                    base = base[1]          # *&x == x
                else:
                    base = ('deref', base)
            elif isinstance(pr, dict) and 'f' in pr:
                base = ('field', base, pr['f'], pr.get('ty'))
                base = _norm_field(base)
            elif isinstance(pr, dict) and 'idx' in pr:
                base = ('idx', base, self.expr_local(pr['idx'], depth + 1, at))
            elif isinstance(pr, dict) and 'down' in pr:
                base = ('down', base, pr.get('name') or pr['down'])
            elif isinstance(pr, dict) and 'cidx' in pr:
                base = ('cidx', base, pr['cidx'])
            else:
                base = ('proj', base, str(pr))
        return base

    def expr_local(self, l, depth=0, at=None):
        ty = self.local_ty(l)
        if 1 <= l <= self.argc:
            if l not in self.defs:
                return ('arg', l, ty)
            return ('mut', l, ty)
        ds = self.defs.get(l, [])
        if len(ds) != 1 or ds[0][2] is None or depth > 24 or l in self.mut_borrowed:
            return ('mut', l, ty)
        bi, si, r = ds[0]
        if hasattr(self, '_pts'):
            self._pts.add(bi)
        if si == 'term':
            t = r
            f = t['fn']
            name = (f.get('resolved') or f.get('f')) if 'f' in f else 'fnptr'
            if name and name.startswith('parity_scale_codec::'):
                name = name[len('parity_scale_codec::'):]
            lenq = bool(name) and re.search(r'core::slice::<impl \[T\]>::(len|is_empty)$', name) is not None
            pure = is_pure_call(name, t.get('aty') or [])
            saved = getattr(self, '_reads', None)
            if lenq:
                self._lenctx = getattr(self, '_lenctx', 0) + 1
            if not pure:
                # the result of an effectful call is a snapshot identified by its call site: later changes of what the
                # arguments pointed to do not change it
                self._reads = None
            try:
                args = tuple(self.expr_operand(a, depth + 1, (bi, 'term')) for a in t['args'])
            finally:
                if lenq:
                    self._lenctx -= 1
                self._reads = saved
            inl = inline_summary(f, name, args, (bi, 'term')) if depth < 20 else None
            if inl is not None:
                # a private, branch-free, effect-free callee is looked through (callee summary): its result is the
                # callee's return expression over the caller's arguments, read at the call site
                if getattr(self, '_reads', None) is not None:
                    for l2, path in mem_leaves(inl):
                        self._reads.append((l2, path, bi, getattr(self, '_lenctx', 0) > 0))
                return inl
            return ('call', name, args, (bi, 'term'), pure)
        return self.expr_rvalue(r, depth + 1, (bi, si))

    def expr_rvalue(self, r, depth, at):
        k = r['k']
        if k == 'use':
            return self.expr_operand(r['o'], depth, at)
        if k == 'bin':
            return ('bin', r['op'], self.expr_operand(r['a'], depth, at), self.expr_operand(r['b'], depth, at))
        if k == 'un':
            if r['op'] == 'PtrMetadata':
                self._lenctx = getattr(self, '_lenctx', 0) + 1
                try:
                    return ('len', self.expr_operand(r['a'], depth, at))
                finally:
                    self._lenctx -= 1
            return ('un', r['op'], self.expr_operand(r['a'], depth, at))
        if k == 'cast':
            return ('cast', r['to'], self.expr_operand(r['o'], depth, at), r['from'])
        if k in ('ref', 'rawptr'):
            return ('ref', self.expr_place(r['p'], depth, at))
        if k == 'discr':
            return ('discr', self.expr_place(r['p'], depth, at))
        if k == 'agg':
            x = r['x']
            kind = r['ak'] if not isinstance(x, dict) else '%s::%s' % (x['path'], x['variant'])
            return ('agg', kind, tuple(self.expr_operand(o, depth, at) for o in r['ops']))
        if k == 'repeat':
            return ('agg', 'repeat', (self.expr_operand(r['o'], depth, at), ('cs', r['n'], 'usize')))
        return ('opaque', k)

    # -------------------------------------------------------------------------------- branch facts
    def facts_at(self, b):
        """[(discr expr, ('eq', v) | ('notin', (vs..)), block of the switch)] for every switch that dominates `b` through
        one dedicated edge"""
        dom = self.dom()
        out = []
        for d in sorted(dom[b]):
            if d == b:
                continue
            t = self.blocks[d]['term']
            if t['k'] != 'switch':
                continue
            e = self.expr_operand(t['d'], 0, (d, 'term'))
            targets = {}
            for v, s in t['ts']:
                targets.setdefault(s, []).append(v)
            for s, vs in targets.items():
                if s == t['otherwise']:
                    continue
                if (s == b or s in dom[b]) and self.pred[s] == [d] and len(vs) == 1:
                    out.append((e, ('eq', vs[0]), d))
            o = t['otherwise']
            if (o == b or o in dom[b]) and self.pred[o] == [d] and o not in targets:
                out.append((e, ('notin', tuple(sorted(v for v, _ in t['ts']))), d))
        return out

    # -------------------------------------------------------------------------------- kill checks
    def reads_stable(self, reads, to, len_only=False, ignore_calls=()):
        """every changeable place that was read keeps its value from the block of the read up to `to`
        (len_only: only the length of slices matters, so writes to their elements are ignored)"""
        for rd in reads:
            l, path, d = rd[0], rd[1], rd[2]
            lo = len_only or (len(rd) > 3 and rd[3])
            if not self.leaf_stable(l, d, to, list(path) or None, lo, ignore_calls):
                return False
        return True

    def leaf_stable(self, leaf_local, frm, to, proj_fields=None, len_only=False, ignore_calls=()):
        """no (re)definition of `leaf_local` (or write through it) on any path from the end of block `frm` to the
        terminator of block `to`"""
        region = self.between(frm, to) | {to}
        if frm == to:
            region = {to}
        for bi in region:
            b = self.blocks[bi]
            for si, s in enumerate(b['stmts']):
                if bi == frm and frm != to:
                    continue
                if s['k'] == 'assign' and s['p']['l'] == leaf_local:
                    if proj_fields is not None and _disjoint(s['p']['p'], proj_fields):
                        continue
                    if len_only and _element_write(s['p']['p'], proj_fields or []):
                        continue
                    return False
            t = b['term']
            if bi == to:
                continue
            if t['k'] == 'call':
                if t['dest']['l'] == leaf_local:
                    return False
                if ignore_calls and t['fn'].get('name') in ignore_calls:
                    continue
                for a in t['args']:
                    p = a.get('copy') or a.get('move')
                    if p is None:
                        continue
                    if len_only and re.match(r'^&mut \[', self.local_ty(p['l'])):
                        continue        # a `&mut [T]` lets the callee write elements, not change the length
                    if self._may_alias_mut(p['l'], leaf_local, proj_fields, 0, len_only):
                        return False
        return True

    def _may_alias_mut(self, arg_local, leaf_local, proj_fields, depth=0, len_only=False):
        """is `arg_local` a mutable reference (or raw pointer) into `leaf_local` (not provably into a disjoint field)?"""
        if depth > 6:
            return True
        ty = self.local_ty(arg_local)
        if arg_local == leaf_local:
            return ty.startswith('&mut') or ty.startswith('*mut') or not ty.startswith('&')
        for bi, si, r in self.defs.get(arg_local, []):
            if r is None:
                continue
            if si == 'term':
                continue
            if r['k'] in ('ref', 'rawptr') and r['p']['l'] == leaf_local:
                if not (r.get('mut') or r['k'] == 'rawptr'):
                    continue
                if proj_fields is not None and _disjoint(r['p']['p'], proj_fields):
                    continue
                if len_only and _element_write(r['p']['p'], proj_fields or []):
                    continue        # a borrow of one element cannot change the length of the slice
                return True
            if r['k'] in ('ref', 'rawptr') and (r.get('mut') or r['k'] == 'rawptr'):
                # reborrow through another local: &mut (*_x).f where _x is itself a reference into the leaf
                if self._may_alias_mut(r['p']['l'], leaf_local, proj_fields, depth + 1, len_only):
                    return True
            if r['k'] in ('use', 'cast'):
                p = r['o'].get('copy') or r['o'].get('move')
                if p and p['l'] == leaf_local and p['p'] and proj_fields is not None:
                    # a pointer copied out of a field of the leaf: what it reaches is the memory behind that field, i.e.
                    # the places  <field path> * ...  of the leaf
                    pre = _field_path(p['p']) + ['*']
                    if list(proj_fields[:len(pre)]) == pre and None not in pre:
                        if len_only and len(proj_fields) == len(pre):
                            continue
                        return True
                    continue
                if p and self._may_alias_mut(p['l'], leaf_local, proj_fields, depth + 1, len_only):
                    return True
        return False


# ---------------------------------------------------------------------------------------- callee summaries
FN_LOOKUP = [None]          # set by the census: def path -> function facts (with MIR) of the crate under analysis
_SUMMARY = {}


def summary_of(fn):
    """return expression of a crate-local function over ('arg', i, ty) leaves, or None.  Only functions whose MIR is one
    straight path (goto / overflow-or-bounds assert / pure call -> ... -> return; no switch, no loop, no `&mut` / raw
    pointer parameter, no effectful call) have one: for them the value returned is a function of the arguments and of
    the memory they point to, read at the call."""
    key = id(fn)
    if key in _SUMMARY:
        return _SUMMARY[key][1]
    _SUMMARY[key] = (fn, None)            # recursion guard; keeps fn alive so that id() stays unique
    m = fn.get('mir')
    if not m:
        return None
    b = Body(fn)
    for i in range(1, b.argc + 1):
        ty = b.local_ty(i)
        if ty.startswith('&mut') or ty.startswith('*mut') or ty.startswith('*const') or i in b.defs:
            return None
    bi, seen = 0, set()
    while True:
        if bi in seen or len(seen) > 40:
            return None
        seen.add(bi)
        blk = b.blocks[bi]
        for st in blk['stmts']:
            if st['k'] == 'assign' and st['p']['p'] and st['p']['p'][0] == '*':
                return None             # a write through a pointer
        t = blk['term']
        k = t['k']
        if k == 'return':
            break
        if k in ('goto', 'assert') and t.get('t') is not None:
            bi = t['t']
        elif k == 'call' and t.get('t') is not None and 'f' in t['fn']:
            cf = t['fn']
            cn = cf.get('resolved') or cf.get('f')
            if cn and cn.startswith('parity_scale_codec::'):
                cn = cn[len('parity_scale_codec::'):]
            if not is_pure_call(cn, t.get('aty') or []):
                sub = FN_LOOKUP[0](cn) if FN_LOOKUP[0] and (cf.get('local') or cf.get('resolved_local')) else None
                if sub is None or summary_of(sub) is None:
                    return None
            bi = t['t']
        else:
            return None
    b._pts = set()
    b._reads = None
    try:
        e = b.expr_operand({'copy': {'l': 0, 'p': []}}, 0, (bi, 'term'))
    except (KeyError, TypeError, IndexError):
        return None
    if not _summary_ok(e):
        return None
    _SUMMARY[key] = (fn, e)
    return e


def _summary_ok(e):
    if not isinstance(e, tuple) or not e:
        return True
    if e[0] in ('mut', 'opaque', 'proj'):
        return False
    if e[0] == 'call' and (len(e) < 5 or not e[4]):
        return False
    return all(_summary_ok(x) for x in e[1:] if isinstance(x, tuple))


def _subst(e, args, site):
    if not isinstance(e, tuple) or not e:
        return e
    if e[0] == 'arg':
        return args[e[1] - 1] if 0 <= e[1] - 1 < len(args) else ('opaque', 'arg')
    if e[0] == 'call':
        return ('call', e[1], tuple(_subst(a, args, site) for a in e[2]), site, e[4])
    r = tuple(_subst(x, args, site) if isinstance(x, tuple) else x for x in e)
    if r[0] == 'deref' and isinstance(r[1], tuple) and r[1] and r[1][0] == 'ref':
        return r[1][1]
    return r


def inline_summary(f, name, args, site):
    look = FN_LOOKUP[0]
    if look is None or not name or not ('f' in f):
        return None
    if not (f.get('local') or f.get('resolved_local') or f.get('crate') == 'parity_scale_codec'):
        return None
    fn = look(name)
    if fn is None:
        return None
    e = summary_of(fn)
    if e is None:
        return None
    if any(isinstance(a, tuple) and a and a[0] == 'opaque' for a in args):
        return None
    return _subst(e, args, site)


PURE_NAMES = {'split_at', 'split_first', 'split_last', 'first', 'last', 'get', 'len', 'is_empty', 'size_of', 'align_of', 'min', 'max', 'unwrap_or', 'from', 'into', 'try_from', 'try_into',
              'to_usize', 'encoded_fixed_size', 'elts', 'branch', 'leading_zeros', 'trailing_zeros', 'as_ref', 'as_slice',
              'as_bytes', 'deref', 'new', 'size', 'align', 'needs_drop', 'is_some', 'is_none', 'is_ok', 'is_err', 'iter',
              'into_iter', 'ok_or', 'ok', 'map_err', 'checked_add', 'checked_sub', 'checked_mul', 'checked_div',
              'saturating_add', 'saturating_sub', 'saturating_mul', 'saturating_div', 'wrapping_add', 'wrapping_sub',
              'wrapping_mul', 'from_le_bytes', 'to_le_bytes', 'count_ones', 'pow', 'max_encoded_len', 'compact_len'}


def is_pure_call(name, arg_tys):
    """the result is a function of the argument values (and the memory they point to): no `&mut` argument, a name of
    the query / conversion kind"""
    if not name:
        return False
    nm = re.sub(r'<.*$', '', name.split('::')[-1])
    if nm not in PURE_NAMES:
        return False
    return not any(t.startswith('&mut') or t.startswith('*mut') for t in arg_tys)


def _norm_field(e):
    # (AddWithOverflow(a,b)).0 == a + b   (the .1 flag is only used by the Assert)
    if e[0] == 'field' and isinstance(e[1], tuple) and e[1][0] == 'bin' and e[1][1].endswith('WithOverflow'):
        if e[2] == 0:
            return ('bin', e[1][1][:-len('WithOverflow')], e[1][2], e[1][3])
        return ('ovf', e[1][1][:-len('WithOverflow')], e[1][2], e[1][3])
    # a component of a tuple built on the spot (`let (a, b) = (x, y);`) is that component
    if e[0] == 'field' and isinstance(e[1], tuple) and e[1] and e[1][0] == 'agg' and e[1][1] == 'tuple' and isinstance(e[2], int) and e[2] < len(e[1][2]):
        return e[1][2][e[2]]
    return e


def _field_path(proj):
    out = []
    for pr in proj:
        if pr == '*':
            out.append('*')
        elif isinstance(pr, dict) and 'f' in pr:
            out.append(pr['f'])
        elif isinstance(pr, dict) and 'down' in pr:
            out.append(('down', pr['down']))
        else:
            out.append(None)
    return out


def _disjoint(proj_a, path_b):
    """two places of the same local are disjoint when their paths first differ in a field index (same prefix, no
    index / unknown projection before)"""
    a = _field_path(proj_a)
    for x, y in zip(a, path_b):
        if x is None or y is None:
            return False
        if x != y:
            return isinstance(x, int) and isinstance(y, int)
    return False


def _element_write(proj_w, path_r):
    """the write goes to an element below the place that was read (same prefix, then an index): the length of the
    slice that was read is unchanged"""
    w = _field_path(proj_w)
    if len(w) <= len(path_r):
        return False
    for x, y in zip(w, path_r):
        if x != y or x is None:
            return False
    rest = proj_w[len(path_r):]
    return any(isinstance(pr, dict) and ('idx' in pr or 'cidx' in pr) for pr in rest[:2])


def mem_leaves(e, acc=None):
    """places read by an expression whose value can change: [(base local, path)], path over '*', field indices"""
    if acc is None:
        acc = []
    if not isinstance(e, tuple) or not e:
        return acc
    k = e[0]
    if k in ('field', 'deref', 'down', 'idx', 'cidx', 'mut', 'arg'):
        path = []
        x = e
        ok = True
        while isinstance(x, tuple) and x[0] in ('field', 'deref', 'down', 'idx', 'cidx'):
            if x[0] == 'field':
                path.append(x[2])
            elif x[0] == 'deref':
                path.append('*')
            elif x[0] == 'down':
                path.append(('down', x[2]))
            else:
                path.append(None)
                if x[0] == 'idx':
                    mem_leaves(x[2], acc)
            x = x[1]
        path.reverse()
        if isinstance(x, tuple) and x and x[0] == 'mut':
            acc.append((x[1], path))
            return acc
        if isinstance(x, tuple) and x and x[0] == 'arg':
            if '*' in path:
                acc.append((x[1], path))
            return acc
        return mem_leaves(x, acc)
    for x in e[1:]:
        if isinstance(x, tuple):
            mem_leaves(x, acc)
    return acc


def strip_at(e):
    """expression without evaluation points and type annotations (for comparison / printing)"""
    if not isinstance(e, tuple):
        return e
    if e and e[0] == 'field':
        return ('field', strip_at(e[1]), e[2])
    if e and e[0] == 'call':
        if len(e) > 4 and not e[4]:
            return ('call', e[1], ('@%s' % (e[3][0],),))        # effectful call: identified by its call site
        return ('call', e[1], tuple(strip_at(a) for a in e[2]))
    if e and e[0] == 'cast':
        return ('cast', e[1], strip_at(e[2]))
    return tuple(strip_at(x) for x in e)


def call_points(e, acc=None):
    """blocks of the effectful calls whose results occur in the expression"""
    if acc is None:
        acc = set()
    if isinstance(e, tuple) and e:
        if e[0] == 'call' and len(e) > 4 and not e[4]:
            acc.add(e[3][0])
            return acc
        for x in e[1:]:
            if isinstance(x, tuple):
                call_points(x, acc)
    return acc


def leaves(e, acc=None):
    """mutable leaves of an expression: ('mut', local) and memory reads below an ('arg'|'mut') pointer"""
    if acc is None:
        acc = []
    if not isinstance(e, tuple) or not e:
        return acc
    if e[0] == 'mut':
        acc.append(e)
        return acc
    for x in e[1:]:
        if isinstance(x, tuple):
            leaves(x, acc)
    return acc


def show(e, names=None, depth=0):
    if not isinstance(e, tuple) or not e:
        return str(e)
    k = e[0]
    if depth > 12:
        return '..'
    s = lambda x: show(x, names, depth + 1)
    if k == 'c':
        return '%d:%s' % (e[1], e[2])
    if k == 'cs':
        return str(e[1]).split('::')[-1]
    if k == 'arg':
        return 'arg%d' % e[1]
    if k == 'mut':
        return 'mut:%s' % e[2]
    if k == 'bin':
        return '%s(%s, %s)' % (e[1], s(e[2]), s(e[3]))
    if k == 'ovf':
        return 'overflow?%s(%s, %s)' % (e[1], s(e[2]), s(e[3]))
    if k == 'un':
        return '%s(%s)' % (e[1], s(e[2]))
    if k == 'cast':
        return '(%s as %s)' % (s(e[2]), e[1])
    if k == 'call':
        nm = re.sub(r'<[^<>]*>', '', e[1] or '?').split('::')[-1]
        return '%s(%s)' % (nm, ', '.join(s(a) if isinstance(a, tuple) else str(a) for a in e[2]))
    if k == 'field':
        return '%s.%s' % (s(e[1]), e[2])
    if k == 'deref':
        return '*%s' % s(e[1])
    if k == 'idx':
        return '%s[%s]' % (s(e[1]), s(e[2]))
    if k == 'cidx':
        return '%s[%s]' % (s(e[1]), e[2])
    if k == 'down':
        return '(%s as %s)' % (s(e[1]), e[2])
    if k == 'len':
        return 'len(%s)' % s(e[1])
    if k == 'ref':
        return '&%s' % s(e[1])
    if k == 'discr':
        return 'discr(%s)' % s(e[1])
    if k == 'agg':
        return '%s{%s}' % (str(e[1]).split('::')[-1] if '::' not in str(e[1]) else '::'.join(str(e[1]).split('::')[-2:]), ', '.join(s(a) for a in e[2]))
    return '%s' % (k,)
