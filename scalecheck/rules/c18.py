"""C18 — length peeking and skipping agree with full decoding (DESIGN §6 C18)."""
from .common import *
from .. import shape, decshape, types as T

LEVEL = 'other'
EXPLANATION = (
    'R18.1: every DecodeLength impl of a collection decodes one Compact<u32> from the start of the slice and converts '
    'it without narrowing (u32 -> usize via From / TryFrom, no `as` to a smaller type); the wire shape of the same '
    'type is Seq(..), i.e. its first component is exactly that Compact<u32> element count (sibling agreement with the '
    'Decode term, C02). Tuple impls delegate to the DecodeLength of their first component, which is also the first '
    'component their decoder reads. R18.2: skip is overridden only by [T; N]; its override performs N skips of T in '
    'sequence propagating the first error, or a full decode, returning Ok(()) — equivalent to decoding by induction '
    'on the type; the trait default is decode(..).map(|_| ()).')
ASSUMPTIONS = ['C02 mirror (the decoder reads what the encoder writes) and C13 R13.4 (fixed size is right) are premises']


def check_skip_overrides(out, facts, S, cfg, sk):
    """every `skip` override reads exactly what `decode` reads (results discarded), with the same tag strictness"""
    # any other override is validated by the mirror rule: it must read exactly what decode reads (results discarded)
    D = decshape.DecShapes(facts, S)
    from . import c02
    for f in sk:
        imp = [i for i in facts.impls_of('Decode') if i['path'] == f.get('impl') and i['self'] == f['self']]
        if not imp:
            out.fail('R18.2', 'skip override of %s [%s]' % (f['self'], cfg), 'impl not found', f['loc'])
            continue
        ws, ts, vs = D.dec_shape(imp[0], 'skip')
        wd, td, vd = D.dec_shape(imp[0], 'decode')
        if f['self'] == '[T; N]':
            # decode of an array is decode_into of the array: compare with the type's wire shape instead
            wd = S.wire_type(T.from_json(imp[0]['self_ty']))
        a, b = c02.norm(ws), c02.norm(wd)
        ok = a == b and not c02.find_kind(a, 'opaque')
        # same strictness of tag dispatch
        if ok and f['self'] != '[T; N]':
            from . import c03
            at = [x for x in items(ts) if x[0] == 'alt']
            bt = [x for x in items(td) if x[0] == 'alt']
            if len(at) == len(bt):
                for x, y in zip(at, bt):
                    if c03.accepted_tags(x)[:2] != c03.accepted_tags(y)[:2]:
                        ok = False
            else:
                ok = False
        out.ob('R18.2', 'skip override of %s [%s]' % (f['self'], cfg), ok,
               'skip reads %s but decode reads %s (or accepts different tags / does not return Ok(()))' % (str(a)[:160], str(b)[:160]), f['loc'])


def run(cx, out):
    out.rule('R18.1', 'DecodeLength::len reads the same Compact<u32> count the type\'s wire shape starts with; tuples delegate to their first component')
    out.rule('R18.2', 'skip overridden only by arrays; override = N element skips or a full decode; default = decode + discard')
    for cfg in lib_cfgs(cx, quick=('D',), thorough=('A', 'B', 'D')):
        facts = cx.facts(cfg)
        unit(out, facts)
        S = shape.Shapes(facts)
        n_coll = n_tup = 0
        for i in facts.impls_of('DecodeLength'):
            fl = [f for f in facts.methods('DecodeLength', 'len') if f.get('impl') == i['path'] and f['self'] == i['self']]
            key = 'impl DecodeLength for %s [%s]' % (i['self'], cfg)
            if not fl:
                out.fail('R18.1', key, 'len not found', i['loc'])
                continue
            f = fl[0]
            t, v, ev = wire.infer_decoder_fn(facts, f)
            st = T.from_json(i['self_ty'])
            evs = [e for e in events(t) if e[0] not in ('?', 'CFG')]
            if st[0] == 'tuple':
                n_tup += 1
                first = st[1][0][1] if st[1] else None
                ok = len(evs) == 1 and evs[0][0] == 'dec' and evs[0][3] == 'len' and evs[0][1] == first and sym.vstr(v) == 'Ok(decoded#%s:%s)' % (evs[0][2], first)
                # and it is the first component decoded
                d = [g for g in facts.methods('Decode', 'decode') if g['self'] == i['self']]
                if ok and d:
                    t2, v2, _ = wire.infer_decoder_fn(facts, d[0])
                    decs = [e for e in events(t2) if e[0] == 'dec']
                    ok = bool(decs) and decs[0][1] == first
                out.ob('R18.1', key, ok, 'tuple length is not the length of its first component: %s -> %s' % (sym.tstr(t), sym.vstr(v)), f['loc'])
                continue
            n_coll += 1
            why = []
            if not (len(evs) == 1 and evs[0][0] == 'dec' and evs[0][1] == 'compact::Compact<u32>' and evs[0][3] == 'decode'):
                why.append('does not decode exactly one Compact<u32>: ' + sym.tstr(t))
            else:
                u = evs[0][2]
                rv = sym.vstr(v)
                # conversions only: u32::from(Compact) then usize::try_from / from / into
                narrow = contains(v, lambda x: isinstance(x, tuple) and x and x[0] == 'cast' and x[1] in ('u8', 'u16', 'i8', 'i16', 'i32'))
                arith = contains(v, lambda x: isinstance(x, tuple) and x and x[0] in ('bin', 'un'))
                based = contains(v, lambda x: isinstance(x, tuple) and len(x) > 2 and x[0] == 'decoded' and x[2] == u)
                if narrow or arith or not based:
                    why.append('count is transformed or narrowed on the way out: ' + rv)
            w = S.wire_type(st)
            if w[0] != 'seq':
                why.append('the wire shape of the type does not start with an element count: ' + shape.wshow(w))
            out.ob('R18.1', key, not why, '; '.join(why), f['loc'], sample={'term': sym.tstr(t), 'value': sym.vstr(v), 'shape': shape.wshow(w)})
        out.floor('R18.1', 'collection DecodeLength impls [%s]' % cfg, n_coll, 6)
        out.floor('R18.1', 'tuple DecodeLength impls [%s]' % cfg, n_tup, 18)
        # R18.2
        sk = [f for f in facts.methods('Decode', 'skip')]
        selfs = sorted(f['self'] for f in sk)
        out.ob('R18.2', 'skip overrides [%s]' % cfg, '[T; N]' in selfs, 'the audited [T; N] skip override disappeared', '-')
        check_skip_overrides(out, facts, S, cfg, sk)
        d = facts.trait_default('Decode', 'skip')
        if d:
            t, v, ev = wire.infer_decoder_fn(facts, d)
            decs = [e for e in events(t) if e[0] == 'dec']
            ok = len(decs) == 1 and len(events(t)) == 1 and decs[0][1] == 'Self' and decs[0][3] == 'decode' and sym.vstr(v) in ('Ok(())', 'Ok(unit)')
            out.ob('R18.2', 'Decode::skip default [%s]' % cfg, ok, 'default skip is not decode(input).map(|_| ()): %s -> %s' % (sym.tstr(t), sym.vstr(v)), d['loc'])
        else:
            out.fail('R18.2', 'Decode::skip default [%s]' % cfg, 'not found', '-')
    # premise: "the collection's true length" presupposes that the count an encoder writes is the length, not a truncation
    # of it (C15 R15.1: every narrowing of a length on an encoding path is range-checked)
    from . import shared
    shared.premises(cx, out, {'c15': {'R15.1'}})
    # derived code: a `skip` the derive macros generate must mirror the derived `decode` (derive corpus of C05)
    from . import c05 as _c05
    from .. import facts as _fm
    if not getattr(cx, 'nested', 0):
        try:
            fx, _defs = _c05.corpus_facts(cx)
            libD = cx.facts('D')
            Sx = shape.Shapes(fx)
            skx = [f for f in fx.methods('Decode', 'skip') if f['path'] not in libD.by_path]
            check_skip_overrides(out, fx, Sx, 'derive corpus', skx)
            out.count('derived skip overrides in the corpus', len(skx))
        except _fm.BuildError as e:
            out.fail('R18.2', 'derive corpus', 'corpus does not compile: %s' % str(e)[:300], '-')

