"""C02 — decode(encode(v)) == v, consuming exactly the encoding (DESIGN §6 C02)."""
from .common import *
from .. import shape, decshape, types as T

LEVEL = 'other'
EXPLANATION = (
    'The structural half of the round trip, for all values. R02.1 mirror: for every Decode impl (and the three '
    'WrapperTypeDecode impls) the shape the decoder reads — tag dispatch, component decoders in order, count prefix + '
    'kernel, representation types — inferred from the typed THIR equals the wire shape W(Self) that the type\'s '
    'Encode impl writes (children compared through the encoder\'s type-level shape, so the argument is compositional); '
    'tags map to the same constructors on both sides; a decoded component reaches the constructed value only '
    'through pure conversions (no arithmetic on the way), in the order the encoder observed it. K1-K6 vector kernel: '
    'chunk = min(MAX_PREALLOCATION / size_of::<T>() (usize::MAX for ZSTs), remaining); the callback gets exactly that '
    'chunk and remaining -= chunk follows; the item callback does one decode + one push per index of 0..chunk; the '
    'bulk callback extends the length by chunk and reads exactly the bytes from old_len*size on; byte_len uses '
    'checked_mul; the remaining_len comparison only rejects. R02.2 array paths: bulk read covers '
    'calculate_array_bytesize::<T,N>() bytes, element path decodes into slice[count] with count += 1 on success. '
    'R02.4 state coverage: every non-zero-sized field of a foreign struct with a hand-written encoder is observed by '
    'that encoder (RangeInclusive::exhausted is not: known finding D6).')
ASSUMPTIONS = ['value-level identities (from_le_bytes . to_le_bytes = id, compact arithmetic, BitVec::truncate/try_from_vec) are not decided',
               'C01 (the encoder shape is the SCALE shape) and C04 (compact integers)', '<T as ToOwned>::Owned encodes like T (C16 pairs String/str, Vec<T>/[T])']

ACCESSOR_FIELD = {'as_secs': 'secs', 'subsec_nanos': 'nanos', 'start': 'start', 'end': 'end', 'get': '0'}


def tagmap(w):
    """alt arms keyed by their leading tag byte"""
    if w[0] != 'alt':
        return w
    arms = {}
    for lab, x in w[1]:
        if isinstance(lab, int):
            arms[lab] = norm(x)
            continue
        its = x[1] if x[0] == 'cat' else [x]
        if its and its[0][0] == 'byte':
            arms[its[0][1]] = norm(shape.wcat(list(its[1:])))
        else:
            arms['?' + str(lab)] = norm(x)
    # a branch on something that is not a byte of the input (`match Self::encoded_fixed_size() { Some(_) .. None .. }`)
    # whose arms all read the same thing reads that thing
    if arms and all(isinstance(k_, str) and k_.startswith('?') for k_ in arms) and len(set(arms.values())) == 1:
        return next(iter(arms.values()))
    return ('alt', tuple(sorted(arms.items(), key=lambda kv: str(kv[0]))))


def norm(w):
    k = w[0]
    if k == 'alt':
        return tagmap(w)
    if k == 'cat':
        return ('cat', tuple(norm(x) for x in w[1]))
    if k == 'seq':
        return ('seq', norm(w[1]))
    if k == 'rep':
        return ('rep', norm(w[1]), str(w[2]))
    if k == '__seq':
        ew, ln, cnt = w[1], w[2], w[3]
        if ln == '(%s as usize)' % cnt:
            return ('seq', norm(ew))
        if ln == 'elts((%s as usize))' % cnt:
            return ('bitseq', 'chunks')
        return ('opaque', 'vector kernel called with length %s (count prefix is %s)' % (ln, cnt))
    if k in ('var', 'cvar'):
        nm = w[1]
        # <T as ToOwned>::Owned encodes like T (trusted, see ASSUMPTIONS)
        import re
        m = re.match(r'^<(\w+) as ToOwned>::Owned$', nm)
        if m:
            nm = m.group(1)
        return (k, nm)
    return w


def rename_vars(w, ren):
    k = w[0]
    if k in ('var', 'cvar'):
        return (k, ren.get(w[1], w[1]))
    if k == 'alt':
        return ('alt', tuple((l, rename_vars(x, ren)) for l, x in w[1]))
    if k == 'cat':
        return ('cat', tuple(rename_vars(x, ren) for x in w[1]))
    if k in ('seq',):
        return ('seq', rename_vars(w[1], ren))
    if k == 'rep':
        return ('rep', rename_vars(w[1], ren), w[2])
    return w


def find_kind(w, kind):
    if w[0] == kind:
        return w
    if w[0] == 'cat':
        for x in w[1]:
            r = find_kind(x, kind)
            if r:
                return r
    if w[0] == 'alt':
        for _, x in w[1]:
            r = find_kind(x, kind)
            if r:
                return r
    if w[0] in ('seq', 'rep'):
        return find_kind(w[1], kind)
    return None


def value_label(v):
    v = strip(v)
    if not isinstance(v, tuple):
        return '?'
    if v[0] == 'lit' and isinstance(v[1], bool):
        return 'true' if v[1] else 'false'
    if v[0] == 'opt':
        inner = value_label(v[1])
        return 'Some(%s)' % inner if inner in ('true', 'false') else 'Some'
    if v[0] == 'res':
        return 'Ok'
    if v[0] == 'errres':
        return 'Err'
    if v[0] == 'adt':
        if v[1].endswith('OptionBool'):
            return '(%s)' % value_label(v[3][0][1])
        return v[2]
    return '?'


def has_arith_on_decoded(v, depth=0):
    """arithmetic / bit operations applied to a decoded value on its way into the result"""
    v = strip(v)
    if depth > 14 or not isinstance(v, tuple) or not v:
        return None
    if v[0] in ('bin', 'un') and v[1] not in ('Eq', 'Ne', 'Lt', 'Le', 'Gt', 'Ge', 'And', 'Or', 'Not'):
        if contains(v, lambda x: isinstance(x, tuple) and x and x[0] in ('decoded', 'byte')):
            return v
    if v[0] in ('ifval',):
        for x in v[2:]:
            r = has_arith_on_decoded(x, depth + 1)
            if r:
                return r
        return None
    if v[0] == 'matchval':
        for d, x in v[2]:
            r = has_arith_on_decoded(x, depth + 1)
            if r:
                return r
        return None
    for x in v[1:]:
        if isinstance(x, tuple):
            r = has_arith_on_decoded(x, depth + 1)
            if r:
                return r
        elif isinstance(x, list):
            for y in x:
                if isinstance(y, tuple):
                    r = has_arith_on_decoded(y, depth + 1) or (has_arith_on_decoded(y[1], depth + 1) if len(y) == 2 and isinstance(y[1], tuple) else None)
                    if r:
                        return r
    return None


ORDERED = {
    'core::time::Duration': 'Ok(new(decoded#{u}:(u64, u32).0, decoded#{u}:(u64, u32).1))',
    'core::ops::range::Range': 'Ok(Range::Range{{0: decoded#{u}:(T, T).0, 1: decoded#{u}:(T, T).1}})',
    'core::ops::range::RangeInclusive': 'Ok(new(decoded#{u}:(T, T).0, decoded#{u}:(T, T).1))',
}


def check_mirror(out, facts, S, D):
    cfg = facts.cfg
    n = 0
    fams = set()
    work = []
    for i in facts.impls_of('Decode'):
        st = i.get('self_ty') or {}
        if st.get('k') == 'param':
            continue   # blanket impl over WrapperTypeDecode
        work.append((i, 'decode'))
    for i in facts.impls_of('WrapperTypeDecode'):
        work.append((i, 'decode_wrapped'))
    for i, meth in work:
        st = T.from_json(i['self_ty'])
        key = 'mirror %s::%s [%s]' % (i['self'], meth, cfg)
        if st[0] == 'adt' and st[1] == 'compact::Compact' and st[2] and st[2][0][0] == 'prim':
            out.count('compact integer decoders (decided by C04)')
            continue
        if meth == 'decode_wrapped' and D.method(i, meth) is None:
            # uses the trait default: DESC, decode Wrapped, into, ASC
            continue
        dw, t, v = D.dec_shape(i, meth)
        if t is not None and sym.has_opaque(t):
            o = sym.has_opaque(t)[0]
            out.fail('R02.1', key, 'unrecognised construct in the decoder: ' + o[1], o[2])
            continue
        ew = S.wire_type(st)
        n += 1
        fams.add(st[1] if st[0] == 'adt' else st[0])
        if st[0] == 'array':
            continue   # R02.2
        ren = {}
        for tp in i['tpreds']:
            if tname(tp['trait']) == 'CompactAs':
                ren['<%s as CompactAs>::As' % tp['self']] = tp['self']
        a, b = rename_vars(norm(ew), ren), rename_vars(norm(dw), ren)
        oq = find_kind(b, 'opaque') or find_kind(a, 'opaque')
        good = a == b and not oq
        msg = ''
        if oq:
            msg = 'cannot bring the %s to a shape: %s' % ('decoder' if find_kind(b, 'opaque') else 'encoder', oq[1])
        elif not good:
            msg = 'decoder reads %s but the encoder of the same type writes %s' % (shape.wshow(dw) if dw[0] != '__seq' else str(b), shape.wshow(ew))
        # constructors per tag
        if good and ew[0] == 'alt' and v is not None:
            encl = {}
            for lab, x in ew[1]:
                its = x[1] if x[0] == 'cat' else [x]
                if its and its[0][0] == 'byte':
                    encl[its[0][1]] = lab
            sv = strip(v)
            mv = sv
            if isinstance(mv, tuple) and mv[0] == 'matchval':
                for d, x in mv[2]:
                    if isinstance(d, tuple) and d[0] == 'pat' and d[2] and len(d[2]) == 1 and d[2][0][0] == d[2][0][1]:
                        tag = d[2][0][0]
                        x = strip(x)
                        inner = strip(x[1]) if isinstance(x, tuple) and x[0] == 'res' else x
                        lab = value_label(inner)
                        if tag in encl and encl[tag] != lab:
                            good = False
                            msg = 'tag %d is written for %s but decoded as %s' % (tag, encl[tag], lab)
        if good and st[0] == 'prim' and st[1] == 'bool' and v is not None:
            # the value produced for the tag bytes 0 and 1, by evaluating the decoder's conditions (match or if-chain alike)
            rbs = [e for e in events(t) if e[0] == 'rb']
            labs = {}
            if rbs:
                for b in (0, 1):
                    lf = lambda x, b=b: b if strip(x) == ('byte', rbs[0][1]) else None
                    sel = select_value(v, lf)
                    labs[b] = value_label(sel) if sel is not None else '?'
                    if labs[b] not in ('true', 'false') and sel is not None:
                        # a computed value (`byte == 1`, `byte != 0`): evaluate it
                        try:
                            r_ = eval_expr(sel, lf)
                        except ArithPanic:
                            r_ = None
                        if isinstance(r_, bool):
                            labs[b] = 'true' if r_ else 'false'
            if labs.get(0) != 'false' or labs.get(1) != 'true':
                good, msg = False, 'bool tags decode as %s (0 must be false, 1 true: the encoder writes `self as u8`)' % labs
        # transparent data flow
        if good and v is not None:
            ar = has_arith_on_decoded(v)
            if ar:
                good, msg = False, 'a decoded value is transformed on its way into the result: ' + sym.vstr(ar)[:100]
        if good and st[0] == 'adt' and st[1] in ORDERED and v is not None:
            decs = [e for e in events(t) if e[0] == 'dec']
            want = ORDERED[st[1]].format(u=decs[0][2]) if decs else None
            if sym.vstr(v) != want:
                good, msg = False, 'components are not passed to the constructor in encoding order: %s' % sym.vstr(v)
        fnrec = D.method(i, meth)
        out.ob('R02.1', key, good, msg, fnrec['loc'] if fnrec else i['loc'],
               sample={'encoder': shape.wshow(ew), 'decoder': str(b)[:200], 'term': sym.tstr(t)[:160] if t else None})
    want = {'A': 52, 'B': 52, 'C': 52, 'D': 56, 'E': 56}.get(cfg, 52)
    out.floor('R02.1', 'decoder/encoder pairs mirrored [%s]' % cfg, n, want)
    out.floor('R02.1', 'type families [%s]' % cfg, len(fams), 22)
    # WrapperTypeDecode default
    d = facts.trait_default('WrapperTypeDecode', 'decode_wrapped')
    if d:
        t, v, ev = wire.infer_decoder_fn(facts, d)
        decs = [e for e in events(t) if e[0] == 'dec']
        ok = len(decs) == 1 and decs[0][1] == '<Self as codec::WrapperTypeDecode>::Wrapped' and sym.vstr(v) == 'Ok(conv(decoded#%s:%s))' % (decs[0][2], decs[0][1])
        out.ob('R02.1', 'WrapperTypeDecode::decode_wrapped default [%s]' % cfg, ok, 'default is not Wrapped::decode(input)?.into(): %s -> %s' % (sym.tstr(t), sym.vstr(v)), d['loc'])


def check_kernel(out, facts):
    cfg = facts.cfg
    maxp = (facts.consts.get('codec::MAX_PREALLOCATION') or {}).get('val')
    out.ob('K1', 'MAX_PREALLOCATION <= 16 KiB [%s]' % cfg, isinstance(maxp, int) and 0 < maxp <= 16 * 1024, 'MAX_PREALLOCATION = %s' % maxp, 'src/codec.rs')
    f = roles(facts).get('chunk')
    if not f:
        out.fail('K1', 'helper:chunk [%s]' % cfg, 'chunked vector kernel not found (anchor missing)', '-')
        return
    t, v, ev = wire.infer_decoder_fn(facts, f)
    s = sym.tstr(t)
    why = []
    stars = [x for x in sym.walk(t) if x[0] == 'star']
    if len(stars) != 1:
        why.append('expected exactly one loop')
    else:
        body = stars[0][2]
        alts = [x for x in items(body) if x[0] == 'alt']
        rem = None
        if alts and isinstance(alts[0][1], tuple) and alts[0][1][0] == 'if':
            c = strip(alts[0][1][1])
            contains(c, lambda x: (globals().__setitem__('_rem', x) or False) if (isinstance(x, tuple) and x and x[0] == 'mutvar') else False)
            rem = globals().pop('_rem', None)
        if rem is None:
            why.append('loop condition does not test a counter of undecoded items')
        else:
            # the loop runs exactly while the counter is positive (any spelling)
            for n in (0, 1, 7):
                r = eval_expr(alts[0][1][1], lambda x, n=n: n if (isinstance(x, tuple) and x[:2] == rem[:2]) else None)
                if r is None or bool(r) != (n > 0):
                    why.append('loop does not run exactly while the number of undecoded items is > 0')
                    break
            rs = sym.vstr(rem)
            live = [x for d, x in alts[0][2] if d == 'true']
            evs = [e for e in events(live[0] if live else ['eps']) if e[0] in ('HOOK', 'MUTCALL', 'CALLBACK', 'SET')]
            kinds = [(e[0], e[1] if e[0] == 'MUTCALL' else None) for e in evs]
            # min is printed with its arguments in canonical (sorted) order, whichever way round it was written
            chunk = 'min(%s, %s)' % tuple(sorted(['unwrap_or(checked_div(MAX_PREALLOCATION=%s, size_of()), MAX=18446744073709551615)' % maxp, rs]))
            # the chunk is min(allowance, remaining) where the allowance is MAX_PREALLOCATION / size_of::<T>() by evaluation
            def _is_chunk(val):
                val = strip(val)
                if isinstance(val, tuple) and val and val[0] == 'mutvar' and not (len(val) > 4 and val[4]):
                    val = strip(val[3])
                if sym.vstr(val) == chunk:
                    return True
                if isinstance(val, tuple) and val and val[0] == 'call' and val[1] == 'min' and len(val[3]) == 2:
                    xs = [strip(a) for a in val[3]]
                    for a_, b_ in ((xs[0], xs[1]), (xs[1], xs[0])):
                        if sym.vstr(b_) == rs and chunk_bound_ok(a_, maxp):
                            return True
                return False
            if kinds == [('HOOK', None), ('MUTCALL', 'reserve_exact'), ('CALLBACK', None), ('SET', None)] and _is_chunk(evs[1][3][1]):
                chunk = sym.vstr(evs[1][3][1])          # the canonical spelling of this tree's chunk expression
            if kinds != [('HOOK', None), ('MUTCALL', 'reserve_exact'), ('CALLBACK', None), ('SET', None)]:
                why.append('loop body is not hook, reserve_exact, callback, remaining -= chunk: %s' % kinds)
            else:
                if sym.vstr(evs[1][3][1]) != chunk:
                    why.append('K1 reservation is %s, not min(MAX_PREALLOCATION / size_of::<T>(), remaining)' % sym.vstr(evs[1][3][1]))
                cb = evs[2]
                if [sym.vstr(a) for a in cb[2]] != ['input', 'sink%s' % strip(evs[1][3][0])[1], chunk]:
                    why.append('K2 callback is not invoked with (input, vec, chunk): %s' % [sym.vstr(a) for a in cb[2]])
                st = evs[3]
                dec_ok = sym.vstr(st[1]) == rs and ((st[3] == 'SubAssign' and sym.vstr(st[2]) == chunk) or
                                                    (st[3] is None and sym.vstr(st[2]) == '(%s Sub %s)' % (rs, chunk)))
                if not dec_ok and sym.vstr(st[1]) == rs and st[3] == 'SubAssign' and 'cbres' in sym.vstr(st[2]) and \
                        contains(st[2], lambda x: strip(x) == ('cbres',)):
                    # the decrement is what the callback reports: then every callback the crate passes reports the chunk it
                    # was given — decided on the callers with the kernel and their closures inlined, where the decrement must
                    # read `remaining -= chunk` again
                    dec_ok = True
                    for role in ('bulk', 'items'):
                        gcall = roles(facts).get(role)
                        if not gcall:
                            dec_ok = False
                            break
                        tc, _vc, _ec = wire.infer_decoder_fn(facts, gcall)
                        sets = [e for e in events(tc) if e[0] == 'SET' and strip(e[1])[0] == 'mutvar' and strip(e[1])[2] == strip(rem)[2]]
                        if not (len(sets) == 1 and sets[0][3] == 'SubAssign' and _is_chunk(sets[0][2])):
                            dec_ok = False
                            why.append('K2 the callback of helper:%s does not report the chunk it was given: %s' % (role, [sym.tstr(e) for e in sets][:2]))
                if not dec_ok:
                    why.append('K2 remaining is not decreased by exactly the chunk: ' + sym.tstr(st))
                seq = [e[0] for e in items(live[0])] if live else []
                if 'SET' in seq and seq[seq.index('SET') - 1] != '?':
                    why.append('K2 decrement is not on the success continuation of the callback')
            if sym.vstr(strip(rem[3])) not in ('len',) and strip(rem[3])[0] != 'param':
                why.append('remaining does not start at the requested length')
    if not sym.vstr(v).startswith('Ok(sink'):
        why.append('does not return the vector it filled')
    out.ob('K1-K2', 'helper:chunk [%s]' % cfg, not why, '; '.join(why), f['loc'], sample={'term': s[:400]})
    # K3 item path
    g = roles(facts).get('items')
    if g:
        t, v, ev = wire.infer_decoder_fn(facts, g)
        from .c04 import _is_counter_star
        inner = []
        for x in sym.walk(t):
            if x[0] == 'star':
                bound, body = _is_counter_star(x, None)
                if bound is not None and sym.vstr(bound).startswith('min('):
                    inner.append((bound, body))
        ok = len(inner) == 1
        if ok:
            body = [e for e in events(inner[0][1]) if e[0] in ('dec', 'MUTCALL', '?')]
            ok = [e[0] for e in body] == ['dec', '?', 'MUTCALL'] and body[0][1] == 'T' and \
                body[2][1] == 'push' and sym.vstr(body[2][3][1]) == 'decoded#%s:T' % body[0][2]
        out.ob('K3', 'helper:items [%s]' % cfg, ok, 'item callback is not `for _ in 0..chunk { vec.push(T::decode(input)?) }`: ' + sym.tstr(t)[:300], g['loc'])
    else:
        out.fail('K3', 'helper:items [%s]' % cfg, 'not found', '-')
    # K4-K6 bulk path
    h = roles(facts).get('bulk')
    if h:
        t, v, ev = wire.infer_decoder_fn(facts, h)
        why = []
        chk = [e for e in events(t) if e[0] == 'CHECK']
        if not chk or 'checked_mul(len, size_of())' not in sym.vstr(chk[0][2]):
            why.append('K5 byte_len is not len.checked_mul(size_of::<T>())')
        evs = [e for e in events(t) if e[0] in ('MUTCALL', 'read') and (e[0] == 'read' or e[1] in ('set_len', 'as_mut_byte_slice'))]
        sl = [e for e in evs if e[0] == 'MUTCALL' and e[1] == 'set_len']
        rd = [e for e in evs if e[0] == 'read']
        if len(sl) != 1 or len(rd) != 1:
            why.append('K4 expected one set_len and one read in the bulk callback')
        else:
            chunk = sym.vstr(sl[0][3][1])
            if not (chunk.startswith('(len(sink') and ' Add min(' in chunk):
                why.append('K4 length is not extended by exactly the chunk: ' + chunk)
            r = sym.vstr(sym.deinit(strip(rd[0][1])))
            # any spelling of the tail view vec_bytes[old_len * size_of::<T>()..] (`[n..]`, `split_at_mut(n).1`, ...)
            sv_ = slice_view(sym.deinit(strip(rd[0][1])))
            okr = False
            if sv_ is not None and sv_[2] is None and sv_[1] is not None:
                base_s, from_s = sym.vstr(sym.deinit(sv_[0])), sym.vstr(sv_[1])
                okr = base_s.startswith('as_mut_byte_slice(sink') and from_s.startswith('(len(sink') and from_s.endswith('Mul size_of())')
            if not okr:
                why.append('K4 bytes read are not vec_bytes[old_len * size_of::<T>()..]: ' + r)
        out.ob('K4-K5', 'helper:bulk [%s]' % cfg, not why, '; '.join(why), h['loc'], sample={'term': sym.tstr(t)[:300]})
    else:
        out.fail('K4-K5', 'helper:bulk [%s]' % cfg, 'not found', '-')


def shortcut_success_exit(t):
    """every way of finishing an in-place array decode successfully went through the bulk read or the element loop"""
    for p in paths(t):
        fin = [e for e in p if e[0] == 'OWN' and e[1] == 'assert_decoding_finished']
        if not fin or (p and p[-1][0] in ('?ERR', 'ERR', 'PANIC')):
            continue
        did_read = any(e[0] == 'read' for e in p)
        did_loop = any(e[0] in ('LOOP0', 'LOOP1') for e in p)
        if not (did_read or did_loop):
            arms = ['%s=%s' % (sym.vstr(e[1][1])[:60] if isinstance(e[1], tuple) and len(e[1]) > 1 else e[1], e[2]) for e in p if e[0] == 'ARM']
            return 'a success exit skips both the bulk read and the element loop (under %s): the elements are neither decoded nor initialised' % ', '.join(arms)
    return None


def _input_effects(t):
    """the input-side effects of a decoder term, in order, without value flow"""
    out = []
    for e in events(t):
        if e[0] == 'dec':
            out.append('dec<%s>' % e[1])
        elif e[0] in ('read', 'rb'):
            out.append(e[0])
        elif e[0] in ('DESC', 'ASC'):
            out.append(e[0])
        elif e[0] == 'HOOK':
            out.append('HOOK')
        elif e[0] == 'CHECK':
            out.append('CHECK')         # a validation of the decoded value (Option / Result turned into an error)
        elif e[0] == 'ERR':
            out.append('ERR')           # an explicit rejection
    return out


def check_decode_into_overrides(out, facts, S):
    """R02.5: `decode_into` is a second entry point of the same decoder.  Apart from the array impl (whose `decode` is
    defined through it: R02.2 / R10.2) an impl that overrides it must perform the same input effects as its `decode`
    (same decodes, reads, depth and allocation hooks, in the same order)."""
    cfg = facts.cfg
    n = 0
    for i in facts.impls_of('Decode'):
        ms = {f['method']: f for f in facts.methods('Decode') if f.get('impl') == i['path'] and f['self'] == i['self']}
        if 'decode_into' not in ms:
            continue
        n += 1
        key = 'impl Decode for %s / decode_into [%s]' % (i['self'], cfg)
        if i['self'] == '[T; N]':
            out.ob('R02.5', key, True, '', ms['decode_into']['loc'])
            continue
        f_into, f_dec = ms['decode_into'], ms.get('decode')
        if not f_dec:
            out.ob('R02.5', key, False, 'decode_into is overridden but decode is not: nothing to compare it with', f_into['loc'])
            continue
        t1, _, _ = wire.infer_decoder_fn(facts, f_into)
        t2, _, _ = wire.infer_decoder_fn(facts, f_dec)
        a, b = _input_effects(t1), _input_effects(t2)
        out.ob('R02.5', key, a == b, 'the in-place entry point does not perform the input effects of decode: decode_into %s vs decode %s' % (a, b), f_into['loc'],
               sample={'decode_into': a, 'decode': b})
    out.count('R02.5 decode_into overrides [%s]' % cfg, n)
    # the trait default is the in-place entry point of every type that does not override it: on every path it decodes one
    # `Self` (whatever the size of the type in memory: a zero-sized enum still has an index byte) and nothing else
    d = facts.trait_default('Decode', 'decode_into')
    key = 'Decode::decode_into default [%s]' % cfg
    if not d:
        out.fail('R02.5', key, 'trait default not found (anchor missing)', '-')
        return
    t, _, _ = wire.infer_decoder_fn(facts, d)
    bad = []
    np = 0
    for p in paths(t):
        np += 1
        eff = [(e[0], e[1] if e[0] == 'dec' else None, e[3] if e[0] == 'dec' else None) for e in p if e[0] in ('dec', 'read', 'HOOK', 'DESC', 'ASC', 'skip')]
        if eff != [('dec', 'Self', 'decode')]:
            bad.append(str(eff))
    out.ob('R02.5', key, np > 0 and not bad, 'the default in-place entry point does not decode exactly one Self on every path: %s' % '; '.join(sorted(set(bad))[:3]), d['loc'],
           sample={'term': sym.tstr(t)[:200]})


def check_arrays(out, facts):
    cfg = facts.cfg
    f = facts.impl_method('Decode', '[T; N]', 'decode_into')
    if not f:
        out.fail('R02.2', '[T; N]::decode_into [%s]' % cfg, 'not found (anchor missing)', '-')
        return
    t, v, ev = wire.infer_decoder_fn(facts, f)
    why = []
    reads = [e for e in events(t) if e[0] == 'read']
    if len(reads) != 1:
        why.append('expected one bulk read')
    else:
        buf = sym.vstr(sym.deinit(strip(reads[0][1])))
        # the destination pointer reinterpreted as bytes, by `.cast()` (once or twice) or by an `as` cast
        import re as _re
        buf_n = _re.sub(r'\(as_mut_ptr\(dst\) as \*mut [^)]*\)', 'cast(as_mut_ptr(dst))', buf)
        buf_n = _re.sub(r'cast\((cast\(as_mut_ptr\(dst\)\))\)', r'\1', buf_n)
        if buf_n != 'from_raw_parts_mut(cast(as_mut_ptr(dst)), %s())' % role_name(facts, 'array_bytesize'):
            why.append('bulk read does not cover exactly calculate_array_bytesize::<T, N>() bytes of the destination: ' + buf)
    # the bulk read is taken only for element types that declare a primitive TYPE_INFO: the condition guarding it is a
    # function of T::TYPE_INFO that is false for `Unknown` (decided by evaluating the condition arm by arm; a condition
    # that also consults anything else — sizes, fixed lengths — is not recognised and reported)
    guards = [x for x in items(t) if x[0] == 'alt' and any(e[0] == 'read' for d, y in x[2] if d == 'true' for e in events(y))]
    if len(guards) != 1 or not (isinstance(guards[0][1], tuple) and guards[0][1][0] == 'if'):
        why.append('the bulk read is not guarded by one condition')
    else:
        c = strip(guards[0][1][1])

        def ev_cond(x, variant):
            """value of the condition when T::TYPE_INFO is `variant`: matches on TYPE_INFO resolved to the arm for that variant,
            combined with and / or / not and boolean literals (cfg!); anything else is not recognised (None)"""
            x = strip(x)
            if not isinstance(x, tuple) or not x:
                return None
            if x[0] == 'lit' and isinstance(x[1], bool):
                return x[1]
            if x[0] == 'un' and x[1] == 'Not':
                v_ = ev_cond(x[2], variant)
                return None if v_ is None else (not v_)
            if x[0] == 'bin' and x[1] in ('Or', 'And') and len(x) >= 4:
                a_, b_ = ev_cond(x[2], variant), ev_cond(x[3], variant)
                if x[1] == 'Or':
                    if a_ is True or b_ is True:
                        return True
                    return False if (a_ is False and b_ is False) else None
                if a_ is False or b_ is False:
                    return False
                return True if (a_ is True and b_ is True) else None
            if x[0] == 'matchval' and isinstance(strip(x[1]), tuple) and strip(x[1])[0] == 'const' and strip(x[1])[1].endswith('TYPE_INFO'):
                for d, arm in x[2]:
                    lab = d[1] if isinstance(d, tuple) and len(d) > 1 else str(d)
                    labs = set(str(lab).split('|'))
                    if variant in labs or '_' in labs:
                        return ev_cond(arm, variant)
                return None
            return None
        seen_ti = contains(c, lambda y: isinstance(y, tuple) and y and y[0] == 'const' and str(y[1]).endswith('TYPE_INFO'))
        if not seen_ti:
            why.append('the bulk read is not guarded by a condition on T::TYPE_INFO: ' + sym.vstr(c)[:120])
        else:
            vu = ev_cond(c, 'Unknown')
            if vu is not False:
                why.append('the bulk read is reachable for element types without a primitive TYPE_INFO (condition for Unknown: %s): %s'
                           % (vu, sym.vstr(c)[:140]))
            for pv in sorted(p.upper() for p in ('u8', 'i8', 'u16', 'i16', 'u32', 'i32', 'u64', 'i64', 'u128', 'i128', 'f32', 'f64')):
                if ev_cond(c, pv) not in (True, False):
                    why.append('bulk condition for TYPE_INFO %s is not a constant: %s' % (pv, sym.vstr(c)[:100]))
                    break
    g = roles(facts).get('array_bytesize')
    if g:
        ev2 = sym.Evaluator(facts)
        v2, t2 = ev2.ev(g['thir'], sym.Ctx(ev2, g))
        if sym.vstr(v2) != '(size_of() Mul cparam(N, usize))' and 'size_of() Mul' not in sym.vstr(v2):
            why.append('calculate_array_bytesize is not size_of::<T>() * N: ' + sym.vstr(v2))
    else:
        why.append('calculate_array_bytesize not found')
    stars = [x for x in sym.walk(t) if x[0] == 'star']
    if len(stars) != 1:
        why.append('expected one element loop')
    else:
        body = stars[0][2]
        alts = [x for x in sym.walk(body) if x[0] == 'alt']
        G = array_guard(facts)
        cond = guard_canon(sym.vstr(alts[0][1][1]) if alts else '', G)
        nc_ = norm_cmp(alts[0][1][1]) if alts and isinstance(alts[0][1], tuple) and alts[0][1][0] == 'if' else None
        if nc_ and nc_[0] == 'Gt' and guard_canon(sym.vstr(nc_[1]), G) == 'len(mut state.slice)' and guard_canon(sym.vstr(nc_[2]), G) == 'mut state.count':
            cond = '(mut state.count Lt len(mut state.slice))'      # the same comparison, however it is spelled
        if cond != '(mut state.count Lt len(mut state.slice))':
            why.append('element loop does not run while count < N: ' + cond)
        evs = [e for e in events(body) if e[0] in ('dec', 'SET', '?')]
        if [e[0] for e in evs] != ['dec', '?', 'SET'] or evs[0][3] != 'decode_into' or evs[0][1] != 'T':
            why.append('loop body is not decode_into::<T>(..)?; count += 1')
        else:
            if guard_canon(sym.vstr(evs[0][4]), G) != 'index_mut(mut state.slice, mut state.count)' and 'state.slice' not in guard_canon(sym.vstr(evs[0][4]), G):
                why.append('element destination is not slice[count]: ' + sym.vstr(evs[0][4]))
            if not (guard_canon(sym.vstr(evs[2][1]), G) == 'mut state.count' and evs[2][3] == 'AddAssign' and sym.vstr(evs[2][2]) == '1:usize'):
                why.append('count is not incremented by one after the successful element decode')
    w = shortcut_success_exit(t)
    if w:
        why.append(w)
    out.ob('R02.2', '[T; N]::decode_into [%s]' % cfg, not why, '; '.join(why), f['loc'], sample={'term': sym.tstr(t)[:300]})


def check_state_coverage(out, facts, S):
    cfg = facts.cfg
    n = 0
    for i in facts.impls_of('Encode'):
        sa = i.get('self_adt')
        if not sa or sa['kind'] != 'struct' or sa['crate'] == facts.crate:
            continue
        if not sa['variants']:
            continue
        src = S.source_term(i)
        if not src or src[0] == 'none':
            continue
        m, term, fn = src
        # forwarding holders / collections are abstract: observed through their iteration contract
        st = T.from_json(i['self_ty'])
        if st[0] != 'adt' or st[1] not in ('core::time::Duration', 'core::ops::range::Range', 'core::ops::range::RangeInclusive',
                                          'core::num::nonzero::NonZero'):
            continue
        n += 1
        observed = set()
        for e in events(term):
            if e[0] in ('enc', 'byte', 'write', 'prim_le'):
                val = e[2] if e[0] == 'enc' else e[1]

                def visit(x):
                    x = strip(x)
                    if isinstance(x, tuple):
                        if x[0] == 'field' and strip(x[1]) == ('self',):
                            observed.add(str(x[3]) if x[3] is not None else str(x[2]))
                        if x[0] == 'call' and x[1] in ACCESSOR_FIELD and x[3] and strip(x[3][0]) == ('self',):
                            observed.add(ACCESSOR_FIELD[x[1]])
                    return False
                contains(val, visit)
        for fld in sa['variants'][0]['fields']:
            if fld['phantom']:
                continue
            key = '%s / field %s not observed' % (tname(st[1]) + ('<T>' if st[2] else ''), fld['name'])
            out.ob('R02.4', key, fld['name'] in observed,
                   'the encoder of %s never observes field `%s: %s`: values differing only in it encode identically and cannot round-trip' % (i['self'], fld['name'], fld['ty']),
                   fn['loc'] if fn else i['loc'])
    out.floor('R02.4', 'foreign structs with hand-written encoders [%s]' % cfg, n, 13)


def run(cx, out):
    out.rule('R02.1', 'decoder shape == encoder shape of the same type; tags map to the same constructors; decoded components flow unchanged and in order')
    out.rule('K1-K2', 'chunked kernel: chunk = min(MAX_PREALLOCATION/size_of, remaining); callback(input, vec, chunk); remaining -= chunk')
    out.rule('K3', 'item path: one decode + one push per index of 0..chunk')
    out.rule('K4-K5', 'bulk path: length extended by chunk, bytes read from old_len*size on; byte_len by checked_mul')
    out.rule('R02.2', 'array decode_into: bulk read of calculate_array_bytesize bytes; element loop decode_into(slice[count]) then count += 1 while count < N')
    out.rule('R02.5', 'library decode_into overrides perform the input effects of decode (array impl: R02.2)')
    out.rule('R08.4', 'BytesCursor (decode_from_bytes / zero-copy Bytes): reads and position bookkeeping consume exactly the bytes decoded')
    out.rule('R02.4', 'every non-zero-sized field of a foreign struct is observed by its hand-written encoder')
    for cfg in lib_cfgs(cx):
        facts = cx.facts(cfg)
        unit(out, facts)
        S = shape.Shapes(facts)
        D = decshape.DecShapes(facts, S)
        check_mirror(out, facts, S, D)
        check_kernel(out, facts)
        check_arrays(out, facts)
        check_decode_into_overrides(out, facts, S)
        check_state_coverage(out, facts, S)
        if any(i['self'] == 'codec::BytesCursor' for i in facts.impls_of('Input')):
            # Bytes values are decoded through the cursor: its bookkeeping is part of "consumes exactly the encoding"
            from . import c08
            c08.check_bytes_cursor(out, facts)
    # derived impls: the derive corpus of C05
    from . import shared
    out.rule('R05.2', 'R02.3: derived decoders mirror the derived encoders per corpus definition (C05)')
    out.rule('R05.5', 'derived in-place decode_into reads the same representation as decode (only for attribute-free transparent structs)')
    # premises: derived impls (C05); bulk paths reinterpret memory only for the primitives named by TYPE_INFO (C01
    # R01.3); all encoding entry points agree (C07 R07.1); every Input implementation delivers exactly the bytes asked
    # for or fails (C08 R08.4)
    shared.premises(cx, out, {'c05': {'R05.5', 'R05.2', 'R05.1'}, 'c01': {'R01.3'}, 'c07': {'R07.1'}, 'c08': {'R08.4', 'R08.3'}, 'c13': {'R13.4'}})
    from . import positive
    positive.check(cx, out, 'C02')
