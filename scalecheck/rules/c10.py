"""C10 — failed or panicking decodes release everything exactly once (DESIGN §6 C10)."""
from .common import *
import re
from .. import shape, types as T

LEVEL = 'other'
EXPLANATION = (
    'Safe Rust already guarantees drop-exactly-once; the property can only be broken inside unsafe regions or by '
    'leaking. R10.1 census: the set of unsafe operations in the crate (calls of unsafe functions, raw-pointer '
    'dereferences, unsafe impls/fns; from block safety and callee safety in the typed THIR) and of leak-capable calls '
    '(forget, into_raw, leak, ManuallyDrop) is exactly the audited set; a new one is a violation naming the function '
    'and callee. R10.2 array drop guard: in [T; N]::decode_into the guard State{count: 0, slice} exists before the '
    'element loop, each iteration is decode_into(slice[count])?, then count += 1 (so an error or unwind leaves count = '
    'number of initialised elements), mem::forget(state) occurs exactly once, after the loop, on the success path '
    'only, followed by the DecodeFinished token; State::drop drops exactly slice[..count], one assume_init_drop per '
    'element; the bulk path zero-fills calculate_array_bytesize bytes before exposing them and reads exactly that '
    'slice. R10.3 boxed path: the allocation is owned by a Box<MaybeUninit<T>> from right after the (null-checked) '
    'allocation; the cast to Box<T> happens only after decode_into(..)? succeeded; a zero-sized layout uses the '
    'dangling pointer without allocating. R10.4: every assume_init / assert_decoding_finished is preceded on all its '
    'paths by a full initialisation (write of the decoded value, successful decode_into of the whole place, completed '
    'guarded loop, or zero-fill + successful read). R10.5 (derived decode_into, corpus): see C05; the transparent '
    'multi-field leak is known finding D4. R10.6: the bulk vector path exposes uninitialised-length data only for '
    'element types bound by ToMutByteSlice (plain integers/floats, no Drop).')
ASSUMPTIONS = ['soundness of std / bitvec / arrayvec / byte-slice-cast internals', 'drop elaboration and unwinding semantics of rustc (a live local with a Drop impl is dropped on every exit)',
               'panics inside user Drop impls during unwinding are outside the claim']

# (function key, unsafe callee or operation) pairs audited by reading the code; reasons in DESIGN C10
AUDITED_UNSAFE = {
    ('Decode::decode_into (default)', 'assert_decoding_finished'): 'value was written to dst just before',
    ('<alloc::boxed::Box<T> as WrapperTypeDecode>::decode_wrapped', 'alloc'): 'layout has non-zero size on this branch',
    ('<alloc::boxed::Box<T> as WrapperTypeDecode>::decode_wrapped', 'from_raw'): 'memory from the global allocator with the same layout / dangling for ZST; second use after successful decode_into',
    ('helper:slice_no_len', 'transmute'): 'T is the primitive named by TYPE_INFO (C01 R01.3)',
    ('helper:slice_no_len', 'from_raw_parts'): 'byte view of the whole slice: len * size_of of the primitive named by TYPE_INFO — the length and the '
                                               'element type are decided by C01 R01.3, taken as a premise below',
    ('<[T; N] as Decode>::decode', 'assume_init'): 'decode_into succeeded',
    ('<[T; N] as Decode>::decode_into', 'write_bytes'): 'pointer to bytesize bytes of the destination',
    ('<[T; N] as Decode>::decode_into', 'from_raw_parts_mut'): 'zero-initialised just before',
    ('<[T; N] as Decode>::decode_into', 'assert_decoding_finished'): 'whole array initialised (bulk read or completed loop)',
    ('<[T; N] as Decode>::decode_into', 'deref-raw'): 'MaybeUninit<[T;N]> viewed as [MaybeUninit<T>;N]',
    ('array-guard::drop', 'assume_init_drop'): 'only the first count elements, which are initialised',
    ('helper:bulk', 'set_len'): 'within the capacity reserved by decode_vec_chunked; element type is plain data',
    ('helper:with_len', 'transmute'): 'Vec<P> -> Vec<T> with T == P by TYPE_INFO',
    ('<compact::ArrayVecWrapper<N> as Output>::write', 'set_len'): 'guarded by the capacity assert',
}
AUDITED_LEAK = {
    ('<[T; N] as Decode>::decode_into', 'forget'): 'disarms the drop guard after complete initialisation',
    ('<alloc::boxed::Box<T> as WrapperTypeDecode>::decode_wrapped', 'into_raw'): 'immediately re-wrapped by from_raw as Box<T>',
}
LEAK_NAMES = {'forget', 'into_raw', 'leak', 'into_raw_parts', 'into_raw_with_allocator', 'forget_unsized', 'into_non_null'}


def census(out, facts):
    cfg = facts.cfg
    from .c08 import _walk_thir
    seen = set()
    leaks = set()
    n_ops = 0
    G = array_guard(facts)
    for f in facts.fns:
        if not f.get('thir'):
            continue
        # a function and its closures are one unit for the audited table (closure numbering shifts when one is added)
        key = re.sub(r'::\{closure#\d+\}', '', stable_fkey(facts, f))
        if G and G.get('drop') is f:
            key = 'array-guard::drop'        # the guard is identified by structure, not by its name
        for node, parents in _walk_thir(f['thir'], [], f):
            k = node.get('k')
            if k == 'call':
                if node.get('unsafe') and not node.get('exp_fmt'):
                    # format_args!-generated `Arguments::new` is an unsafe fn behind a safe macro
                    if (node.get('f') or '').startswith('core::fmt::'):
                        continue
                    seen.add((key, node['name'], node.get('loc')))
                    n_ops += 1
                if node.get('name') in LEAK_NAMES or (node.get('name') == 'new' and 'ManuallyDrop' in (node.get('f') or '')):
                    leaks.add((key, node['name'], node.get('loc')))
            if k == 'deref':
                inner = node.get('e') or {}
                ity = inner.get('ty') or ''
                if ity.startswith('*mut') or ity.startswith('*const'):
                    seen.add((key, 'deref-raw', inner.get('loc') or f['loc']))
                    n_ops += 1
    for key, name, loc in sorted(seen, key=lambda x: (x[0], x[1], str(x[2]))):
        out.ob('R10.1', 'unsafe operation %s in %s [%s]' % (name, key, cfg), (key, name) in AUDITED_UNSAFE,
               'unaudited unsafe operation: its soundness is not covered by the typestate rules', loc or '-')
    for key, name, loc in sorted(leaks, key=lambda x: (x[0], x[1], str(x[2]))):
        out.ob('R10.1', 'leak-capable call %s in %s [%s]' % (name, key, cfg), (key, name) in AUDITED_LEAK,
               'unaudited call that can skip a destructor', loc or '-')
    out.floor('R10.1', 'unsafe operations censused [%s]' % cfg, n_ops, 30)
    # unsafe fns and unsafe impls
    ufn = sorted(fkey(f) for f in facts.fns if f.get('unsafe_fn'))
    out.ob('R10.1', 'unsafe fns [%s]' % cfg, ufn == ['<decode_finished::DecodeFinished>::assert_decoding_finished'], 'unsafe functions defined: %s' % ufn, '-')
    uimpl = [i for i in facts.impls if i.get('unsafe') and not any('derive' in x or x in ('Clone', 'Copy') for x in i.get('expn', []))]
    out.ob('R10.1', 'unsafe impls [%s]' % cfg, not uimpl, 'hand-written unsafe impls: %s' % [i['path'] for i in uimpl], '-')


def check_array(out, facts):
    cfg = facts.cfg
    f = facts.impl_method('Decode', '[T; N]', 'decode_into')
    key = '[T; N]::decode_into [%s]' % cfg
    if not f:
        out.fail('R10.2', key, 'not found (anchor missing)', '-')
        return
    t, v, ev = wire.infer_decoder_fn(facts, f)
    its = items(t)
    why = []
    G = array_guard(facts)
    if not G:
        why.append('no drop guard struct (usize counter + &mut [MaybeUninit<T>; N]) is defined in decode_into')
    kinds = [e[0] for e in its]
    stars = [i for i, e in enumerate(its) if e[0] == 'star']
    forgets_top = [i for i, e in enumerate(its) if e[0] == 'OWN' and e[1] == 'forget']
    forgets_all = [e for e in events(t) if e[0] == 'OWN' and e[1] == 'forget']
    if len(stars) != 1:
        why.append('expected exactly one element loop at top level')
    decs_all = [e for e in events(t) if e[0] == 'dec']
    stars_all = [e for e in sym.walk(t) if e[0] == 'star']
    if len(decs_all) != 1 or len(stars_all) != 1:
        why.append('elements are decoded in %d place(s) / %d loop(s): every element must be decoded by the one loop that runs under the '
                   'drop guard (a second path, e.g. a shortcut for zero-sized elements, leaks or double-drops what it decoded when it stops part-way)' % (len(decs_all), len(stars_all)))
    if len(forgets_all) != 1 or len(forgets_top) != 1:
        why.append('the guard must be disarmed (mem::forget) exactly once, unconditionally after the loop; found %d (top level %d): a missing forget double-drops, a conditional one leaks' % (len(forgets_all), len(forgets_top)))
    elif stars and not (forgets_top[0] > stars[0]):
        why.append('mem::forget(state) precedes the element loop')
    else:
        between = its[stars[0] + 1:forgets_top[0]] if stars else []
        if any(e[0] in ('RET', 'dec', 'alt') for e in between):
            why.append('something happens between the loop and mem::forget(state)')
        fa = forgets_all[0]
        st = strip(fa[3][0])
        init_v = strip(st[3]) if isinstance(st, tuple) and st[0] == 'mutvar' else None
        if not (init_v is not None and isinstance(init_v, tuple) and init_v[0] == 'adt' and G and init_v[1] == G['path']):
            why.append('mem::forget is not applied to the guard')
        else:
            init = guard_canon(sym.vstr(st[3]), G)
            if G['count_idx'] == 1:
                init = 'State::State{0: 0:usize, 1: ' if sym.vstr(dict(init_v[3]).get(1)) == '0:usize' else init
            if not init.startswith('State::State{0: 0:usize, 1: '):
                why.append('guard does not start with count = 0: ' + init[:80])
        after = its[forgets_top[0] + 1:]
        if [e[1] for e in after if e[0] == 'OWN'] != ['assert_decoding_finished']:
            why.append('DecodeFinished is not produced right after disarming the guard')
    if stars:
        body = its[stars[0]][2]
        seq = [e for e in events(body) if e[0] in ('dec', '?', 'SET', 'OWN', 'RET')]
        if [e[0] for e in seq] != ['dec', '?', 'SET']:
            why.append('loop body is not decode_into(..)?; count += 1 (the counter must be advanced only after the element is initialised): %s' % [e[0] for e in seq])
        else:
            d = seq[0]
            dst = guard_canon(sym.vstr(d[4]), G)
            if d[3] != 'decode_into' or 'state.slice' not in dst or 'state.count' not in dst:
                why.append('element destination is not state.slice[state.count]: ' + sym.vstr(d[4])[:80])
            if not (guard_canon(sym.vstr(seq[2][1]), G) == 'mut state.count' and seq[2][3] == 'AddAssign' and sym.vstr(seq[2][2]) == '1:usize'):
                why.append('counter update is not count += 1')
    from .c02 import shortcut_success_exit
    w = shortcut_success_exit(t)
    if w:
        why.append(w)
    # bulk path
    alts = [e for e in its if e[0] == 'alt']
    if not alts:
        why.append('no bulk/element split')
    else:
        bulk = None
        for d, x in alts[0][2]:
            if d == 'true':
                bulk = x
        bseq = [e for e in events(bulk) if e[0] in ('OWN', 'read', '?', 'RET')] if bulk else []
        # zero-fill through a `[MaybeUninit<u8>]` view of the same bytes (`view.fill(MaybeUninit::new(0))`) is the zero-fill
        # `ptr.write_bytes(0, n)` performs
        mseq = [e for e in events(bulk) if e[0] in ('OWN', 'MUTCALL', 'read', '?', 'RET')] if bulk else []
        for i in range(len(mseq) - 1):
            a_, b_ = mseq[i], mseq[i + 1]
            if a_[0] == 'OWN' and a_[1] == 'from_raw_parts_mut' and b_[0] == 'MUTCALL' and b_[1] == 'fill' and len(b_[3]) == 2 and \
                    sym.vstr(b_[3][1]) in ('new(0:u8)', 'MaybeUninit::new(0:u8)') and a_[5] and any('MaybeUninit<u8>' in str(x_) for x_ in a_[5]) and \
                    _is_view_of(b_[3][0], a_):
                ptr_ = strip(a_[3][0])
                if isinstance(ptr_, tuple) and ptr_ and ptr_[0] == 'call' and ptr_[1] == 'cast' and isinstance(strip(ptr_[3][0]), tuple) and strip(ptr_[3][0])[:2] == ('call', 'cast'):
                    ptr_ = strip(ptr_[3][0])        # cast of a cast
                wb_ = ['OWN', 'write_bytes', a_[2], [ptr_, ('lit', 0, 'u8', ()), a_[3][1]], a_[4], a_[5], True]
                bseq = [wb_] + [e for e in mseq[i + 2:] if e[0] in ('OWN', 'read', '?', 'RET')]
                bseq = [e for e in mseq[:i] if e[0] in ('OWN', 'read', '?', 'RET')] + bseq
                break
        names = [(e[0], e[1] if e[0] == 'OWN' else None) for e in bseq]
        if names != [('OWN', 'write_bytes'), ('OWN', 'from_raw_parts_mut'), ('read', None), ('?', None), ('OWN', 'assert_decoding_finished'), ('RET', None)]:
            why.append('bulk path is not zero-fill, view as bytes, read?, DecodeFinished: %s' % names)
        else:
            wb, fr, rd = bseq[0], bseq[1], bseq[2]
            if sym.vstr(wb[3][2]) != sym.vstr(fr[3][1]) or sym.vstr(wb[3][0]) != sym.vstr(fr[3][0]) or sym.vstr(wb[3][1]) != '0:u8':
                why.append('zero-fill and byte view do not cover the same pointer/length')
            if role_name(facts, 'array_bytesize') not in sym.vstr(fr[3][1]):
                why.append('byte length is not calculate_array_bytesize::<T, N>()')
            rb = sym.deinit(strip(rd[1]))
            if sym.vstr(rb) != sym.vstr(('call',) + tuple(fr[1:4])) and 'from_raw_parts_mut' not in sym.vstr(rb):
                why.append('bulk read does not fill the zero-initialised view')
    out.ob('R10.2', key, not why, '; '.join(why), f['loc'], sample={'term': sym.tstr(t)[:500]})
    # the guard's Drop
    drops = [G['drop']] if G and G.get('drop') else []
    if len(drops) != 1:
        out.fail('R10.2', 'State::drop [%s]' % cfg, 'drop guard impl not found (without it partially decoded elements leak on error)', '-')
    else:
        g = drops[0]
        evl = sym.Evaluator(facts)
        ctx = sym.Ctx(evl, g)
        ctx.env[g['params'][0]['v']] = ('self',)
        v2, t2 = evl.ev(g['thir'], ctx)
        why = []
        st2 = [x for x in sym.walk(t2) if x[0] == 'star']
        def _prefix_count_view(src):
            # the loop source is a view of the first `count` slots: `&mut slice[..count]`, `slice.iter_mut().take(count)`,
            # `slice[..count].iter_mut()`, `slice.split_at_mut(count).0`, ...
            x = strip(src)
            taken = None
            for _ in range(6):
                if isinstance(x, tuple) and x and x[0] == 'call' and x[1] == 'take' and len(x[3]) == 2:
                    taken = strip(x[3][1])
                    x = strip(x[3][0])
                elif isinstance(x, tuple) and x and x[0] == 'call' and x[1] in ('iter_mut', 'iter', 'into_iter') and x[3]:
                    x = strip(x[3][0])
                else:
                    break
            sv_ = slice_view(x)
            if sv_ is None:
                return False
            base, frm, to = sv_
            if frm is not None and sym.vstr(frm) not in ('0:usize', '0'):
                return False
            if taken is not None and to is None:
                to = taken
            elif taken is not None:
                return False
            return to is not None and guard_canon(sym.vstr(base), G) == 'self.slice' and guard_canon(sym.vstr(to), G) == 'self.count'
        if len(st2) != 1 or not (guard_canon(sym.vstr(st2[0][1]), G) == 'index_mut(self.slice, RangeTo::RangeTo{0: self.count})' or _prefix_count_view(st2[0][1])):
            why.append('guard does not iterate exactly slice[..count]')
        else:
            b = [e for e in events(st2[0][2]) if e[0] in ('MUTCALL', 'OWN')]
            if len(b) != 1 or b[0][1] != 'assume_init_drop' or not sym.vstr(b[0][3][0]).startswith('elem('):
                why.append('guard does not drop each initialised element exactly once')
        # the loop is skipped only when T does not need dropping (however that is spelled: early return or if-block)
        for pth in paths(t2):
            skip_ok = False
            other = []
            for e in pth:
                if e[0] == 'ARM' and isinstance(e[1], tuple) and e[1] and e[1][0] == 'if':
                    c = strip(e[1][1])
                    neg = False
                    while isinstance(c, tuple) and c and c[0] == 'un' and c[1] == 'Not':
                        c = strip(c[2])
                        neg = not neg
                    if isinstance(c, tuple) and c and c[0] == 'call' and c[1] == 'needs_drop':
                        needs = (e[2] == 'true') != neg
                        if not needs:
                            skip_ok = True
                    else:
                        other.append(sym.vstr(e[1][1])[:60])
            looped = any(e[0] in ('LOOP0', 'LOOP1') for e in pth)
            if not looped and not skip_ok:
                why.append('the guard skips dropping under a condition other than !needs_drop::<T>(): %s' % (other or 'unconditionally'))
        out.ob('R10.2', 'State::drop [%s]' % cfg, not why, '; '.join(why), g['loc'], sample={'term': sym.tstr(t2)})
    f2 = facts.impl_method('Decode', '[T; N]', 'decode')
    if f2:
        t3, v3, _ = wire.infer_decoder_fn(facts, f2)
        ok = True
        n_success = 0
        for p in paths(t3):
            seq = [e for e in p if e[0] in ('dec', '?OK', '?ERR', 'ERR', 'OWN')]
            if seq and seq[-1][0] in ('?ERR', 'ERR'):
                ok = ok and not any(e[0] == 'OWN' for e in seq)
                continue
            n_success += 1
            ok = ok and [(e[0], e[1] if e[0] == 'OWN' else None) for e in seq] == [('dec', None), ('?OK', None), ('OWN', 'assume_init')] \
                and seq[0][3] == 'decode_into' and seq[0][1] == '[T; N]'
        ok = ok and n_success >= 1
        out.ob('R10.4', '[T; N]::decode assume_init [%s]' % cfg, ok, 'assume_init is not dominated by a successful decode_into of the whole array: ' + sym.tstr(t3), f2['loc'])


def _is_view_of(v, own_ev):
    """is the value (possibly through a local binding) the slice the from_raw_parts_mut event built?"""
    x = strip(v)
    for _ in range(4):
        if isinstance(x, tuple) and x and x[0] == 'mutvar' and len(x) > 3:
            x = strip(x[3])
        else:
            break
    x = sym.deinit(x) if isinstance(x, tuple) else x
    return isinstance(x, tuple) and len(x) > 3 and x[0] == 'call' and x[1] == 'from_raw_parts_mut' and \
        [sym.vstr(a) for a in x[3]] == [sym.vstr(a) for a in own_ev[3]]


def check_box(out, facts):
    cfg = facts.cfg
    f = facts.impl_method('WrapperTypeDecode', 'alloc::boxed::Box<T>', 'decode_wrapped')
    key = 'Box<T>::decode_wrapped [%s]' % cfg
    if not f:
        out.fail('R10.3', key, 'not found (anchor missing)', '-')
        return
    t, v, ev = wire.infer_decoder_fn(facts, f)
    why = []
    for p in paths(t):
        seq = [e for e in p if e[0] in ('ALLOC', 'OWN', 'dec', '?OK', '?ERR', 'ERR', 'RET')]
        names = [(e[0], e[1]) if e[0] in ('ALLOC', 'OWN') else (e[0],) + ((e[3],) if e[0] == 'dec' else ()) for e in seq]
        if names and names[-1][0] in ('?ERR', 'ERR'):
            # error exit: if the box exists it is a Box<MaybeUninit<T>> (dropping it frees without dropping a T)
            fr = [e for e in seq if e[0] == 'OWN' and e[1] == 'from_raw']
            if len(fr) > 1:
                why.append('an error exit is reachable after the cast to Box<T>')
            al = [e for e in seq if e[0] == 'ALLOC' and e[1] == 'alloc']
            if al and not fr:
                why.append('an error exit is reachable between the raw allocation and Box::from_raw: the block is owned by nobody and leaks')
            continue
        own = [e for e in seq if e[0] in ('OWN', 'dec')]
        order = [(e[1] if e[0] == 'OWN' else 'dec_into') for e in own]
        if order != ['from_raw', 'dec_into', 'into_raw', 'from_raw']:
            why.append('success path is not from_raw(uninit) -> decode_into? -> into_raw -> from_raw(init): %s' % order)
            continue
        fr1, dc, ir, fr2 = own
        if not (fr1[5] and 'MaybeUninit<T>' in fr1[5][0]):
            why.append('the allocation is not first owned as Box<MaybeUninit<T>> (type %s)' % (fr1[5],))
        if dc[3] != 'decode_into' or 'boxed' not in sym.vstr(dc[4]):
            why.append('decode_into does not target the boxed destination')
        i_dc = p.index(dc)
        if not (i_dc + 1 < len(p) and p[i_dc + 1][0] == '?OK'):
            why.append('decode_into failure is not propagated before the cast')
        if sym.vstr(fr2[3][0]) != 'cast(into_raw(mut boxed))':
            why.append('the initialised box is not rebuilt from the same pointer: ' + sym.vstr(fr2[3][0]))
        if not (fr2[5] and fr2[5][0] == 'T'):
            why.append('final box type is %s' % (fr2[5],))
        al = [e for e in seq if e[0] == 'ALLOC' and e[1] == 'alloc']
        arms = [e for e in p if e[0] == 'ARM' and isinstance(e[1], tuple) and e[1][0] == 'if' and 'size(' in sym.vstr(e[1][1])]
        zero = any(sym.vstr(a[1][1]).endswith('Eq 0:usize)') and a[2] == 'true' for a in arms)
        if zero and al:
            why.append('allocation requested for a zero-sized layout')
        if not zero and arms and not al:
            why.append('no allocation on the non-zero-size path')
    # null check before use
    from .c08 import _walk_thir
    has_null = False
    # the function itself and the private helpers factored out of it
    bodies = [f] + [g for g in facts.fns if g is not f and g.get('thir') and g['kind'] == 'Fn' and stable_fkey(facts, g) == stable_fkey(facts, f)]
    for fb in bodies:
        for node, parents in _walk_thir(fb['thir'], [], fb):
            if node.get('k') == 'call' and node.get('name') == 'handle_alloc_error':
                conds = [p_ for p_ in parents if p_.get('k') == 'if']
                if conds and 'is_null' in str(conds[-1].get('cond')):
                    has_null = True
                # `let Some(p) = NonNull::new(ptr) else { handle_alloc_error(..) }` / the None arm of a match on it
                for p_ in parents:
                    if p_.get('k') == 'let' and p_.get('else') and 'non_null::NonNull' in str(p_.get('init')) and "'name': 'new'" in str(p_.get('init')):
                        has_null = True
                    if p_.get('k') == 'match' and 'non_null::NonNull' in str(p_.get('scrut')) and "'name': 'new'" in str(p_.get('scrut')):
                        has_null = True
    if not has_null:
        why.append('allocation result is not null-checked (handle_alloc_error under is_null)')
    out.ob('R10.3', key, not why, '; '.join(sorted(set(why))), f['loc'], sample={'term': sym.tstr(t)[:400]})
    for s in ('alloc::rc::Rc<T>', 'alloc::sync::Arc<T>'):
        g = facts.impl_method('WrapperTypeDecode', s, 'decode_wrapped')
        if g:
            t2, v2, _ = wire.infer_decoder_fn(facts, g)
            decs = [e for e in events(t2) if e[0] == 'dec']
            ok = len(decs) == 1 and decs[0][1] == 'alloc::boxed::Box<T>' and not [e for e in events(t2) if e[0] in ('OWN', 'ALLOC')]
            out.ob('R10.3', '%s::decode_wrapped delegates to Box [%s]' % (s, cfg), ok, 'does not delegate to Box<T>::decode: ' + sym.tstr(t2), g['loc'])


def check_default_decode_into(out, facts):
    cfg = facts.cfg
    d = facts.trait_default('Decode', 'decode_into')
    if not d:
        out.fail('R10.4', 'Decode::decode_into default [%s]' % cfg, 'not found', '-')
        return
    t, v, _ = wire.infer_decoder_fn(facts, d)
    # path by path: a write under a condition is not a write
    ok = True
    n_success = 0
    for p in paths(t):
        seq = [e for e in p if e[0] in ('dec', '?OK', '?ERR', 'ERR', 'MUTCALL', 'OWN')]
        names = [(e[0], e[1] if e[0] in ('MUTCALL', 'OWN') else None) for e in seq]
        if names and names[-1][0] in ('?ERR', 'ERR'):
            ok = ok and not any(e[0] == 'OWN' for e in seq)
            continue
        n_success += 1
        if names != [('dec', None), ('?OK', None), ('MUTCALL', 'write'), ('OWN', 'assert_decoding_finished')]:
            ok = False
        elif not (sym.vstr(seq[2][3][0]) == 'dst' and sym.vstr(seq[2][3][1]) == 'decoded#%s:Self' % seq[0][2]):
            ok = False
    ok = ok and n_success >= 1
    out.ob('R10.4', 'Decode::decode_into default [%s]' % cfg, ok, 'DecodeFinished is not dominated by dst.write(decoded value): ' + sym.tstr(t), d['loc'])
    # every assert_decoding_finished / assume_init* in the crate is in one of the audited functions
    allowed = {'Decode::decode_into (default)', '<[T; N] as Decode>::decode_into', '<[T; N] as Decode>::decode',
               'array-guard::drop'}
    from .c08 import _walk_thir
    G4 = array_guard(facts)
    for f in facts.fns:
        if not f.get('thir'):
            continue
        for node, _p in _walk_thir(f['thir'], [], f):
            if node.get('k') == 'call' and node.get('name') in ('assert_decoding_finished', 'assume_init', 'assume_init_drop', 'assume_init_mut', 'assume_init_ref', 'assume_init_read'):
                fk = 'array-guard::drop' if (G4 and G4.get('drop') is f) else fkey(f)
                out.ob('R10.4', '%s in %s [%s]' % (node['name'], fk, cfg), fk in allowed,
                       'initialisation is asserted in a function whose typestate is not audited', node.get('loc', f['loc']))


def check_bulk_vec(out, facts):
    cfg = facts.cfg
    f = roles(facts).get('bulk')
    if not f:
        out.fail('R10.6', 'helper:bulk [%s]' % cfg, 'bulk vector reader (bound ToMutByteSlice) not found', '-')
        return
    ok = any(p == 'T: byte_slice_cast::ToMutByteSlice' for p in f.get('preds', []))
    out.ob('R10.6', 'helper:bulk element bound [%s]' % cfg, ok,
           'set_len beyond initialised data is reachable for element types that are not plain data (bound ToMutByteSlice missing): %s' % f.get('preds'), f['loc'])
    g = facts.by_path.get('codec::decode_vec_with_len')
    if g:
        from .c08 import _walk_thir
        prims = set()
        for node, _p in _walk_thir(g['thir'], [], g):
            if node.get('k') == 'call' and node.get('name') == tname(f['path']):
                prims.add(node['ga'][0])
        want = {'u8', 'i8', 'u16', 'i16', 'u32', 'i32', 'u64', 'i64', 'u128', 'i128', 'f32', 'f64'}
        out.ob('R10.6', 'bulk reader instantiated only with primitives [%s]' % cfg, prims == want, 'read_vec_from_u8s is instantiated with %s' % sorted(prims), g['loc'])


def run(cx, out):
    out.rule('R10.1', 'unsafe operations and leak-capable calls are exactly the audited set')
    out.rule('R10.2', 'array drop guard: guard before loop, decode_into then count += 1, forget once after the loop, guard drops slice[..count]; bulk path zero-fills before exposing')
    out.rule('R10.3', 'boxed path: Box<MaybeUninit<T>> owns the allocation until decode_into succeeded; ZST uses dangling; null check')
    out.rule('R10.4', 'assume_init / DecodeFinished dominated by full initialisation; only in audited functions')
    out.rule('R10.6', 'bulk vector path limited to plain-data element types')
    for cfg in lib_cfgs(cx):
        facts = cx.facts(cfg)
        unit(out, facts)
        census(out, facts)
        check_array(out, facts)
        check_box(out, facts)
        check_default_decode_into(out, facts)
        check_bulk_vec(out, facts)
    # derived in-place decoders: the corpus of C05 (R05.5 / R10.5)
    from . import shared
    out.rule('R10.5', 'derived decode_into: no exit after a successful in-place field decode without dropping it (derive corpus of C05)')
    out.rule('R05.5', 'derived decode_into exists only for attribute-free repr(transparent) structs and decodes the fields in order')
    shared.premises(cx, out, {'c05': {'R10.5', 'R05.5'}, 'c02': {'R02.5'}, 'c01': {'R01.3'}})
