"""C17 — invalid derive input is rejected at compile time, valid input compiles (DESIGN §6 C17)."""
import itertools
import random
from .common import *
import re
from .. import witness, corpusgen, facts as factsmod
from . import c05

LEVEL = 'exploration'
EXPLANATION = (
    'An enumerated family of one-file programs deriving Encode and Decode together is compiled by the rustc front end '
    '(metadata only, nothing is run) against the crate artefacts built from the current tree. Family: enums with 2-4 '
    'variants x index source per variant {implicit, #[codec(index = k)], explicit discriminant k} x skip flag x k in '
    '{0, 1, 2, 254, 255, 256, 300}; 256 vs 257 encodable variants (and 300 variants of which 44+ are skipped); each pair '
    'of mutually exclusive field attributes on named and tuple fields of structs and of enum variants; unions; CompactAs '
    'on an enum, a unit struct, a struct with two non-skipped fields and the valid single-field shapes. The expected '
    'verdict of every program comes from an independent re-implementation of the documented index rule (attribute > '
    'discriminant > position among non-skipped variants; reject iff two non-skipped variants collide or a non-skipped '
    'index exceeds 255). A must-fail program passes iff rustc reports at least one error and every error\'s primary '
    'span, traced to the root of its macro-expansion chain, lies inside the program\'s type definition (never its '
    'wording); its minimally different twin must compile without any error.')
ASSUMPTIONS = ['definitions outside the enumerated family are not covered', 'diagnostic wording is recorded but not judged']

KS = [0, 1, 2, 254, 255, 256, 300]


def eff_indices(variants):
    pos = 0
    out = []
    for v in variants:
        if v['skip']:
            out.append(None)
            continue
        if v.get('attr') is not None:
            out.append(v['attr'])
        elif v.get('discr') is not None:
            out.append(v['discr'])
        else:
            out.append(pos)
        pos += 1
    return out


def verdict(variants):
    idx = [i for i in eff_indices(variants) if i is not None]
    if any(i > 255 for i in idx):
        return 'reject'
    if len(set(idx)) != len(idx):
        return 'reject'
    return 'accept'


def enum_src(name, variants):
    lines = ['#[derive(Encode, Decode)]', '#[codec(crate = ::parity_scale_codec)]', 'pub enum %s {' % name]
    for i, v in enumerate(variants):
        l = '    '
        if v['skip']:
            l += '#[codec(skip)] '
        if v.get('attr') is not None:
            l += '#[codec(index = %d)] ' % v['attr']
        l += 'V%d' % i
        if v.get('discr') is not None:
            l += ' = %d' % v['discr']
        lines.append(l + ',')
    lines.append('}')
    return '\n'.join(lines) + '\n'


def gen_enum_programs(tier, seed):
    progs = []
    rng = random.Random(seed)
    cases = []
    # a single encodable variant (alone, or next to skipped ones): the range check must not depend on there being a pair
    for k in (0, 255, 256, 300):
        cases.append([{'skip': False, 'attr': k, 'discr': None}])
        cases.append([{'skip': True, 'attr': None, 'discr': None}, {'skip': False, 'attr': k, 'discr': None}])
    # implicit positions count the non-skipped variants only — in the generated code and in the compile-time check of BOTH
    # derives: skipped variants in front of / between implicit ones, followed by an attribute index on either side of the
    # filtered and the unfiltered position
    S_ = {'skip': True, 'attr': None, 'discr': None}
    I_ = {'skip': False, 'attr': None, 'discr': None}
    for pre in ([S_, I_], [S_, S_, I_], [S_, I_, I_], [I_, S_, I_]):
        for k in range(0, len(pre) + 1):
            cases.append([dict(v) for v in pre] + [{'skip': False, 'attr': k, 'discr': None}])
    # systematic: two variants, every pair of (source, k) x (source, k); plus a skipped collider
    srcs = ['implicit', 'attr', 'discr']
    for sa, sb in itertools.product(srcs, srcs):
        for ka, kb in [(1, 1), (0, 1), (255, 255), (255, 256), (256, 0), (0, 0), (254, 255), (300, 2), (1, 0)]:
            va = {'skip': False, 'attr': ka if sa == 'attr' else None, 'discr': ka if sa == 'discr' else None}
            vb = {'skip': False, 'attr': kb if sb == 'attr' else None, 'discr': kb if sb == 'discr' else None}
            cases.append([va, vb])
    # attribute and discriminant on the same variant (attribute wins), skipped variants between colliders
    cases.append([{'skip': False, 'attr': 3, 'discr': 9}, {'skip': False, 'attr': None, 'discr': 3}])
    cases.append([{'skip': False, 'attr': 3, 'discr': 9}, {'skip': False, 'attr': None, 'discr': 9}])
    cases.append([{'skip': False, 'attr': 1, 'discr': None}, {'skip': True, 'attr': 1, 'discr': None}, {'skip': False, 'attr': None, 'discr': None}])
    cases.append([{'skip': False, 'attr': None, 'discr': None}, {'skip': True, 'attr': None, 'discr': None}, {'skip': False, 'attr': 1, 'discr': None}])
    cases.append([{'skip': True, 'attr': 300, 'discr': None}, {'skip': False, 'attr': None, 'discr': None}])
    cases.append([{'skip': False, 'attr': 5, 'discr': None}, {'skip': False, 'attr': None, 'discr': None}, {'skip': False, 'attr': None, 'discr': None}, {'skip': False, 'attr': 2, 'discr': None}])
    cases.append([{'skip': False, 'attr': None, 'discr': None}, {'skip': False, 'attr': None, 'discr': None}, {'skip': False, 'attr': None, 'discr': None}, {'skip': False, 'attr': 0, 'discr': None}])
    n_rand = 30 if tier == 'quick' else 320
    for _ in range(n_rand):
        nv = rng.randint(2, 4)
        vs = []
        for i in range(nv):
            s = rng.choice(srcs + ['both'])
            k = rng.choice(KS)
            k2 = rng.choice(KS)
            vs.append({'skip': rng.random() < 0.2, 'attr': k if s in ('attr', 'both') else None, 'discr': k2 if s in ('discr', 'both') else None})
        # discriminants must be distinct for rustc itself
        ds = [v['discr'] for v in vs if v['discr'] is not None]
        if len(set(ds)) != len(ds):
            continue
        cases.append(vs)
    seen = set()
    for vs in cases:
        # rustc rejects duplicate discriminants by itself (E0081): not a derive matter. Implicit discriminants continue from the previous one.
        d = []
        cur = -1
        okd = True
        for v in vs:
            cur = v['discr'] if v['discr'] is not None else cur + 1
            if cur in d:
                okd = False
            d.append(cur)
        if not okd:
            continue
        key = repr(vs)
        if key in seen:
            continue
        seen.add(key)
        progs.append({'name': 'enum_%03d' % len(progs), 'kind': 'enum-index', 'variants': vs, 'expect': verdict(vs), 'body': enum_src('E', vs)})
    if tier == 'quick':
        # keep the systematic part, cap the total
        progs = progs[:96]
    return progs


def gen_count_programs():
    progs = []
    for n, nskip, exp in ((256, 0, 'accept'), (257, 0, 'reject'), (300, 44, 'accept'), (300, 43, 'reject')):
        vs = ['    %sV%d,' % ('#[codec(skip)] ' if i >= n - nskip else '', i) for i in range(n)]
        body = '#[derive(Encode, Decode)]\n#[codec(crate = ::parity_scale_codec)]\npub enum Big {\n%s\n}\n' % '\n'.join(vs)
        progs.append({'name': 'count_%d_%d' % (n, nskip), 'kind': 'variant-count', 'expect': exp, 'body': body})
    return progs


def gen_attr_programs():
    progs = []
    attrs = {'compact': '#[codec(compact)]', 'skip': '#[codec(skip)]', 'encoded_as': '#[codec(encoded_as = "<u32 as HasCompact>::Type")]'}
    hdr = '#[derive(Encode, Decode)]\n#[codec(crate = ::parity_scale_codec)]\n'
    for a, b in itertools.combinations(sorted(attrs), 2):
        for shape_ in ('named', 'tuple', 'variant-named', 'variant-tuple'):
            for both in (True, False):
                at = attrs[a] + ' ' + attrs[b] if both else attrs[a]
                if shape_ == 'named':
                    body = hdr + 'pub struct S { %s f: u32, g: u8 }\n' % at
                elif shape_ == 'tuple':
                    body = hdr + 'pub struct S(%s u32, u8);\n' % at
                elif shape_ == 'variant-named':
                    body = hdr + 'pub enum S { A { %s f: u32 }, B }\n' % at
                else:
                    body = hdr + 'pub enum S { A(%s u32), B }\n' % at
                progs.append({'name': 'attr_%s_%s_%s_%s' % (a, b, shape_.replace('-', ''), 'both' if both else 'one'), 'kind': 'attr-conflict',
                              'expect': 'reject' if both else 'accept', 'body': body})
            # the same two attributes combined in ONE attribute list, in both orders
            for x, y in ((a, b), (b, a)):
                inner = lambda k: attrs[k][len('#[codec('):-2]
                at = '#[codec(%s, %s)]' % (inner(x), inner(y))
                body = {'named': hdr + 'pub struct S { %s f: u32, g: u8 }\n', 'tuple': hdr + 'pub struct S(%s u32, u8);\n',
                        'variant-named': hdr + 'pub enum S { A { %s f: u32 }, B }\n', 'variant-tuple': hdr + 'pub enum S { A(%s u32), B }\n'}[shape_] % at
                progs.append({'name': 'attr_list_%s_%s_%s' % (x, y, shape_.replace('-', '')), 'kind': 'attr-conflict', 'expect': 'reject', 'body': body})
    # unions
    for der in ('Encode', 'Decode', 'Encode, Decode'):
        progs.append({'name': 'union_%s' % der.replace(', ', '_'), 'kind': 'union', 'expect': 'reject',
                      'body': '#[derive(%s)]\n#[codec(crate = ::parity_scale_codec)]\npub union U { a: u32, b: u32 }\n' % der})
    progs.append({'name': 'union_twin', 'kind': 'union', 'expect': 'accept', 'body': hdr + 'pub struct U { a: u32, b: u32 }\n'})
    # CompactAs shapes
    ca = '#[derive(Encode, Decode, CompactAs)]\n#[codec(crate = ::parity_scale_codec)]\n'
    progs.append({'name': 'compactas_enum', 'kind': 'compactas', 'expect': 'reject', 'body': ca + 'pub enum C { A(u32) }\n'})
    progs.append({'name': 'compactas_unit', 'kind': 'compactas', 'expect': 'reject', 'body': ca + 'pub struct C;\n'})
    progs.append({'name': 'compactas_two', 'kind': 'compactas', 'expect': 'reject', 'body': ca + 'pub struct C(u32, u16);\n'})
    # several non-skipped fields of the SAME type (a type mismatch must not be what rejects them)
    progs.append({'name': 'compactas_two_same', 'kind': 'compactas', 'expect': 'reject', 'body': ca + 'pub struct C(u32, u32);\n'})
    progs.append({'name': 'compactas_two_same_named', 'kind': 'compactas', 'expect': 'reject', 'body': ca + 'pub struct C { a: u64, b: u64 }\n'})
    progs.append({'name': 'compactas_three_same_skip', 'kind': 'compactas', 'expect': 'reject', 'body': ca + 'pub struct C(u16, #[codec(skip)] u8, u16);\n'})
    progs.append({'name': 'compactas_one', 'kind': 'compactas', 'expect': 'accept', 'body': ca + 'pub struct C(u32);\n'})
    progs.append({'name': 'compactas_one_skip', 'kind': 'compactas', 'expect': 'accept', 'body': ca + 'pub struct C(u32, #[codec(skip)] u16);\n'})
    progs.append({'name': 'compactas_named_skip', 'kind': 'compactas', 'expect': 'accept', 'body': ca + 'pub struct C { #[codec(skip)] a: u8, b: u64 }\n'})
    # DecodeFinished cannot be forged (C10 R10.4)
    progs.append({'name': 'forge_decodefinished_ctor', 'kind': 'decode-finished', 'expect': 'reject',
                  'body': 'pub fn forge() -> parity_scale_codec::DecodeFinished { parity_scale_codec::DecodeFinished(PhantomData) }\n'})
    progs.append({'name': 'forge_decodefinished_safe_call', 'kind': 'decode-finished', 'expect': 'reject',
                  'body': 'pub fn forge() -> parity_scale_codec::DecodeFinished { parity_scale_codec::DecodeFinished::assert_decoding_finished() }\n'})
    progs.append({'name': 'forge_decodefinished_twin', 'kind': 'decode-finished', 'expect': 'accept',
                  'body': 'pub fn forge() -> parity_scale_codec::DecodeFinished { unsafe { parity_scale_codec::DecodeFinished::assert_decoding_finished() } }\n'})
    # marker traits are enforced by the type system (C12 R12.4, C13 R13.3)
    mt = '#[derive(Encode, Decode, DecodeWithMemTracking)]\n#[codec(crate = ::parity_scale_codec)]\n'
    progs.append({'name': 'memtrack_untracked_field', 'kind': 'marker', 'expect': 'reject',
                  'body': '#[derive(Encode, Decode)]\n#[codec(crate = ::parity_scale_codec)]\npub struct NoTrack(u8);\n' + mt + 'pub struct S { a: NoTrack }\n'})
    progs.append({'name': 'memtrack_tracked_field', 'kind': 'marker', 'expect': 'accept',
                  'body': mt + 'pub struct Tr(u8);\n' + mt + 'pub struct S { a: Tr }\n'})
    rep = ('#[derive(Encode, Decode)]\n#[codec(crate = ::parity_scale_codec)]\npub struct UntrackedRep(Vec<u8>);\n'
           'impl From<UntrackedRep> for W { fn from(x: UntrackedRep) -> W { W(x.0.len() as u32) } }\n'
           'impl From<W> for UntrackedRep { fn from(x: W) -> UntrackedRep { UntrackedRep(Vec::new()) } }\n'
           'impl<\'a> parity_scale_codec::EncodeAsRef<\'a, W> for UntrackedRep { type RefType = UntrackedRep; }\n'
           'impl<\'a> From<&\'a W> for UntrackedRep { fn from(x: &\'a W) -> UntrackedRep { UntrackedRep(Vec::new()) } }\n'
           'impl parity_scale_codec::HasCompact for W { type Type = UntrackedRep; }\n')
    wdef = mt + 'pub struct W(u32);\n'
    progs.append({'name': 'memtrack_untracked_compact_rep', 'kind': 'marker', 'expect': 'reject',
                  'body': wdef + rep + mt + 'pub struct S { #[codec(compact)] a: W, b: u8 }\n'})
    progs.append({'name': 'memtrack_untracked_compact_rep_variant', 'kind': 'marker', 'expect': 'reject',
                  'body': wdef + rep + mt + 'pub enum S { A(#[codec(compact)] W), B }\n'})
    progs.append({'name': 'memtrack_compact_rep_twin', 'kind': 'marker', 'expect': 'accept',
                  'body': wdef + rep + '#[derive(Encode, Decode)]\n#[codec(crate = ::parity_scale_codec)]\npub struct S { #[codec(compact)] a: W, b: u8 }\n'})
    progs.append({'name': 'memtrack_untracked_encoded_as', 'kind': 'marker', 'expect': 'reject',
                  'body': wdef + rep + mt + 'pub struct S { #[codec(encoded_as = "UntrackedRep")] a: W, b: u8 }\n'})
    progs.append({'name': 'memtrack_tracked_compact', 'kind': 'marker', 'expect': 'accept',
                  'body': mt + 'pub struct S { #[codec(compact)] a: u64, #[codec(encoded_as = "Compact<u32>")] b: u32, c: u8 }\n'})
    # the custom bound of one derive does not leak into another: `decode_bound` replaces the bounds of Decode only, so the
    # DecodeWithMemTracking impl still requires its own default bound on the parameter
    nt = '#[derive(Encode, Decode)]\n#[codec(crate = ::parity_scale_codec)]\npub struct NoTrack(Vec<u8>);\n'
    env = ('#[derive(Encode, Decode, DecodeWithMemTracking)]\n#[codec(crate = ::parity_scale_codec)]\n#[codec(decode_bound(T: Decode))]\n'
           'pub struct Env<T>(pub T);\nfn need<X: DecodeWithMemTracking>() {}\n')
    progs.append({'name': 'memtrack_decode_bound_not_tracking', 'kind': 'marker', 'expect': 'reject',
                  'body': nt + env + 'pub fn f() { need::<Env<NoTrack>>(); }\n'})
    progs.append({'name': 'memtrack_decode_bound_twin', 'kind': 'marker', 'expect': 'accept',
                  'body': nt + env + 'pub fn f() { need::<Env<u32>>(); }\n'})
    env2 = ('#[derive(Encode, Decode, DecodeWithMemTracking)]\n#[codec(crate = ::parity_scale_codec)]\n'
            '#[codec(decode_with_mem_tracking_bound(T: DecodeWithMemTracking))]\n#[codec(decode_bound(T: Decode))]\n'
            'pub struct Env<T>(pub T);\nfn need<X: DecodeWithMemTracking>() {}\n')
    progs.append({'name': 'memtrack_own_bound_enforced', 'kind': 'marker', 'expect': 'reject',
                  'body': nt + env2 + 'pub fn f() { need::<Env<NoTrack>>(); }\n'})
    progs.append({'name': 'memtrack_own_bound_twin', 'kind': 'marker', 'expect': 'accept',
                  'body': nt + env2 + 'pub fn f() { need::<Env<u64>>(); }\n'})
    # an explicit bound does not switch off the per-field check: a field of a concrete untracked type is still refused
    progs.append({'name': 'memtrack_custom_bound_untracked_field', 'kind': 'marker', 'expect': 'reject',
                  'body': nt + '#[derive(Encode, Decode, DecodeWithMemTracking)]\n#[codec(crate = ::parity_scale_codec)]\n'
                          '#[codec(decode_with_mem_tracking_bound(T: DecodeWithMemTracking))]\npub struct Env<T>(pub T, pub NoTrack);\n'})
    progs.append({'name': 'cel_option', 'kind': 'marker', 'expect': 'reject',
                  'body': 'fn need<T: parity_scale_codec::ConstEncodedLen>() {}\npub fn f() { need::<Option<u8>>(); }\n'})
    progs.append({'name': 'cel_compact', 'kind': 'marker', 'expect': 'reject',
                  'body': 'fn need<T: parity_scale_codec::ConstEncodedLen>() {}\npub fn f() { need::<Compact<u32>>(); }\n'})
    progs.append({'name': 'cel_twin', 'kind': 'marker', 'expect': 'accept',
                  'body': 'fn need<T: parity_scale_codec::ConstEncodedLen>() {}\npub fn f() { need::<[u16; 4]>(); need::<(u8, u64)>(); }\n'})
    progs.append({'name': 'memlimit_untracked', 'kind': 'marker', 'expect': 'reject',
                  'body': '#[derive(Encode, Decode)]\n#[codec(crate = ::parity_scale_codec)]\npub struct NoTrack(u8);\n'
                          'pub fn f(mut i: &[u8]) { let _ = <NoTrack as parity_scale_codec::DecodeWithMemLimit>::decode_with_mem_limit(&mut i, 10); }\n'})
    return progs


def gen_bound_programs():
    """W17.5: the where-clauses the derives generate for generic definitions are exactly what the fields require: an
    instantiation whose field types support the traits compiles (no bound on a parameter that only occurs in a skipped
    field / skipped variant / PhantomData), one that does not is rejected.  Each case = (definition, uses that must compile,
    uses that must be rejected)."""
    hdr = '#[derive(Encode, Decode)]\n#[codec(crate = ::parity_scale_codec)]\n'
    aux = ('pub struct NoCodec;\n#[derive(Default)]\npub struct DefOnly;\n' + hdr + 'pub struct NoDef(u8);\n'
           'fn enc<T: Encode>() {}\nfn dec<T: Decode>() {}\nfn mel<T: MaxEncodedLen>() {}\nfn trk<T: DecodeWithMemTracking>() {}\n')
    cases = [
        ('plain', hdr + 'pub struct G<T>(T, u8);\n', ['enc::<G<u8>>()', 'dec::<G<u8>>()', 'enc::<G<NoDef>>()'], ['enc::<G<NoCodec>>()', 'dec::<G<NoCodec>>()']),
        ('nested', hdr + 'pub struct G<T>(Vec<T>, Option<(T, u8)>);\n', ['enc::<G<u16>>()', 'dec::<G<u16>>()'], ['enc::<G<NoCodec>>()', 'dec::<G<NoCodec>>()']),
        ('named', hdr + 'pub struct G<T, U> { a: T, b: U }\n', ['enc::<G<u8, NoDef>>()', 'dec::<G<u8, NoDef>>()'], ['enc::<G<u8, NoCodec>>()', 'dec::<G<NoCodec, u8>>()']),
        ('skip_field', hdr + 'pub struct G<T> { #[codec(skip)] a: T, b: u8 }\n', ['enc::<G<NoCodec>>()', 'enc::<G<DefOnly>>()', 'dec::<G<DefOnly>>()', 'dec::<G<u8>>()'],
         ['dec::<G<NoCodec>>()', 'dec::<G<NoDef>>()']),
        ('skip_tuple_field', hdr + 'pub struct G<T>(u8, #[codec(skip)] T);\n', ['enc::<G<NoCodec>>()', 'dec::<G<DefOnly>>()'], ['dec::<G<NoCodec>>()']),
        ('phantom', hdr + 'pub struct G<T>(PhantomData<T>, u8);\n', ['enc::<G<NoCodec>>()', 'dec::<G<NoCodec>>()'], []),
        ('compact', hdr + 'pub struct G<T: HasCompact> { #[codec(compact)] a: T, b: u8 }\n', ['enc::<G<u32>>()', 'dec::<G<u32>>()', 'enc::<G<u128>>()'], []),
        ('compact_and_plain', hdr + 'pub struct G<T: HasCompact, U> { #[codec(compact)] a: T, b: U }\n', ['enc::<G<u64, u8>>()', 'dec::<G<u64, NoDef>>()'],
         ['enc::<G<u64, NoCodec>>()', 'dec::<G<u64, NoCodec>>()']),
        ('enum_plain', hdr + 'pub enum G<T, U> { A(T), B { x: U }, C }\n', ['enc::<G<u8, u16>>()', 'dec::<G<u8, NoDef>>()'], ['enc::<G<NoCodec, u8>>()', 'dec::<G<u8, NoCodec>>()']),
        ('enum_skipped_variant', hdr + 'pub enum G<T, U> { A(T), #[codec(skip)] B(U), C }\n', ['enc::<G<u8, NoCodec>>()', 'dec::<G<u8, NoCodec>>()'],
         ['enc::<G<NoCodec, u8>>()', 'dec::<G<NoCodec, u8>>()']),
        ('enum_skipped_field', hdr + 'pub enum G<T, U> { A(T, #[codec(skip)] U), C }\n', ['enc::<G<u8, NoCodec>>()', 'dec::<G<u8, DefOnly>>()'],
         ['dec::<G<u8, NoCodec>>()', 'enc::<G<NoCodec, DefOnly>>()']),
        ('recursive', hdr + 'pub struct G<T> { a: T, next: Option<Box<G<T>>> }\n', ['enc::<G<u8>>()', 'dec::<G<u8>>()'], ['enc::<G<NoCodec>>()']),
        ('where_clause', hdr + 'pub struct G<T> where T: Clone { a: T }\n', ['enc::<G<u8>>()', 'dec::<G<u8>>()'], ['enc::<G<DefOnlyClone>>()']),
        ('lifetime', '#[derive(Encode)]\n#[codec(crate = ::parity_scale_codec)]\npub struct G<\'a, T> { a: &\'a T, b: &\'a [T] }\n', ['enc::<G<\'static, u8>>()'], ['enc::<G<\'static, NoCodec>>()']),
        ('const_generic', hdr + 'pub struct G<T, const N: usize> { a: [T; N] }\n', ['enc::<G<u8, 4>>()', 'dec::<G<u8, 4>>()'], ['enc::<G<NoCodec, 4>>()']),
        ('assoc_type', 'pub trait Tr { type A; }\npub struct Im;\nimpl Tr for Im { type A = u32; }\npub struct Bad;\nimpl Tr for Bad { type A = NoCodec; }\n' + hdr +
         'pub struct G<T: Tr> { a: T::A }\n', ['enc::<G<Im>>()', 'dec::<G<Im>>()'], ['enc::<G<Bad>>()', 'dec::<G<Bad>>()']),
        ('recursive_swapped', hdr + 'pub struct G<A, B> { head: A, tail: Option<Box<G<B, A>>> }\n', ['enc::<G<u8, u16>>()', 'dec::<G<u8, u16>>()'], ['enc::<G<u8, NoCodec>>()']),
        ('recursive_enum_swapped', hdr + 'pub enum G<K, V> { Leaf(K), Node(Vec<(K, G<V, K>)>) }\n', ['enc::<G<u8, u16>>()', 'dec::<G<u8, u16>>()'], ['enc::<G<u8, NoCodec>>()']),
        ('assoc_named_like_self', 'pub trait Tr { type G; }\npub struct Im;\nimpl Tr for Im { type G = u32; }\npub struct Bad;\nimpl Tr for Bad { type G = NoCodec; }\n' + hdr +
         'pub struct G<T: Tr> { a: T::G, b: Vec<T::G> }\n', ['enc::<G<Im>>()', 'dec::<G<Im>>()'], ['enc::<G<Bad>>()']),
        ('assoc_enum_named_like_self', 'pub trait Tr { type G; }\npub struct Im;\nimpl Tr for Im { type G = u32; }\n' + hdr +
         'pub enum G<T: Tr> { A(T::G), B }\n', ['enc::<G<Im>>()', 'dec::<G<Im>>()'], []),
        ('compactas_generic', '#[derive(Encode, Decode, CompactAs)]\n#[codec(crate = ::parity_scale_codec)]\npub struct G<T>(T);\n', ['enc::<G<u32>>()', 'dec::<Compact<G<Inner>>>()', 'enc::<Compact<G<Inner>>>()'], []),
        ('compactas_generic_bound', '#[derive(Encode, Decode, CompactAs)]\n#[codec(crate = ::parity_scale_codec)]\npub struct G<T: Clone>(T);\n', ['dec::<Compact<G<Inner>>>()', 'enc::<Compact<G<Inner>>>()'], []),
        ('compactas_generic_where', '#[derive(Encode, Decode, CompactAs)]\n#[codec(crate = ::parity_scale_codec)]\npub struct G<T>(T) where T: Clone;\n', ['dec::<Compact<G<Inner>>>()', 'enc::<Compact<G<Inner>>>()'], []),
        ('compactas_generic_skip', '#[derive(Encode, Decode, CompactAs)]\n#[codec(crate = ::parity_scale_codec)]\npub struct G<T, U> where U: Default { a: T, #[codec(skip)] b: U }\n',
         ['dec::<Compact<G<Inner, DefOnly>>>()', 'enc::<Compact<G<Inner, DefOnly>>>()'], []),
        ('dumb', hdr + '#[codec(dumb_trait_bound)]\npub struct G<T>(PhantomData<T>, u8);\n', ['enc::<G<u8>>()', 'dec::<G<u8>>()'], ['enc::<G<NoCodec>>()', 'dec::<G<NoCodec>>()']),
        ('custom_bounds', hdr + '#[codec(encode_bound(T: Default))]\n#[codec(decode_bound(T: Default))]\npub struct G<T>(PhantomData<T>, u8);\n',
         ['enc::<G<DefOnly>>()', 'dec::<G<DefOnly>>()'], ['enc::<G<NoCodec>>()', 'dec::<G<NoCodec>>()']),
        # a custom bound replaces the *generated* predicates only: the definition's own where clause stays in the impl header
        # (an impl that drops it does not type-check, E0277: valid input rejected)
        ('custom_bounds_where', hdr + '#[codec(encode_bound(T: Encode))]\n#[codec(decode_bound(T: Decode))]\npub struct G<T> where T: Clone { a: T, b: u8 }\n',
         ['enc::<G<u8>>()', 'dec::<G<u8>>()'], ['enc::<G<DefOnlyClone>>()']),
        ('custom_bounds_where_const', hdr + '#[codec(encode_bound(T: Encode))]\n#[codec(decode_bound(T: Decode))]\npub enum G<T, const N: usize> where [T; N]: Default { A([T; N]), B }\n',
         ['enc::<G<u8, 4>>()', 'dec::<G<u8, 4>>()'], []),
        ('empty_bounds_where', hdr + '#[codec(encode_bound())]\n#[codec(decode_bound())]\npub struct G<T> where T: Clone { a: PhantomData<T>, b: u8 }\n',
         ['enc::<G<DefOnlyClone>>()', 'dec::<G<DefOnlyClone>>()'], []),
        ('skip_params_where', '#[derive(Encode, MaxEncodedLen)]\n#[codec(crate = ::parity_scale_codec)]\n#[codec(mel_bound(skip_type_params(T)))]\npub struct G<T> where T: Clone { a: PhantomData<T>, b: u8 }\n',
         ['mel::<G<DefOnlyClone>>()'], []),
        ('mel_bound_where', '#[derive(Encode, MaxEncodedLen)]\n#[codec(crate = ::parity_scale_codec)]\n#[codec(mel_bound(T: MaxEncodedLen))]\npub struct G<T> where T: Clone { a: T, b: u8 }\n',
         ['mel::<G<u8>>()'], []),
        ('track_bound_where', '#[derive(Encode, Decode, DecodeWithMemTracking)]\n#[codec(crate = ::parity_scale_codec)]\n#[codec(decode_with_mem_tracking_bound(T: DecodeWithMemTracking))]\npub struct G<T> where T: Clone { a: T, b: u8 }\n',
         ['trk::<G<u8>>()'], []),
        ('empty_bounds', hdr + '#[codec(encode_bound())]\n#[codec(decode_bound())]\npub struct G<T>(PhantomData<T>, u8);\n', ['enc::<G<NoCodec>>()', 'dec::<G<NoCodec>>()'], []),
        ('mel_plain', '#[derive(Encode, MaxEncodedLen)]\n#[codec(crate = ::parity_scale_codec)]\npub struct G<T>(T, u8);\n', ['mel::<G<u8>>()'], ['mel::<G<Vec<u8>>>()']),
        ('mel_skip', '#[derive(Encode, MaxEncodedLen)]\n#[codec(crate = ::parity_scale_codec)]\npub struct G<T> { #[codec(skip)] a: T, b: u8 }\n', ['mel::<G<Vec<u8>>>()', 'mel::<G<NoCodec>>()'], []),
        ('mel_skip_params', '#[derive(Encode, MaxEncodedLen)]\n#[codec(crate = ::parity_scale_codec)]\n#[codec(mel_bound(skip_type_params(T)))]\npub struct G<T>(PhantomData<T>, u8);\n', ['mel::<G<NoCodec>>()'], []),
        ('track_plain', '#[derive(Encode, Decode, DecodeWithMemTracking)]\n#[codec(crate = ::parity_scale_codec)]\npub struct G<T>(T, u8);\n', ['trk::<G<u8>>()', 'trk::<G<Vec<u8>>>()'], ['trk::<G<NoDef>>()']),
        ('track_skip', '#[derive(Encode, Decode, DecodeWithMemTracking)]\n#[codec(crate = ::parity_scale_codec)]\npub struct G<T> { #[codec(skip)] a: T, b: u8 }\n', ['trk::<G<DefOnly>>()'], []),
    ]
    aux2 = ('#[derive(Default, Clone)]\npub struct DefOnlyClone;\n'
            '#[derive(Encode, Decode, CompactAs, Clone)]\n#[codec(crate = ::parity_scale_codec)]\npub struct Inner(u32);\n')
    progs = []
    for name, defn, ok_uses, bad_uses in cases:
        progs.append({'name': 'bound_%s_ok' % name, 'kind': 'bounds', 'expect': 'accept',
                      'body': aux + aux2 + defn + 'pub fn f() { %s }\n' % ' '.join(u + ';' for u in ok_uses)})
        for i, u in enumerate(bad_uses):
            progs.append({'name': 'bound_%s_bad%d' % (name, i), 'kind': 'bounds', 'expect': 'reject',
                          'body': aux + aux2 + defn + 'pub fn f() { %s; }\n' % u})
    return progs


RESERVED = re.compile(r'^__codec_\w+_edqy$|^__Codec\w+Edqy$')


def gen_hygiene_programs(fx):
    """W17.4: the derives splice user expressions (explicit discriminants) into generated code.  Every value item the
    generated code of the corpus declares (read off the corpus facts: constants / functions inside derive-generated blocks),
    unless it follows the reserved mangling `__codec_*_edqy`, is used as the name of a user constant in a discriminant: the
    definition must still compile, and the index check must still see the user's value"""
    names = set()
    for f in fx.fns:
        if f['kind'] not in ('Const', 'Fn', 'Static'):
            continue
        comps = f['path'].split('::')
        if '_' not in comps[:-1]:
            continue
        nm = comps[-1]
        if not re.match(r'^[A-Za-z_][A-Za-z0-9_]*$', nm) or nm == '_' or RESERVED.match(nm):
            continue
        names.add(nm)
    progs = []
    hdr = '#[derive(Encode, Decode)]\n#[codec(crate = ::parity_scale_codec)]\n'
    for nm in sorted(names):
        progs.append({'name': 'hyg_ok_' + nm, 'kind': 'hygiene', 'expect': 'accept',
                      'body': 'pub const %s: isize = 7;\n%spub enum E { A = %s, #[codec(index = 2)] B = 9 }\n' % (nm, hdr, nm)})
        progs.append({'name': 'hyg_dup_' + nm, 'kind': 'hygiene', 'expect': 'reject',
                      'body': 'pub const %s: isize = 3;\n%spub enum E { A = %s, #[codec(index = 3)] B = 9 }\n' % (nm, hdr, nm)})
    return progs, sorted(names)


DERIVES = ('Encode', 'Decode', 'DecodeWithMemTracking', 'CompactAs')


def check_reexports(cx, out):
    """W17.6: `#[derive(parity_scale_codec::X)]` on a valid definition compiles only if the library re-exports the macro in the
    feature configuration at hand.  Read from the resolved crate root (glob imports expanded) of three configurations."""
    cfgs = ['G', 'D'] if cx.tier == 'quick' else ['G', 'D', 'E', 'A']
    cx.need(cfgs)
    for cfg in cfgs:
        fx = cx.facts(cfg)
        ex = fx.root_exports
        if ex is None:
            out.fail('W17.6', 'crate root exports [%s]' % cfg, 'the fact file has no root export table (anchor missing)', 'src/lib.rs')
            continue
        macros = {e['name'] for e in ex if e['public'] and e['kind'] == 'Macro(Derive)'}
        want = set(DERIVES) if cfg != 'A' else set()
        if cfg in ('D', 'E'):
            want.add('MaxEncodedLen')
        for name in sorted(want):
            out.ob('W17.6', 'derive macro %s re-exported [%s]' % (name, cfg), name in macros,
                   'with the features of configuration %s a definition using #[derive(parity_scale_codec::%s)] is rejected: the macro is not '
                   'exported from the crate root (exported derive macros: %s)' % (cfg, name, sorted(macros)), 'src/lib.rs')
        if cfg == 'A':
            out.ob('W17.6', 'no derive macros without the feature [A]', not macros, 'derive macros exported without feature derive: %s' % sorted(macros), 'src/lib.rs')
    out.floor('W17.6', 'configurations whose crate root was read', len(cfgs), 2)
    # W17.7: which definitions the macros accept, and what they generate, does not depend on the features the derive crate
    # itself was built with: every function of the derive crate has the same body with all features and with `derive`
    # alone (a `cfg!(feature = ..)` in a shared function shows up as a different body); only the MaxEncodedLen derive's own
    # items may be missing
    from . import c20
    fd, fg = cx.facts('D', 'parity_scale_codec_derive'), cx.facts('G', 'parity_scale_codec_derive')
    n = c20.compare(out, fd, fg, 'W17.7', [], [r'max_encoded_len', r'custom_mel_trait_bound'], [], 'derive crate D~G')
    out.floor('W17.7', 'derive crate functions compared between feature sets', n, 60)


def run(cx, out):
    out.rule('W17.5', 'generated where-clauses: instantiations whose field types support the traits compile, others are rejected (skipped fields / variants, PhantomData, compact, custom bounds)')
    out.rule('W17.4', 'hygiene: a user constant named like any item the generated code declares is still the one a discriminant refers to')
    out.rule('W17.1', 'enum index programs: verdict of the front end == independent index rule; errors located in the definition')
    out.rule('W17.2', 'variant-count, attribute-conflict, union, CompactAs-shape programs and their twins')
    out.rule('W17.3', 'type-level witnesses: DecodeFinished cannot be forged; marker traits are enforced')
    out.rule('W17.6', 'the derive macros are reachable through the library whenever its feature `derive` is on (MaxEncodedLen: together with `max-encoded-len`)')
    out.rule('W17.7', 'the derive crate accepts and generates the same with all features and with `derive` alone (bodies compared per function)')
    check_reexports(cx, out)
    # the artefacts come from the corpus fixture build of the current tree
    cx.need(['D'])
    from .. import facts as _fm
    try:
        fx, defs = c05.corpus_facts(cx, need_artefacts=True)
    except _fm.BuildError as e:
        out.fail('W17.2', 'derive corpus compiles', 'valid input is rejected: a definition of the derive corpus no longer compiles: %s' % c05._first_error(str(e)), 'corpus')
        return
    hyg, hyg_names = gen_hygiene_programs(fx)
    out.floor('W17.4', 'value items declared by generated code (names probed)', len(hyg_names), 5)
    progs = gen_enum_programs(cx.tier, cx.seed) + gen_count_programs() + gen_attr_programs() + hyg + gen_bound_programs()
    witness.run_programs(progs, cx.tier)
    out.units.add('witness programs (rustc --emit=metadata) against artefacts of the current tree')
    n_rej = n_acc = 0
    for p in progs:
        rule = {'enum-index': 'W17.1', 'decode-finished': 'W17.3', 'marker': 'W17.3', 'hygiene': 'W17.4', 'bounds': 'W17.5'}.get(p['kind'], 'W17.2')
        errs = p['errors']
        key = '%s (%s)' % (p['name'], p['kind'])
        if p['expect'] == 'accept':
            n_acc += 1
            out.ob(rule, key, not errs and p['rc'] == 0,
                   'a valid definition is rejected: %s' % (errs[0]['msg'] if errs else 'rustc exit %s' % p['rc']), 'witness:%s.rs' % p['name'],
                   sample={'program': p['body'][-400:], 'expect': 'compiles', 'errors': errs[:2]})
        else:
            n_rej += 1
            inside = [e for e in errs if e['file'] == p['name'] + '.rs' and e['line'] > witness.PRELUDE_LINES]
            outside = [e for e in errs if e not in inside]
            ok = bool(errs) and not outside
            why = ''
            if not errs:
                why = 'an invalid definition compiles without error'
            elif outside:
                why = 'rejected, but by an error outside the definition: %s' % outside[0]['msg']
            out.ob(rule, key, ok, why, 'witness:%s.rs' % p['name'],
                   sample={'program': p['body'][-400:], 'expect': 'rejected', 'errors': errs[:2]})
    out.floor('W17.1', 'must-fail programs', n_rej, 40)
    out.floor('W17.1', 'must-compile programs (twins)', n_acc, 30)
    out.n_programs = len(progs)
    out.distinct = len({p['body'] for p in progs})
    out.witness_samples = [{'name': p['name'], 'expect': p['expect'], 'errors': [(e['code'], e['msg'][:80]) for e in p['errors'][:1]]} for p in progs[:12]]


def extra_coverage(out):
    return {'evaluations': getattr(out, 'n_programs', 1), 'distinct_nontrivial': max(getattr(out, 'distinct', 2), 2),
            'rule': 'one evaluation = one generated program compiled by the rustc front end; distinct = distinct program texts; every program is non-trivial: '
                    'it is either a must-fail definition or the minimally different twin that must compile',
            'samples': getattr(out, 'witness_samples', [{'note': 'none'}])}
