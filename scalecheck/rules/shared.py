"""Premise sharing between properties.  A rule that belongs to one property is often a premise of another ("the bytes a
value encodes to" presupposes that all entry points agree; "failed reads add nothing to the count" presupposes that a
failed read consumes nothing).  The dependent property's check evaluates the owner's rules too and reports them under
their original rule ids.  The owner's run is evaluated once per check process (memoised on the run context); premise
absorption is not transitive (a nested run evaluates the owner's own rules only), so there are no cycles."""
import importlib

from ..report import Out


def owner_run(cx, owner):
    cache = cx.__dict__.setdefault('_owner_runs', {})
    if owner in cache:
        return cache[owner]
    mod = importlib.import_module('scalecheck.rules.' + owner)
    sub = Out(owner.upper())
    cx.nested = getattr(cx, 'nested', 0) + 1
    try:
        mod.run(cx, sub)
    finally:
        cx.nested -= 1
    cache[owner] = sub
    return sub


def premises(cx, out, wanted):
    """wanted: {owner module name: {rule ids}}; no-op inside a nested run"""
    if getattr(cx, 'nested', 0):
        return
    for owner, rules in wanted.items():
        sub = owner_run(cx, owner)
        for r in sorted(rules):
            if r in sub.rule_texts and r not in out.rule_texts:
                out.rule(r, sub.rule_texts[r] + ' (rule of %s, a premise of this property)' % owner.upper())
        out.absorb(sub, set(rules))
        # fail closed: a premise rule the owner's run never evaluated (its fixture did not build, an anchor disappeared, the
        # run stopped early) must not count as holding
        for r in sorted(rules):
            if sub.by_rule.get(r, [0, 0])[0] == 0:
                why = [f for f in sub.findings]
                msg = ('%s [%s] %s' % (why[0].rule, why[0].key, why[0].msg))[:400] if why else 'the run of %s produced no obligation for it' % owner.upper()
                out.fail(r, 'premise %s of %s evaluated' % (r, owner.upper()), 'the premise was not evaluated: ' + msg, why[0].loc if why else '-')
        for u in sub.units:
            out.units.add(u)
