"""C06 — encoding depends only on logical content (DESIGN §6 C06)."""
from .common import *
from .. import shape, types as T

LEVEL = 'other'
EXPLANATION = (
    'Non-interference argument carried statically: if everything an encoder writes is computed from `self` through '
    'observers whose result is a function of logical content by the library\'s documented contract, the encoding is a '
    'function of logical content for every construction history. R06.1 observer classification: in the symbolic term '
    'of every Encode impl (and the helpers inlined into it) every library call that takes a value derived from self '
    'is classified; logical observers (len, iter, as_slices, deref, as_bytes, as_bitslice, chunks, get, as_secs, '
    'subsec_nanos, start, end, index, ...) are accepted, layout/history observers (capacity, as_ptr, as_raw_slice, '
    'domain, bit_domain, as_bitptr, spare_capacity_mut, strong_count, weak_count, ptr_eq, matching on '
    'Cow::Borrowed/Owned, ...) are violations, and any other method on a container/holder receiver is reported as an '
    'unclassified observer (fail closed). R06.2 no ambient state: no statics, thread-locals, time/env/thread/random '
    'APIs or pointer-to-integer casts in encoders. R06.3 logical order idioms (VecDeque: as_slices().0 then .1; '
    'BitSlice: chunks of the bit slice into a zero-initialised element; collections: iter() forward) — the shape rule '
    'of C01 evaluated here as well. R06.4 holders are transparent: the WrapperTypeEncode impls are the audited set '
    'and the blanket impl forwards to **self (C07 R07.1).')
ASSUMPTIONS = ['the library observers honour their documented contracts',
               'BinaryHeap is encoded in iter() order, which is its internal array order: the property statement does not enumerate heaps and C02 asks only multiset equality, so it is reported in the evidence, not as a violation']

LOGICAL = {
    'len', 'iter', 'as_slices', 'deref', 'as_ref', 'borrow', 'as_bytes', 'as_bitslice', 'chunks', 'get', 'as_secs', 'subsec_nanos',
    'start', 'end', 'into_iter', 'index', 'is_empty', 'encode_as', 'leading_zeros', 'to_le_bytes', 'from', 'into', 'transmute',
    'as_byte_slice', 'as_slice', 'as_str', 'count', 'shl', 'shr', 'clone', 'cloned', 'copied', 'first', 'last', 'size_of_val', 'next',
    'view_bits', 'try_from', 'try_into', 'unwrap_or', 'min', 'max', 'saturating_mul', 'saturating_add', 'checked_mul', 'bitor', 'bitand',
    'eq', 'ne', 'le', 'lt', 'ge', 'gt', 'not', 'as_bits', 'by_refs', 'by_vals', 'to_owned', 'get_ref',
    'copy_from_bitslice', 'clone_from_bitslice', 'view_bits_mut', 'index_mut',
}
FORBIDDEN = {
    'capacity', 'as_ptr', 'as_mut_ptr', 'as_raw_slice', 'as_raw_mut_slice', 'domain', 'domain_mut', 'bit_domain', 'bit_domain_mut', 'as_bitptr',
    'as_mut_bitptr', 'as_bitptr_range', 'spare_capacity_mut', 'strong_count', 'weak_count', 'ptr_eq', 'as_non_null', 'addr', 'expose_provenance',
    'expose_addr', 'to_raw_parts', 'into_raw_parts', 'load_value', 'load', 'head', 'into_raw', 'as_raw', 'get_unchecked', 'from_raw_parts',
    'allocation_size', 'into_boxed_slice', 'leak', 'is_unique', 'get_mut_unchecked', 'as_ptr_range', 'align_to', 'is_borrowed', 'is_owned',
}
CONTAINER_PREFIX = ('alloc::', 'bitvec::', 'bytes::', 'core::slice', 'core::str', 'generic_array::', 'core::time', 'core::ops::range',
                    'core::num::nonzero', 'core::cell', 'arrayvec::')
AMBIENT = ('std::time', 'std::env', 'std::thread', 'std::process', 'core::sync::atomic', 'std::sync', 'std::fs', 'std::net', 'rand::',
           'std::collections::hash', 'core::hash', 'std::hash')
AUDITED_WRAPPERS = {'alloc::boxed::Box<T>', '&T', '&mut T', "alloc::borrow::Cow<'_, T>", 'alloc::rc::Rc<T>', 'alloc::sync::Arc<T>',
                    'alloc::string::String', 'alloc::vec::Vec<T>', "encode_like::Ref<'_, T, U>", 'bytes::bytes::Bytes'}


def derives_from_self(v):
    return contains(v, lambda x: x == ('self',) or (isinstance(x, tuple) and x and x[0] == 'elem'))


def observer_calls(v, acc, depth=0):
    v = strip(v)
    if depth > 18 or not isinstance(v, tuple) or not v:
        return
    if whole_byte_view(v) is not None:
        # the bytes of the whole slice, in order: a view of the content (as `as_byte_slice` is), not of where it lives
        return
    if v[0] == 'call' and len(v) > 3 and any(derives_from_self(a) for a in v[3]):
        acc.append(v)
    for x in v[1:]:
        if isinstance(x, tuple):
            observer_calls(x, acc, depth + 1)
        elif isinstance(x, list):
            for y in x:
                if isinstance(y, tuple):
                    observer_calls(y, acc, depth + 1)
                    if len(y) == 2 and isinstance(y[1], tuple):
                        observer_calls(y[1], acc, depth + 1)


def term_values(t):
    vals = []
    for e in sym.walk(t):
        k = e[0]
        if k in ('byte', 'write', 'HOOK', 'read'):
            vals.append(e[1])
        elif k in ('enc',):
            vals.append(e[2])
        elif k == 'prim_le':
            vals.append(e[1])
        elif k == 'alt':
            vals.append(e[1] if not (isinstance(e[1], tuple) and e[1] and e[1][0] == 'if') else e[1][1])
            for d, _ in e[2]:
                if isinstance(d, tuple) and d[0] == 'guard':
                    vals.append(d[2])
        elif k == 'star':
            vals.append(e[1])
        elif k == 'MUTCALL':
            vals.append(('call', e[1], e[2], list(e[3]), e[5] if len(e) > 5 else (), None, e[4]))
        elif k == 'SET':
            vals.append(e[2])
    return vals


def check_observers(out, facts, S):
    cfg = facts.cfg
    n_calls = 0
    seen_names = {}
    for i in facts.impls_of('Encode'):
        ms = S.methods_of(i)
        for m in wire.ENC_METHODS:
            if m not in ms:
                continue
            fn = ms[m]
            t, v, _ = wire.infer_encoder_method(facts, fn, S.ev)
            key0 = '%s [%s]' % (fkey(fn), cfg)
            if sym.has_opaque(t):
                o = sym.has_opaque(t)[0]
                out.fail('R06.1', key0 + '/recognised', 'unrecognised construct: ' + o[1], o[2])
                continue
            calls = []
            for val in term_values(t) + [v]:
                observer_calls(val, calls)
            bad = []
            for c in calls:
                name, f = c[1], c[2]
                n_calls += 1
                seen_names[name] = seen_names.get(name, 0) + 1
                if name in FORBIDDEN:
                    bad.append('layout/history observer `%s` (%s) is applied to (a part of) self' % (name, f))
                elif name in LOGICAL:
                    continue
                elif f.startswith(CONTAINER_PREFIX):
                    bad.append('unclassified observer `%s` (%s) on a library container or holder' % (name, f))
            # Cow / pointer variant inspection
            for e in sym.walk(t):
                if e[0] == 'alt':
                    labs = [d[1] for d, _ in e[2] if isinstance(d, tuple) and d[0] == 'pat']
                    if any(l in ('Borrowed', 'Owned') for l in labs):
                        bad.append('encoder distinguishes Cow::Borrowed from Cow::Owned')
            out.ob('R06.1', key0, not bad, '; '.join(sorted(set(bad))[:3]), fn['loc'])
    out.floor('R06.1', 'observer calls on self classified [%s]' % cfg, n_calls, 60)
    out.instances['observers seen [%s]' % cfg] = dict(sorted(seen_names.items()))
    bh = [i for i in facts.impls_of('Encode') if 'BinaryHeap' in i['self']]
    if bh:
        out.note('BinaryHeap is encoded in iter() order (internal array order, depends on push history): outside the enumerated scope of C06, see ASSUMPTIONS')


def check_ambient(out, facts, S):
    cfg = facts.cfg
    from .c08 import _walk_thir
    fns = []
    for i in facts.impls_of('Encode'):
        ms = S.methods_of(i)
        for m, fn in ms.items():
            fns.append(fn)
            fns.extend(facts.closures_of(fn))
    for p in ('codec::encode_slice_no_len', 'codec::compact_encode_len_to'):
        if p in facts.by_path:
            fns.append(facts.by_path[p])
    n = 0
    for fn in fns:
        if not fn.get('thir'):
            continue
        bad = []
        for node, parents in _walk_thir(fn['thir'], [], fn):
            n += 1
            k = node.get('k')
            if k in ('static', 'tls'):
                bad.append('reads static/thread-local %s' % node.get('path'))
            if k == 'call' and (node.get('f') or '').startswith(AMBIENT):
                bad.append('calls ambient-state API %s' % node['f'])
            if k == 'cast':
                fr, to = node.get('from') or '', node.get('ty') or ''
                if (fr.startswith('*') or fr.startswith('&')) and to in ('usize', 'u64', 'isize', 'i64', 'u32', 'u128'):
                    bad.append('casts a pointer to an integer')
            if k == 'call' and node.get('name') in ('addr', 'expose_provenance', 'expose_addr'):
                bad.append('takes the address of a value')
        out.ob('R06.2', '%s [%s]' % (fkey(fn), cfg), not bad, '; '.join(sorted(set(bad))), fn['loc'])
    out.count('THIR nodes scanned for ambient state', n)


def check_wrappers(out, facts):
    cfg = facts.cfg
    ws = facts.impls_of('WrapperTypeEncode')
    for i in ws:
        out.ob('R06.4', 'WrapperTypeEncode for %s [%s]' % (i['self'], cfg), i['self'] in AUDITED_WRAPPERS,
               'unaudited holder type: its Deref::Target is assumed to be the plain value', i['loc'])
    want = {'A': 9, 'B': 9, 'C': 9, 'D': 10, 'E': 10}.get(cfg, 9)
    out.floor('R06.4', 'WrapperTypeEncode impls [%s]' % cfg, len(ws), want)
    # local holder `Ref`: Deref::Target is the first parameter and deref returns the wrapped reference
    for f in facts.fns:
        if f['kind'] == 'AssocFn' and f.get('trait') == 'core::ops::deref::Deref' and f['method'] == 'deref':
            ev = sym.Evaluator(facts)
            ctx = sym.Ctx(ev, f)
            ctx.env[f['params'][0]['v']] = ('self',)
            v, t = ev.ev(f['thir'], ctx)
            out.ob('R06.4', 'Deref for %s [%s]' % (f['self'], cfg), sym.vstr(v) == 'self.0' and t == ['eps'], 'deref does not return the wrapped value: ' + sym.vstr(v), f['loc'])


def run(cx, out):
    out.rule('R06.1', 'library calls applied to self in encoders are logical observers; layout/history observers forbidden; unclassified fail closed')
    out.rule('R06.2', 'no ambient state (statics, TLS, time/env/thread/random, pointer-to-integer casts) in encoders')
    out.rule('R06.3', 'logical order idioms = C01 R01.1 shapes (VecDeque halves in order, BitSlice re-chunked from the logical start, forward iteration)')
    out.rule('R01.3', 'TYPE_INFO is overridden by exactly the 12 primitives with matching variants (rule of C01: holders encode through their target, never through the bulk path)')
    out.rule('R06.4', 'WrapperTypeEncode impls are the audited holders; local Deref returns the wrapped value')
    from . import c01
    for cfg in lib_cfgs(cx):
        facts = cx.facts(cfg)
        unit(out, facts)
        S = shape.Shapes(facts)
        check_observers(out, facts, S)
        check_ambient(out, facts, S)
        check_wrappers(out, facts)
        c01.check_shapes(out, facts)
        # holders of primitives must not be mistaken for the primitives by the bulk path (it would write pointer bytes):
        # TYPE_INFO is overridden by exactly the 12 primitives (rule of C01 / C07)
        c01.check_type_info(out, facts)
    from . import positive
    positive.check(cx, out, 'C06')
