"""C11 — depth-limited decoding is transparent, monotone and stack-safe (DESIGN §6 C11)."""
from .common import *

LEVEL = 'other'
EXPLANATION = (
    'R11.1 pairing typestate over every path of every decoding function (Decode / WrapperTypeDecode methods, trait '
    'defaults and crate-local helpers taking an Input, helper calls and closures inlined): the descend/ascend depth '
    'delta is never negative, is 0 at every successful exit and around every loop iteration; only error exits may '
    'keep a positive delta. R11.2 who descends: a decoder decodes a child of generic type under a successful '
    'descend_ref iff its self type owns its children on the heap (Box, Vec item path, BTreeMap, BTreeSet, LinkedList, '
    'the WrapperTypeDecode default; Rc/Arc/VecDeque/BinaryHeap delegate to those), and every other decoder performs '
    'no descend of its own. R11.3 the tracker: DepthTrackingInput::descend_ref forwards, increments by one and fails '
    'iff depth > max_depth (condition decided semantically over a small integer domain, not by spelling); ascend_ref '
    'forwards and decrements by one; decode_with_depth_limit starts at depth 0 with max_depth = limit and returns the '
    'inner result unchanged. R11.4 every cycle of the crate-local call graph goes through a type-directed '
    'Decode/Encode call (so recursion depth is bounded by the nesting the depth limit counts).')
ASSUMPTIONS = ['frame sizes are not computed (no numeric stack bound)',
               'user Decode impls that recurse without a heap container are outside the claim',
               'C03 R03.5 (errors are propagated) is a premise of letting error exits keep a positive depth']

HEAP = {'alloc::boxed::Box', 'alloc::rc::Rc', 'alloc::sync::Arc', 'alloc::vec::Vec',
        'alloc::collections::vec_deque::VecDeque', 'alloc::collections::binary_heap::BinaryHeap',
        'alloc::collections::btree::map::BTreeMap', 'alloc::collections::btree::set::BTreeSet',
        'alloc::collections::linked_list::LinkedList',
        # heap containers of the optional features; their elements are not generic children (bits of a store integer)
        'bitvec::vec::BitVec', 'bitvec::boxed::BitBox'}
KERNEL = {'decode_vec_with_len'}


def balance(out, rule, key, t, loc):
    """R11.1 on one term"""
    bad = []
    npaths = 0
    for p in paths(t):
        npaths += 1
        d = 0
        stack = []
        pending_desc = False
        for i, e in enumerate(p):
            k = e[0]
            if k == 'DESC':
                # counts once its error has been propagated (next ?OK) or unconditionally if unchecked
                d += 1
            elif k == 'ASC':
                d -= 1
                if d < 0:
                    bad.append('ascend_ref without a matching descend_ref')
                    break
            elif k == 'LOOP1':
                stack.append(d)
            elif k == 'LOOPEND':
                s = stack.pop() if stack else d
                if s != d:
                    bad.append('one loop iteration changes the depth by %+d' % (d - s))
            elif k == '?ERR':
                # failure of the immediately preceding descend: that descend did not happen
                pass
        if p and p[-1][0] in ('ERR', '?ERR', 'PANIC'):
            continue
        if d != 0:
            bad.append('a successful path leaves the depth changed by %+d' % d)
    out.ob(rule, key, not bad, '; '.join(sorted(set(bad))), loc)
    return npaths


def mentions_param(ty, params):
    import re
    toks = set(re.findall(r'[A-Za-z_][A-Za-z0-9_]*', ty))
    return bool(toks & set(params))


def run(cx, out):
    out.rule('R11.1', 'descend/ascend depth delta: never negative, 0 at Ok exits, 0 per loop iteration')
    out.rule('R11.2', 'heap-owning decoders decode generic children under a successful descend_ref; all others do not descend')
    out.rule('R11.3', 'DepthTrackingInput: forward, +1, fail iff depth > max; ascend: forward, -1; decode_with_depth_limit starts at 0 / limit')
    out.rule('R11.4', 'crate-local call graph is acyclic apart from type-directed Decode/Encode calls')
    for cfg in lib_cfgs(cx, quick=('D',), thorough=('A', 'B', 'D', 'E')):
        facts = cx.facts(cfg)
        unit(out, facts)
        check_all(out, facts, cfg)
        check_levels(out, facts, cfg)
        check_tracker(out, facts)
        check_callgraph(out, facts)
    # premises: the depth events reach the tracker through every provided wrapper (C08 R08.1 forwarding), and the in-place
    # entry point performs the same descend/ascend as decode (C02 R02.5)
    from . import shared
    shared.premises(cx, out, {'c08': {'R08.1'}, 'c02': {'R02.5'}})
    from . import positive
    positive.check(cx, out, 'C11')


def check_all(out, facts, cfg, floors=True):
    if True:
        heap_seen = set()
        n_fn = 0
        for f, kind in decoder_fns(facts):
            n_fn += 1
            key = '%s [%s]' % (fkey(f), cfg)
            t, v, ev = wire.infer_decoder_fn(facts, f)
            ops = sym.has_opaque(t)
            if ops:
                out.fail('R11.1', key + '/recognised', 'unrecognised construct on a decoding path: ' + ops[0][1], ops[0][2])
                continue
            balance(out, 'R11.1', key, t, f['loc'])
            if kind != 'method':
                continue
            # ---- R11.2
            st = f.get('self_ty') or {}
            spath = st.get('path') if st.get('k') == 'adt' else None
            ta = abstract_helpers(t, KERNEL)
            own_desc = [e for e in events(ta) if e[0] == 'DESC']
            params = [g for g in _impl_params(facts, f)]
            is_heap = spath in HEAP or (f['ctx'] == 'trait_default' and tname(f['trait']) == 'WrapperTypeDecode') or (
                st.get('k') == 'param' and f['method'] == 'decode')  # the blanket `impl Decode for X: WrapperTypeDecode`
            if is_heap:
                heap_seen.add(spath or fkey(f))
                bad = []
                for p in paths(ta):
                    d = 0
                    for e in p:
                        if e[0] == 'DESC':
                            d += 1
                        elif e[0] == 'ASC':
                            d -= 1
                        elif e[0] == 'dec':
                            ty = e[1]
                            child_generic = mentions_param(ty, params) or ty.startswith('<Self as')
                            delegate = any(ty.startswith(h + '<') for h in HEAP) or e[3] in ('decode_wrapped',)
                            if child_generic and not delegate and d < 1 and e[3] in ('decode', 'decode_into', 'skip'):
                                bad.append('child of generic type %s is decoded without a preceding successful descend_ref' % ty)
                            elif child_generic and not delegate and d > 1 and e[3] in ('decode', 'decode_into', 'skip'):
                                bad.append('child of generic type %s is decoded under %d descends: one container level costs more than one unit of depth' % (ty, d))
                            elif any(ty.startswith(h + '<') for h in HEAP) and d > 0 and spath in HEAP and mentions_param(ty, params):
                                bad.append('delegates to the decoder of %s under its own descend: one container level costs more than one unit of depth' % ty)
                        elif e[0] == 'KERNEL':
                            pass
                out.ob('R11.2', key + '/descends', not bad, '; '.join(sorted(set(bad))), f['loc'], sample={'term': sym.tstr(ta)[:240]})
            else:
                out.ob('R11.2', key + '/no-own-descend', not own_desc,
                       'decoder of a type that does not own its children on the heap calls descend_ref itself: '
                       'siblings/inline aggregates would consume depth', f['loc'])
                kern = [e for e in events(ta) if e[0] == 'KERNEL']
                out.ob('R11.2', key + '/no-kernel', not kern,
                       'decoder of a type that does not own its children on the heap reads them through the item kernel '
                       '(%s), which spends one level for every element type without a bulk path: an inline aggregate would cost a level'
                       % ', '.join(sorted({e[1] for e in kern})), f['loc'])
        if not floors:
            return
        out.floor('R11.1', 'decoding functions analysed [%s]' % cfg, n_fn, 60)
        out.floor('R11.2', 'heap-owning decoders [%s]' % cfg, len(heap_seen), 9)
        # kernel: every element decoded by the item kernel is decoded under exactly one successful descend — decided on the
        # kernel's entry point with its private helpers inlined, so it does not matter which of them holds the bracket
        kf = roles(facts).get('with_len')
        if kf:
            t, v, ev = wire.infer_decoder_fn(facts, kf)
            bad = []
            n_dec = 0
            for p in paths(t):
                d = 0
                for e in p:
                    if e[0] == 'DESC':
                        d += 1
                    elif e[0] == 'ASC':
                        d -= 1
                    elif e[0] == 'dec':
                        n_dec += 1
                        if d < 1:
                            bad.append('element decoded outside descend/ascend')
                        elif d > 1:
                            bad.append('element decoded under %d descends' % d)
            out.ob('R11.2', 'helper:items/descends [%s]' % cfg, not bad and n_dec > 0,
                   '; '.join(sorted(set(bad))) or 'no element decode found', kf['loc'])
        else:
            out.fail('R11.2', 'helper:items [%s]' % cfg, 'kernel function not found (anchor missing)', '-')


def check_levels(out, facts, cfg):
    """R11.2 levels: what one pointer-like container costs, followed through the associated type and the delegation chain:
    the decoder the blanket impl reaches for `Box<T>`, `Rc<T>`, `Arc<T>` (own decode_wrapped or the trait default applied to
    the impl's `Wrapped` type) decodes `T` under exactly one descend in total"""
    default = None
    own = {}
    for f, kind in decoder_fns(facts):
        if f['method'] != 'decode_wrapped':
            continue
        if f['ctx'] == 'trait_default':
            default = f
        elif f.get('impl'):
            own[f['impl']] = f
    wrappers = {}
    for im in facts.impls:
        if tname(im.get('trait') or '') != 'WrapperTypeDecode' or (im.get('self_ty') or {}).get('k') != 'adt':
            continue
        w = [it for it in im.get('items', []) if it['name'] == 'Wrapped']
        wrappers[im['self_ty']['path']] = (im, own.get(im['path']), w[0]['value'] if w else None)
    memo = {}

    def of_type(ty, seen):
        head = ty.split('<')[0]
        if head in wrappers:
            return of_wrapper(head, seen)
        if head in HEAP:
            return {1}      # sequence and tree containers: exactly one, by /descends and helper:items above
        return {0}

    def of_wrapper(head, seen):
        if head in memo:
            return memo[head]
        if head in seen:
            return {99}
        im, f, wrapped = wrappers[head]
        f = f or default
        if f is None:
            return {-1}
        t, v, ev = wire.infer_decoder_fn(facts, f)
        ta = abstract_helpers(t, KERNEL)
        res = set()
        for p in paths(ta):
            d = 0
            for e in p:
                if e[0] == 'DESC':
                    d += 1
                elif e[0] == 'ASC':
                    d -= 1
                elif e[0] == 'dec' and e[3] in ('decode', 'decode_into', 'skip'):
                    ty = e[1]
                    if ty.startswith('<Self as') and ty.endswith('::Wrapped'):
                        ty = wrapped or ty
                    res |= {d + l for l in of_type(ty, seen | {head})}
                elif e[0] == 'KERNEL':
                    res.add(d + 1)
        memo[head] = res
        return res
    for head in sorted(wrappers):
        lv = of_wrapper(head, set())
        im = wrappers[head][0]
        out.ob('R11.2', 'levels:%s [%s]' % (head.split('::')[-1], cfg), lv == {1},
               'decoding %s<T> costs %s unit(s) of depth for its one level of nesting (own descends plus those of the decoder it '
               'delegates to / of its Wrapped type %s)' % (head.split('::')[-1], sorted(lv), wrappers[head][2]), im['loc'])
    out.floor('R11.2', 'pointer-like wrappers with a decoder [%s]' % cfg, len(wrappers), 3)
    # the blanket impl reaches decode_wrapped without a descend of its own
    for f, kind in decoder_fns(facts):
        if kind == 'method' and (f.get('self_ty') or {}).get('k') == 'param' and f['method'] in ('decode', 'decode_into', 'skip'):
            t, v, ev = wire.infer_decoder_fn(facts, f)
            n = [e for e in events(abstract_helpers(t, KERNEL)) if e[0] == 'DESC']
            out.ob('R11.2', '%s/no-own-descend [%s]' % (fkey(f), cfg), not n, 'the blanket decoder descends before delegating to decode_wrapped', f['loc'])


def _impl_params(facts, f):
    if f.get('impl'):
        for i in facts.impls:
            if i['path'] == f['impl'] and i['self'] == f['self']:
                return [g['name'] for g in i['generics'] if g['kind'] != 'lifetime']
    return ['Self']


def check_tracker(out, facts):
    cfg = facts.cfg
    ms = {f['method']: f for f in facts.methods('Input') if f['kind'] == 'AssocFn' and 'DepthTrackingInput' in f['self']}
    # descend_ref
    f = ms.get('descend_ref')
    if not f:
        out.fail('R11.3', 'DepthTrackingInput::descend_ref [%s]' % cfg, 'method not found (anchor missing)', '-')
    else:
        t, v, ev = input_method_term(facts, f)
        why = []
        seq = [e for e in events(t) if e[0] in ('DESC', 'SET', '?', 'ERR', 'MUTCALL', 'PANIC')]
        kinds = [e[0] for e in seq]
        if kinds != ['DESC', '?', 'SET', 'ERR']:
            why.append('event sequence %s is not forward, propagate, increment, limit check' % kinds)
        else:
            s = seq[2]
            inc = _increment(s, 'depth')
            if inc != 1:
                why.append('depth is changed by %s instead of +1' % inc)
            alts = [x for x in sym.walk(t) if x[0] == 'alt']
            if len(alts) != 1:
                why.append('expected exactly one limit comparison')
            else:
                # fails iff depth > max_depth, decided on a small domain
                for dep in range(0, 4):
                    for mx in range(0, 4):
                        leaf = lambda x: dep if is_self_field(x, 'depth') else (mx if is_self_field(x, 'max_depth') else None)
                        c = eval_expr(alts[0][1][1], leaf)
                        if c is None:
                            why.append('limit condition is not a comparison of depth and max_depth: ' + sym.vstr(alts[0][1][1]))
                            break
                        arm = 'true' if c else 'false'
                        body = [x for d, x in alts[0][2] if d == arm]
                        fails = bool(body) and any(e[0] == 'ERR' for e in events(body[0]))
                        if fails != (dep > mx):
                            why.append('with depth=%d, max_depth=%d the tracker %s (must fail iff depth > max_depth)' % (dep, mx, 'fails' if fails else 'succeeds'))
                    else:
                        continue
                    break
        out.ob('R11.3', 'DepthTrackingInput::descend_ref [%s]' % cfg, not why, '; '.join(sorted(set(why))[:3]), f['loc'], sample={'term': sym.tstr(t)})
    f = ms.get('ascend_ref')
    if f:
        t, v, ev = input_method_term(facts, f)
        seq = [e for e in events(t) if e[0] in ('ASC', 'SET', '?', 'ERR', 'MUTCALL', 'PANIC')]
        ok = [e[0] for e in seq] == ['ASC', 'SET'] and _increment(seq[1], 'depth') == -1
        out.ob('R11.3', 'DepthTrackingInput::ascend_ref [%s]' % cfg, ok, 'ascend_ref is not forward + decrement by one: ' + sym.tstr(t), f['loc'])
    else:
        out.fail('R11.3', 'DepthTrackingInput::ascend_ref [%s]' % cfg, 'method not found', '-')
    # writers of depth
    writers = set()
    from .c19 import _writes_field
    for g in facts.fns:
        if g.get('thir') and _writes_field(g['thir'], 'depth', facts) and 'DepthTrackingInput' in (g.get('self') or ''):
            writers.add(g.get('method'))
    out.ob('R11.3', 'DepthTrackingInput.depth writers [%s]' % cfg, writers <= {'descend_ref', 'ascend_ref'},
           'depth is also written by %s' % sorted(writers - {'descend_ref', 'ascend_ref'}), '-')
    # entry point
    fl = [g for g in facts.methods('DecodeLimit', 'decode_with_depth_limit') if g['kind'] == 'AssocFn']
    if len(fl) != 1:
        out.fail('R11.3', 'decode_with_depth_limit [%s]' % cfg, 'blanket impl not found', '-')
    else:
        g = fl[0]
        t, v, ev = wire.infer_decoder_fn(facts, g, roles={0: ('param', 'limit', 'u32'), 1: ('input',)})
        decs = [e for e in events(t) if e[0] == 'dec']
        ok = len(decs) == 1 and len(events(t)) == 1 and decs[0][3] == 'wrapped_input' and decs[0][1] in ('T', 'Self')
        if ok:
            a = decs[0][4]
            flds = {i: sym.vstr(x) for i, x in a[3]}
            adt = facts.adt_by_path.get(a[1])
            names = [facts.canon_field(a[1], fl_['name']) for fl_ in adt['variants'][0]['fields']] if adt else []
            byname = {names[i]: s for i, s in flds.items() if i < len(names)}
            ok = a[1].endswith('DepthTrackingInput') and byname.get('input') == 'input' and byname.get('depth') == '0:u32' and byname.get('max_depth') == 'limit'
            ok = ok and sym.vstr(v) == 'Ok(decoded#%s:%s)' % (decs[0][2], decs[0][1])
        out.ob('R11.3', 'decode_with_depth_limit [%s]' % cfg, ok,
               'not `T::decode(&mut DepthTrackingInput{input, depth: 0, max_depth: limit})` returned unchanged: %s -> %s' % (sym.tstr(t), sym.vstr(v)), g['loc'])


def _increment(setev, field):
    """net change written by a SET event to self.<field> (int) or None"""
    if not is_self_field(setev[1], field):
        return None
    val = strip(setev[2])
    if setev[3] == 'AddAssign' and isinstance(val, tuple) and val[0] == 'lit':
        return val[1]
    if setev[3] == 'SubAssign' and isinstance(val, tuple) and val[0] == 'lit':
        return -val[1]
    if setev[3] is None and isinstance(val, tuple) and val[0] == 'bin' and is_self_field(val[2], field):
        r = strip(val[3])
        if isinstance(r, tuple) and r[0] == 'lit':
            return r[1] if val[1] == 'Add' else (-r[1] if val[1] == 'Sub' else None)
    return None


def check_callgraph(out, facts):
    cfg = facts.cfg
    from .c08 import _walk_thir
    typed = {'Decode', 'Encode', 'WrapperTypeDecode', 'DecodeLength', 'MaxEncodedLen', 'EncodeLike', 'CompactLen', 'Input', 'Output',
             'DecodeAll', 'DecodeLimit', 'DecodeWithMemLimit', 'EncodeAppend'}
    g = {}
    for f in facts.fns:
        if not f.get('thir'):
            continue
        owner = f.get('parent') or f['path']
        for node, _ in _walk_thir(f['thir'], [], f):
            if node.get('k') == 'call' and node.get('local'):
                if node.get('trait') and tname(node['trait']) in typed:
                    continue
                if node['f'] in facts.by_path:
                    g.setdefault(owner, set()).add(node['f'])
    # only what decoding / encoding can reach matters
    roots = [f['path'] for f, _ in decoder_fns(facts)] + [f['path'] for f in facts.methods('Encode')]
    reach = set()
    todo = list(roots)
    while todo:
        u = todo.pop()
        if u in reach:
            continue
        reach.add(u)
        todo.extend(g.get(u, ()))
    g = {u: {w for w in ws} for u, ws in g.items() if u in reach}
    # cycle detection
    color = {}
    cyc = []

    def dfs(u, st):
        color[u] = 1
        for w in g.get(u, ()):
            if color.get(w) == 1:
                cyc.append(st + [u, w])
            elif w not in color:
                dfs(w, st + [u])
        color[u] = 2

    for u in list(g):
        if u not in color:
            dfs(u, [])
    out.ob('R11.4', 'crate-local call graph acyclic modulo type-directed calls [%s]' % cfg, not cyc,
           'recursion that is not type-directed: %s' % (' -> '.join(cyc[0][-3:]) if cyc else ''), '-')
    out.count('call graph nodes', len(g))
