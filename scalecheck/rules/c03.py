"""C03 — decoder accepts exactly the SCALE language and is total on any bytes (DESIGN §6 C03)."""
from .common import *
import re
from .. import shape, decshape, types as T

LEVEL = 'other'
EXPLANATION = (
    'R03.1 strict tags: every dispatch on a byte read from the input accepts exactly the tag set the encoder of the '
    'same type writes (bool {0,1}, Option {0,1}, Result {0,1}, OptionBool {0,1,2}); all other values reach an arm '
    'whose every path is an error exit. R03.2 mandatory validation guards, decided semantically (the guard '
    'condition is evaluated over boundary values, so any spelling of the same comparison is accepted): NonZero only '
    'through the Option-returning `new` with None mapped to Err; String only through from_utf8 with Err mapped; '
    'Duration::new only with nanos < 10^9; BitVec only with bits <= 2^29-1; (compact canonicality: C04, slice reads: '
    'C14, cursor: C08, derived enums: C05). R03.3 panic-site census over the MIR of every function on a decoding path: '
    'each Assert terminator (overflow, bounds, division) and each panic-capable call is discharged by the interval / '
    'dominance engine or is a row of the audited table whose justification is re-checked. R03.4 termination: every '
    'loop on a decoding path iterates a Range / slice iterator, or is one of the two audited counter loops whose '
    'progress is proved by C02 K2 / R02.2. R03.5 error discipline: every fallible input operation has its error '
    'propagated (`?`, and_then/map in tail position, explicit match returning Err); no `.ok()`, `unwrap_or*` on a '
    'codec Result, no Err arm that continues.')
ASSUMPTIONS = ['panics inside user-supplied Decode/Ord/Default impls and allocation failure are outside the claim',
               'documented panic preconditions of core/alloc/bitvec/bytes leaf functions',
               'which value is returned is decided structurally by C01 + C02']


def accepted_tags(alt):
    acc = set()
    has_wild_err = False
    bad = []
    for d, x in alt[2]:
        err = decshape._pure_err(x)
        if isinstance(d, tuple) and d[0] == 'pat':
            if d[1] == '_' or d[2] is None:
                if err:
                    has_wild_err = True
                else:
                    bad.append('catch-all arm `%s` does not reject' % d[1])
                continue
            if err:
                continue
            for lo, hi in d[2]:
                if hi - lo > 300:
                    bad.append('arm accepts a wide range %s' % d[1])
                    continue
                acc.update(range(lo, hi + 1))
        elif isinstance(d, tuple) and d[0] == 'guard':
            k = decshape._guard_const(strip(d[2]))
            if k is None:
                bad.append('unrecognised arm guard')
            elif not err:
                acc.add(k)
    return acc, has_wild_err, bad


def encoder_tags(w, st):
    if w[0] == 'alt':
        tags = set()
        for lab, x in w[1]:
            its = x[1] if x[0] == 'cat' else [x]
            if its and its[0][0] == 'byte':
                tags.add(its[0][1])
            else:
                return None
        return tags
    if w == ('prim', 'bool'):
        return {0, 1}
    return None


def check_tags(out, facts, S, D):
    cfg = facts.cfg
    n = 0
    for i in facts.impls_of('Decode'):
        st = T.from_json(i['self_ty'])
        fn = D.method(i, 'decode')
        if fn is None or st[0] == 'param':
            continue
        t, v = D.term(fn)
        alts = []
        its = items(t)
        for idx, e in enumerate(its):
            if e[0] == 'rb':
                for x in its[idx + 1:]:
                    if x[0] == 'alt' and strip(x[1]) == ('byte', e[1]):
                        alts.append(x)
        ew = S.wire_type(st)
        exp = encoder_tags(ew, st)
        probed_ok = False
        if exp is not None and any(e[0] == 'rb' for e in its):
            # decide by probing first, whatever the dispatch looks like (`match byte`, `matches!`, an if-chain): for each of
            # the 256 values of the byte, does the rest of the decoder reject?
            rb_i0 = [k_ for k_, e in enumerate(its) if e[0] == 'rb'][0]
            uid0 = its[rb_i0][1]
            rest0 = sym.cat(*its[rb_i0 + 1:])
            acc0, und0 = set(), False
            for b in range(256):
                evs_, st_ = trace(rest0, lambda x, b=b: b if strip(x) == ('byte', uid0) else None)
                if st_ == 'AMBIG':
                    und0 = True
                    break
                if st_ != 'ERR':
                    acc0.add(b)
            if not und0 and acc0 == exp:
                n += 1
                out.ob('R03.1', 'tag dispatch of %s [%s]' % (i['self'], cfg), True, '', fn['loc'], sample={'accepted': sorted(acc0)[:12], 'encoder_tags': sorted(exp)})
                probed_ok = True
        if probed_ok:
            continue
        if not alts:
            if exp is not None and any(e[0] == 'rb' for e in its):
                # not a `match byte {..}`: decide the accepted set by evaluating the conditions for every byte value
                n += 1
                rb_i = [k_ for k_, e in enumerate(its) if e[0] == 'rb'][0]
                uid = its[rb_i][1]
                rest = sym.cat(*its[rb_i + 1:])
                acc = set()
                undecided = False
                for b in range(256):
                    evs_, st_ = trace(rest, lambda x, b=b: b if strip(x) == ('byte', uid) else None)
                    if st_ == 'AMBIG':
                        undecided = True
                        break
                    if st_ != 'ERR':
                        acc.add(b)
                key = 'tag dispatch of %s [%s]' % (i['self'], cfg)
                if undecided:
                    out.fail('R03.1', key, 'the encoder writes tag bytes %s but the decoder does not dispatch on the byte it reads in a decidable way' % sorted(exp), fn['loc'])
                else:
                    out.ob('R03.1', key, acc == exp, 'decoder accepts tag bytes %s, the encoder writes %s' % (sorted(acc)[:12], sorted(exp)), fn['loc'],
                           sample={'accepted': sorted(acc)[:12], 'encoder_tags': sorted(exp)})
            continue
        for a in alts:
            n += 1
            key = 'tag dispatch of %s [%s]' % (i['self'], cfg)
            acc, wild, bad = accepted_tags(a)
            why = list(bad)
            if exp is None:
                why.append('cannot read the tag set off the encoder shape %s' % shape.wshow(ew))
            elif acc != exp:
                why.append('decoder accepts tag bytes %s, the encoder writes %s' % (sorted(acc), sorted(exp)))
            if not wild and len(acc) < 256:
                why.append('no rejecting catch-all arm')
            out.ob('R03.1', key, not why, '; '.join(why), fn['loc'], sample={'accepted': sorted(acc), 'encoder_tags': sorted(exp) if exp else None})
    out.floor('R03.1', 'byte tag dispatches [%s]' % cfg, n, 4)


def _boundary_guard(out, rule, key, t, leaf_of, threshold_ok, loc, what):
    """every Ok path lies on guard edges that exclude the bad values: evaluate each `if` arm
    condition at boundary values; the path set for value n must end in ERR iff bad(n)"""
    probes = leaf_of['probes']
    why = []
    for n in probes:
        leaf = leaf_of['leaf'](n)
        # walk paths, keep those consistent with value n
        outcomes = set()
        for p in paths(t):
            consistent = True
            for e in p:
                if e[0] == 'ARM' and isinstance(e[1], tuple) and e[1][0] == 'if':
                    c = eval_expr(e[1][1], leaf)
                    if c is None:
                        continue
                    if bool(c) != (e[2] == 'true'):
                        consistent = False
                        break
            if consistent:
                last = p[-1][0] if p else 'end'
                # error exits caused by `?` of the input are not the guard
                if last == '?ERR':
                    continue
                outcomes.add('ERR' if last == 'ERR' else 'OK')
        want = 'OK' if threshold_ok(n) else 'ERR'
        if outcomes != {want}:
            why.append('%s = %s: outcomes %s, expected %s' % (what, n, sorted(outcomes), want))
    out.ob(rule, key, not why, '; '.join(why[:3]), loc)


def _validated_result(t, v, fname, path_part, arg_s, good):
    """the function returns Ok(payload of `fname(decoded)`) and fails when that call yields its other variant, in any of
    the usual spellings: `f(x).ok_or_else(..)` / `.map_err(..)` / `match f(x) { Some(v) => Ok(v), None => Err(..) }` / `?`"""
    cand = []

    def is_call(x):
        return isinstance(x, tuple) and len(x) > 3 and x[0] == 'call' and x[1] == fname and path_part in str(x[2]) and x[3] and sym.vstr(x[3][0]) == arg_s
    contains(v, lambda x: (cand.append(x) or False) if is_call(x) else False)
    for e in sym.walk(t):
        if e[0] == 'alt' and is_call(strip(e[1])):
            cand.append(strip(e[1]))
        if e[0] == 'CHECK' and is_call(strip(e[2])):
            cand.append(strip(e[2]))
    if not cand:
        return False
    V = sym.vstr(cand[0])
    sv = sym.vstr(v)
    # (a) ok_or / ok_or_else / ? on the call: an error is produced for the other variant, the payload is returned
    if any(e[0] == 'CHECK' and sym.vstr(strip(e[2])) == V for e in events(t)) and sv == 'Ok(unwrap(%s))' % V:
        return True
    # (b) the Result of the call itself is returned with its error mapped
    if sv == V and good == 'Ok':
        return True
    # (d) the payload of the good variant is what is returned and there is no other successful exit: the other variant
    #     can only have left through an error (a match the evaluator already folded into a propagation)
    if sv == 'Ok(%s.%s.0)' % (V, good) and not any(e[0] == 'RET' for e in events(t)) and any(e[0] == '?' for e in events(t)):
        return True
    # (c) explicit match / if-let on the call
    for e in sym.walk(t):
        if e[0] == 'alt' and sym.vstr(strip(e[1])) == V:
            bad_arms = [x for d, x in e[2] if not (isinstance(d, tuple) and len(d) > 1 and str(d[1]).startswith(good))]
            good_arms = [x for d, x in e[2] if isinstance(d, tuple) and len(d) > 1 and str(d[1]).startswith(good)]
            if good_arms and bad_arms and all(sym._ends_err(x) for x in bad_arms) and not any(sym._ends_err(x) for x in good_arms):
                if sv in ('Ok(%s.%s.0)' % (V, good), 'Ok(unwrap(%s))' % V) or ('%s.%s.0' % (V, good)) in sv:
                    return True
    return False


def check_guards(out, facts, S, D):
    cfg = facts.cfg
    # NonZero
    nz = 0
    for i in facts.impls_of('Decode'):
        st = T.from_json(i['self_ty'])
        if st[0] == 'adt' and st[1] == 'core::num::nonzero::NonZero':
            nz += 1
            fn = D.method(i, 'decode')
            t, v = D.term(fn)
            key = 'NonZero zero check %s [%s]' % (i['self'], cfg)
            decs = [e for e in events(t) if e[0] == 'dec']
            ok = len(decs) == 1 and _validated_result(t, v, 'new', 'NonZero', 'decoded#%s:%s' % (decs[0][2], decs[0][1]), 'Some') if decs else False
            names = set()
            contains(v, lambda x: names.add(x[1]) or False if (isinstance(x, tuple) and len(x) > 2 and x[0] == 'call') else False)
            for e_ in events(t):
                if e_[0] in ('OWN', 'ALLOC', 'MUTCALL'):
                    names.add(e_[1])
            ok = ok and 'new_unchecked' not in names
            out.ob('R03.2', key, ok, 'not `Self::new(decoded).ok_or_else(..)`: %s -> %s' % (sym.tstr(t), sym.vstr(v)), fn['loc'])
    out.floor('R03.2', 'NonZero decoders [%s]' % cfg, nz, 10)
    # String
    fn = facts.impl_method('Decode', 'alloc::string::String', 'decode')
    if fn:
        t, v, _ = wire.infer_decoder_fn(facts, fn)
        decs = [e for e in events(t) if e[0] == 'dec']
        ok = bool(decs) and _validated_result(t, v, 'from_utf8', 'string::String', 'decoded#%s:alloc::vec::Vec<u8>' % decs[0][2], 'Ok')
        unchecked = []
        contains(v, lambda x: unchecked.append(x[1]) or False if (isinstance(x, tuple) and len(x) > 2 and x[0] == 'call' and 'unchecked' in str(x[1])) else False)
        ok = ok and not unchecked and not any(e_[0] in ('OWN', 'ALLOC', 'MUTCALL') and 'unchecked' in str(e_[1]) for e_ in events(t))
        out.ob('R03.2', 'String utf-8 check [%s]' % cfg, bool(ok), 'String is not built by String::from_utf8(decoded bytes) with the error mapped: ' + sym.vstr(v), fn['loc'])
    else:
        out.fail('R03.2', 'String utf-8 check [%s]' % cfg, 'decoder not found', '-')
    # Duration
    fn = facts.impl_method('Decode', 'core::time::Duration', 'decode')
    if fn:
        t, v, _ = wire.infer_decoder_fn(facts, fn)
        decs = [e for e in events(t) if e[0] == 'dec']
        u = decs[0][2] if decs else None

        def leaf(n):
            return lambda x: n if sym.vstr(x) == 'decoded#%s:(u64, u32).1' % u else None
        _boundary_guard(out, 'R03.2', 'Duration nanos < 10^9 [%s]' % cfg, t, {'probes': [0, 1, 999999999, 1000000000, 1000000001, 2 ** 32 - 1], 'leaf': leaf},
                        lambda n: n < 10 ** 9, fn['loc'], 'nanos')
    else:
        out.fail('R03.2', 'Duration nanos check [%s]' % cfg, 'decoder not found', '-')
    # BitVec
    fn = facts.impl_method('Decode', 'bitvec::vec::BitVec<T, O>', 'decode')
    if fn:
        t, v, _ = wire.infer_decoder_fn(facts, fn)
        ta = decshape.abstract(t, {'decode_vec_with_len'})
        decs = [e for e in events(ta) if e[0] == 'dec']
        u = decs[0][2] if decs else None

        def leafb(n):
            return lambda x: n if sym.vstr(x) == 'decoded#%s:compact::Compact<u32>.0' % u else None
        # treat the kernel as a non-terminal event; PANIC paths (assert after decode) are not the guard
        tt = _drop_after_kernel(ta)
        _boundary_guard(out, 'R03.2', 'BitVec bits <= 2^29-1 [%s]' % cfg, tt, {'probes': [0, 1, 0x1fffffff, 0x20000000, 2 ** 32 - 1], 'leaf': leafb},
                        lambda n: n <= 0x1fffffff, fn['loc'], 'bits')
    elif cfg in ('D', 'E'):
        out.fail('R03.2', 'BitVec bit-length check [%s]' % cfg, 'decoder not found', '-')
    # ... and the encoder side of the same limit: a bit sequence the decoder would reject is refused by the encoder (it
    # panics), so everything that is encoded decodes again (C02 / C16 for the bit-sequence aliases)
    fe = facts.impl_method('Encode', 'bitvec::slice::BitSlice<T, O>', 'encode_to')
    if fe:
        ev = sym.Evaluator(facts)
        ctx = sym.Ctx(ev, fe)
        ctx.env[fe['params'][0]['v']] = ('self',)
        for p_ in fe['params'][1:]:
            ctx.env[p_['v']] = ('param', p_['name'], p_.get('ty'))
        _v, te = ev.ev(fe['thir'], ctx)
        why = []
        for n in (0, 1, 0x1fffffff, 0x20000000, 2 ** 32 - 1, 2 ** 32, 2 ** 40):
            def leafe(x, n=n):
                x = strip(x)
                if isinstance(x, tuple) and len(x) > 3 and x[0] == 'call' and x[1] == 'len' and x[3] and sym.vstr(x[3][0]).lstrip('&*') == 'self':
                    return n
                return None
            got = set()
            for p_ in paths(te):
                okp = True
                for e in p_:
                    if e[0] == 'ARM' and isinstance(e[1], tuple) and e[1][0] == 'if':
                        try:
                            c = eval_expr(e[1][1], leafe)
                        except ArithPanic:
                            c = None
                        if c is not None and bool(c) != (e[2] == 'true'):
                            okp = False
                            break
                if okp:
                    # an encoder has no error exit: the Err of a fallible helper is what a following `expect` turns into
                    # a panic, so a path that ends in the helper's error counts as refusing, and the `expect` fork itself
                    # (feasible only after that error) is not counted a second time
                    hard = any(e[0] == 'PANIC' and (len(e) < 2 or e[1] not in ('expect', 'unwrap')) for e in p_)
                    got.add('PANIC' if hard or (p_ and p_[-1][0] == 'ERR') else 'OK')
            want = 'OK' if n <= 0x1fffffff else 'PANIC'
            if got != {want}:
                why.append('bits = %d: encoder outcomes %s, expected %s (the decoder %s this length)' % (n, sorted(got), want, 'accepts' if want == 'OK' else 'rejects'))
        out.ob('R03.2', 'BitSlice encoder refuses more than 2^29-1 bits [%s]' % cfg, not why, '; '.join(why[:3]), fe['loc'])
    elif cfg in ('D', 'E'):
        out.fail('R03.2', 'BitSlice encoder bit-length check [%s]' % cfg, 'encoder not found', '-')


def _drop_after_kernel(t):
    its = []
    for e in items(t):
        its.append(e)
        if e[0] == 'KERNEL':
            break
    return cat(*its)


FALLIBLE = ('dec', 'rb', 'read', 'DESC', 'HOOK', 'REMLEN', 'CALLBACK')


def check_errprop(out, facts):
    cfg = facts.cfg
    n = 0
    for f, kind in decoder_fns(facts):
        key = 'error discipline of %s [%s]' % (fkey(f), cfg)
        t, v, ev = wire.infer_decoder_fn(facts, f)
        if sym.has_opaque(t):
            o = sym.has_opaque(t)[0]
            out.fail('R03.5', key, 'unrecognised construct: ' + o[1], o[2])
            continue
        why = []
        for e in events(t):
            if e[0] == 'SWALLOW':
                why.append('a Result is turned into an Option with %s at %s' % (e[1], e[2]))
            if e[0] == 'COLLECT':
                # a fallible iterator is collected into a growable container: when an element fails, the collection stops and
                # the error is the result.  A fixed-size target (GenericArray, arrays, ...) may panic or misbehave on the
                # short iterator; such a target is outside what was audited
                tgt = str(e[1])
                inner = re.sub(r'^core::result::Result<(.*), [^,]+>$', r'\1', tgt)
                growable = ('alloc::vec::Vec<', 'alloc::collections::', 'alloc::string::String', 'std::collections::', 'hashbrown::')
                if not inner.startswith(growable) and not inner.startswith('core::option::Option<alloc::'):
                    why.append('a fallible iterator is collected into %s, which is not a growable container: what happens when an element fails '
                               'part-way (panic, wrong length) is not covered' % inner[:80])
        rv = v

        def seq(term, tail):
            its = items(term)
            for idx, e in enumerate(its):
                last = tail and idx == len(its) - 1
                k = e[0]
                if k in FALLIBLE:
                    if k == 'CALLBACK' and len(e) > 3 and e[3] == 'infallible':
                        continue
                    n_ = its[idx + 1] if idx + 1 < len(its) else None
                    if n_ is not None and n_[0] in ('?', 'ONOK'):
                        continue
                    if n_ is not None and n_[0] == 'alt' and _alt_handles_result(n_):
                        continue
                    if last or (n_ is not None and all(x[0] in ('ASC', 'COLLECT', 'CFG') for x in its[idx + 1:]) and tail):
                        # tail position: the result itself is returned (checked on the value below)
                        continue
                    if k == 'dec' and e[3] in ('decode', 'decode_into', 'skip') and _value_returned(rv, e):
                        continue
                    why.append('result of %s is neither propagated nor returned' % sym.tstr(e))
                elif k == 'alt':
                    for d, x in e[2]:
                        seq(x, last)
                        if isinstance(d, tuple) and d[0] == 'pat' and d[1] == 'Err' and not sym._ends_err(x):
                            why.append('an Err arm continues instead of returning the error')
                elif k == 'star':
                    seq(e[2], False)
                elif k == 'HELPER':
                    seq(e[2], last)
                elif k == 'ONOK':
                    seq(e[1], False)
        seq(t, True)
        n += 1
        out.ob('R03.5', key, not why, '; '.join(sorted(set(why))[:3]), f['loc'])
    out.floor('R03.5', 'decoding functions [%s]' % cfg, n, 60)


def _alt_handles_result(alt):
    labs = [d[1] for d, _ in alt[2] if isinstance(d, tuple) and d[0] == 'pat']
    return 'Err' in labs or 'Ok' in labs


def _value_returned(v, e):
    return contains(v, lambda x: isinstance(x, tuple) and len(x) > 2 and x[0] == 'decoded' and x[2] == e[2])


def check_termination(out, facts):
    cfg = facts.cfg
    chunk_fn = roles(facts).get('chunk')
    audited = {'<[T; N] as Decode>::decode_into': 'R02.2: count strictly increases towards N'}
    if chunk_fn:
        audited[fkey(chunk_fn)] = 'K2: remaining strictly decreases by chunk >= 1'
    from .c04 import _is_counter_star
    n = 0
    for f, kind in decoder_fns(facts):
        t, v, ev = wire.infer_decoder_fn(facts, f)
        own = abstract_helpers(t, {role_name(facts, 'chunk')}) if role_of(facts, f) != 'chunk' else t
        for x in sym.walk(own):
            if x[0] != 'star':
                continue
            n += 1
            src = strip(x[1])
            key = 'loop in %s over %s [%s]' % (fkey(f), sym.vstr(src)[:50], cfg)
            ok = False
            if src == ('loop',):
                # `while i < n { ..; i += 1 }` with an immutable bound, or one of the audited counter loops
                ok = fkey(f) in audited or _is_counter_star(x, None)[0] is not None
            elif isinstance(src, tuple) and src[0] == 'adt' and src[1].endswith('ops::range::Range'):
                ok = True
            elif isinstance(src, tuple) and src[0] == 'call' and src[1] in ('iter', 'iter_mut', 'chunks', 'into_iter'):
                ok = True
            elif isinstance(src, tuple) and src[0] in ('index', 'ref', 'field', 'mutvar'):
                ok = True
            out.ob('R03.4', key, ok, 'loop on a decoding path is neither an iteration over a Range/slice nor one of the audited counter loops', f['loc'])
    out.floor('R03.4', 'loops on decoding paths [%s]' % cfg, n, 6)


# panic-capable sites per feature configuration: 78 / 74 / 74 / 89 / 85 were counted on the pinned tree; the floors sit
# below them so that removing a few sites (checked -> saturating arithmetic) is not an alarm, while an analysis that
# lost its reachability roots fails closed
PANIC_SITE_FLOOR = {'A': 60, 'B': 55, 'C': 55, 'D': 70, 'E': 65}


def run(cx, out):
    out.rule('R03.1', 'byte tag dispatch accepts exactly the encoder\'s tag set; everything else rejects')
    out.rule('R03.2', 'validation guards: NonZero::new, String::from_utf8, nanos < 10^9, bits <= 2^29-1 (semantic evaluation at boundary values)')
    out.rule('R03.3', 'panic-site census over MIR of decoding paths: generic discharge (constants, intervals, dominance) or audited row')
    out.rule('R03.4', 'loops on decoding paths iterate a Range/slice or are the audited counter loops')
    out.rule('R03.5', 'errors of fallible input operations are propagated or returned')
    for cfg in lib_cfgs(cx):
        facts = cx.facts(cfg)
        unit(out, facts)
        S = shape.Shapes(facts)
        D = decshape.DecShapes(facts, S)
        check_tags(out, facts, S, D)
        check_guards(out, facts, S, D)
        check_errprop(out, facts)
        check_termination(out, facts)
        from . import panics
        from .. import facts as _fm
        panics.check_panics(out, facts, _fm.repo_root(), floor=PANIC_SITE_FLOOR.get(cfg, 70))
        # compact canonicality / width guards and reachability of arithmetic panics in the compact decoders (C04 R04.2)
        from . import c04
        c04.check_decoders(out, facts, None)
    out.rule('R04.2', 'compact decoders: accepted set = canonical forms of values of the width; no panic reachable for any first byte (delegated rule of C04)')
    # derived decoders: the derive corpus of C05
    from . import c05 as _c05, shared
    from ..report import Out as _Out
    out.rule('R05.2', 'derived decoders accept exactly the declared index bytes and read the declared representation (derive corpus of C05)')
    out.rule('R05.5', 'derived in-place decode_into reads the same representation as decode')
    # premises: derived decoders (C05); bulk decoding skips per-element validation only for the plain primitives named
    # by TYPE_INFO (C01 R01.3); in-place entry points perform the effects of decode (C02 R02.5, R02.2)
    shared.premises(cx, out, {'c05': {'R05.2', 'R05.5'}, 'c01': {'R01.3'}, 'c02': {'R02.5', 'R02.2', 'R02.1'}, 'c08': {'R08.3'}})
    # panic sites in the code the derive macros generate (the same corpus), and the rule families R03.3 delegates to
    from . import panics as _panics, c09 as _c09, c11 as _c11
    from .. import facts as _fm
    try:
        fx, _defs = _c05.corpus_facts(cx)
        libD = cx.facts('D')
        _panics.check_panics(out, fx, _fm.repo_root(), label='derive corpus', only_fns=lambda f: f['path'] not in libD.by_path)
    except _fm.BuildError as e:
        out.fail('R03.3', 'derive corpus', 'corpus does not compile: %s' % str(e)[:300], '-')
    out.rule('R09.1', 'sized allocation requests on decoding paths are sanitised (rule of C09; R03.3 delegates capacity-overflow panics to it)')
    out.rule('R11.1', 'descend_ref / ascend_ref are balanced on every path (rule of C11; the audited depth counter arithmetic relies on it)')
    shared.premises(cx, out, {'c09': {'R09.1'}, 'c11': {'R11.1'}})
    from . import positive
    positive.check(cx, out, 'C03')
