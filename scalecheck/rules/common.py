"""Shared helpers of the rule modules."""
from .. import sym, wire
from ..sym import strip, items, cat
from ..facts import tname, fkey

LIB = 'parity_scale_codec'


def lib_cfgs(cx, quick=('D',), thorough=('A', 'B', 'C', 'D', 'E')):
    cfgs = list(quick if cx.tier == 'quick' else thorough)
    cx.need(cfgs)
    return cfgs


def unit(out, facts):
    u = '%s[%s]' % (facts.crate, facts.cfg)
    out.units.add(u)
    out.unit = u
    return u


# ------------------------------------------------------------------------------------------
# paths through a term

TERMINAL = ('ERR', 'RET', 'PANIC', '?ERR')


def paths(t, limit=4000):
    """all linear event sequences through the term; loops are taken 0 or 1 times.  A path is a
    list of events; a path whose last event is terminal (ERR / RET / PANIC / ?ERR) left the
    function there."""
    res = _paths(t)
    if len(res) > limit:
        res = res[:limit]
    return res


def _seq(prefixes, nxt):
    out = []
    for p in prefixes:
        if p and p[-1][0] in TERMINAL:
            out.append(p)
        else:
            for q in nxt:
                out.append(p + q)
    return out


def _paths(t):
    k = t[0]
    if k == 'eps':
        return [[]]
    if k == 'cat':
        acc = [[]]
        for x in t[1]:
            acc = _seq(acc, _paths(x))
            if len(acc) > 20000:
                acc = acc[:20000]
        return acc
    if k == 'alt':
        out = []
        for d, x in t[2]:
            for p in _paths(x):
                out.append([['ARM', t[1], d]] + p)
        return out
    if k == 'star':
        body = _paths(t[2])
        out = [[['LOOP0', t[1]]]]
        for p in body:
            out.append([['LOOP1', t[1]]] + p + ([] if (p and p[-1][0] in TERMINAL) else [['LOOPEND', t[1]]]))
        return out
    if k == 'HELPER':
        # a `return` inside an inlined helper / callback leaves the helper, not the function under analysis
        out = []
        for p in _paths(t[2]):
            if p and p[-1][0] == 'RET':
                out.append(p[:-1] + [['HRET', t[1]]])
            else:
                out.append(p)
        return out
    if k == 'ONOK':
        return _paths(t[1])
    if k == '?':
        return [[['?ERR']], [['?OK']]]
    if k == 'PANIC' and len(t) > 1 and t[1] in ('expect', 'unwrap'):
        # `x.expect(..)` either panics or continues with the payload: two paths
        return [[t], [['NOPANIC', t[1]]]]
    return [[t]]


def events(t):
    """all events of a term in pre-order (no path sensitivity)"""
    return [x for x in sym.walk(t) if x[0] not in ('cat', 'alt', 'star', 'HELPER', 'ONOK', 'eps')]


def is_self_field(v, name=None):
    v = strip(v)
    return isinstance(v, tuple) and v[0] == 'field' and strip(v[1]) == ('self',) and (name is None or v[3] == name)


def contains(v, pred, depth=0):
    """does the symbolic value contain a sub-value satisfying pred?"""
    v = strip(v)
    if depth > 12 or (isinstance(v, tuple) and not v):
        return False
    if pred(v):
        return True
    if isinstance(v, tuple):
        for x in v[1:]:
            if isinstance(x, tuple) and contains(x, pred, depth + 1):
                return True
            if isinstance(x, list):
                for y in x:
                    if isinstance(y, tuple):
                        if contains(y, pred, depth + 1):
                            return True
                        # (idx, value) pairs of adt fields
                        if len(y) == 2 and isinstance(y[1], tuple) and contains(y[1], pred, depth + 1):
                            return True
    return False


def input_method_term(facts, fn, wrapped_field='input'):
    """term of a method of an `Input` impl of a wrapper type: `self.<wrapped_field>` is an Input"""
    ev = sym.Evaluator(facts)
    ctx = sym.Ctx(ev, fn)
    ps = fn['params']
    if ps and ps[0] and ps[0]['k'] == 'bind':
        ctx.env[ps[0]['v']] = ('self',)
    # parameters are named as in the trait declaration, whatever the impl calls them
    canon = {'read': ['into'], 'on_before_alloc_mem': ['size']}.get(fn.get('method'), [])
    for idx, p in enumerate(ps[1:]):
        if p and p['k'] == 'bind':
            ctx.env[p['v']] = ('param', canon[idx] if idx < len(canon) else p['name'], p.get('ty'))
    # which field of self is the wrapped input?
    adt = (fn.get('self_ty') or {}).get('path')
    a = facts.adt_by_path.get(adt)
    if a:
        for i, fld in enumerate(a['variants'][0]['fields']):
            # the wrapped input is the field that plays that role (a `&mut I`), whatever it is called
            if facts.canon_field(a['path'], fld['name']) == wrapped_field or fld['name'] == wrapped_field:
                ev.extra_inputs.append(('field', ('self',), i, wrapped_field))
                break
    v, t = ev.ev(fn['thir'], ctx)
    return t, v, ev


# ------------------------------------------------------------------------------------------
# small expression interpreter over symbolic values (used to decide guards semantically rather
# than by spelling: `x > 63`, `x >= 64`, `!(x < 64)` are the same function)

class ArithPanic(Exception):
    """the evaluated expression would panic (unsigned underflow, oversized shift, division by zero)"""


def eval_expr(v, leaf):
    """evaluate a symbolic value to an int/bool; `leaf(v)` supplies values of atoms (or None)"""
    v = strip(v)
    if not isinstance(v, tuple):
        return None
    r = leaf(v)
    if r is not None:
        return r
    k = v[0]
    if k == 'lit' and isinstance(v[1], (int, bool)):
        return v[1]
    if k == 'const' and v[2] is not None:
        return v[2]
    if k == 'un' and v[1] == 'Not':
        a = eval_expr(v[2], leaf)
        return None if a is None else ((not a) if isinstance(a, bool) else None)
    if k == 'cast':
        a = eval_expr(v[2], leaf)
        if a is None:
            return None
        bits = {'u8': 8, 'u16': 16, 'u32': 32, 'u64': 64, 'u128': 128, 'usize': 64}.get(v[1])
        if bits and isinstance(a, int) and not isinstance(a, bool):
            return a % (1 << bits)
        return int(a) if isinstance(a, bool) else None
    if k == 'conv':
        return eval_expr(v[1], leaf)
    if k == 'bin':
        a, b = eval_expr(v[2], leaf), eval_expr(v[3], leaf)
        if a is None or b is None:
            return None
        if v[1] == 'Sub' and isinstance(a, int) and isinstance(b, int) and a >= 0 and b >= 0 and a - b < 0:
            raise ArithPanic('subtraction underflow %d - %d' % (a, b))
        if v[1] in ('Shl', 'Shr') and isinstance(b, int) and (b < 0 or b >= 128):
            raise ArithPanic('shift by %d' % b)
        if v[1] in ('Div', 'Rem') and b == 0:
            raise ArithPanic('division by zero')
        try:
            return {'Eq': lambda: a == b, 'Ne': lambda: a != b, 'Lt': lambda: a < b, 'Le': lambda: a <= b,
                    'Gt': lambda: a > b, 'Ge': lambda: a >= b, 'And': lambda: bool(a) and bool(b),
                    'Or': lambda: bool(a) or bool(b), 'Add': lambda: a + b, 'Sub': lambda: a - b,
                    'Mul': lambda: a * b, 'Div': lambda: a // b if b else None, 'Rem': lambda: a % b if b else None,
                    'Shl': lambda: a << b, 'Shr': lambda: a >> b, 'BitOr': lambda: a | b, 'BitAnd': lambda: a & b,
                    }[v[1]]()
        except KeyError:
            return None
    if k == 'ifval':
        c = eval_expr(v[1], leaf)
        if c is None:
            return None
        return eval_expr(v[2] if c else v[3], leaf)
    if k == 'matchval':
        sv = eval_expr(v[1], leaf)
        if sv is None:
            return None
        for d, x in v[2]:
            if isinstance(d, tuple) and d[0] == 'pat':
                if d[2] is None or any(lo <= sv <= hi for lo, hi in d[2]):
                    return eval_expr(x, leaf)
            elif isinstance(d, tuple) and d[0] == 'guard':
                c = eval_expr(d[2], leaf)
                if c is None:
                    return None
                if c:
                    return eval_expr(x, leaf)
        return None
    if k == 'call' and v[1] == 'leading_zeros' and len(v) > 3:
        a = eval_expr(v[3][0], leaf)
        import re as _re
        m = _re.search(r'<impl (u|i)(\d+)>', v[2])
        if a is None or not m:
            return None
        bits = int(m.group(2))
        return bits - a.bit_length() if a >= 0 else 0
    if k == 'mutvar' and len(v) > 4 and not v[4]:
        return eval_expr(v[3], leaf)
    # operator traits called as methods (`&u8 << 2` resolves to `<&u8 as Shl<i32>>::shl`)
    _ops = {'shl': 'Shl', 'shr': 'Shr', 'add': 'Add', 'sub': 'Sub', 'mul': 'Mul', 'div': 'Div', 'rem': 'Rem', 'bitor': 'BitOr', 'bitand': 'BitAnd'}
    if k == 'call' and v[1] in _ops and len(v) > 3 and len(v[3]) == 2 and 'core::ops::' in str(v[2]):
        return eval_expr(('bin', _ops[v[1]], v[3][0], v[3][1]), leaf)
    if k in ('ref', 'deref') and len(v) > 1:
        return eval_expr(v[1], leaf)
    if k == 'call' and v[1] in ('unwrap_or', 'unwrap_or_default', 'unwrap_or_else') and len(v) > 3 and v[3]:
        # `a.checked_op(b).unwrap_or(d)`: the exact result, or d where it does not fit the type
        inner = strip(v[3][0])
        if isinstance(inner, tuple) and inner and inner[0] == 'call' and inner[1] in ('checked_div', 'checked_rem') and len(inner[3]) == 2:
            a, b = eval_expr(inner[3][0], leaf), eval_expr(inner[3][1], leaf)
            if a is None or b is None:
                return None
            if b != 0:
                return a // b if inner[1] == 'checked_div' else a % b
            if v[1] == 'unwrap_or' and len(v[3]) > 1:
                return eval_expr(v[3][1], leaf)
            return 0 if v[1] == 'unwrap_or_default' else None
        if isinstance(inner, tuple) and inner and inner[0] == 'call' and inner[1] in ('checked_add', 'checked_sub', 'checked_mul') and len(inner[3]) == 2:
            import re as _re
            a, b = eval_expr(inner[3][0], leaf), eval_expr(inner[3][1], leaf)
            if a is None or b is None:
                return None
            m = _re.search(r'<impl u(\d+|size)>', str(inner[2]))
            bits = 64 if not m or m.group(1) == 'size' else int(m.group(1))
            r = {'checked_add': a + b, 'checked_sub': a - b, 'checked_mul': a * b}[inner[1]]
            if 0 <= r < (1 << bits):
                return r
            if v[1] == 'unwrap_or' and len(v[3]) > 1:
                return eval_expr(v[3][1], leaf)
            if v[1] == 'unwrap_or_default':
                return 0
            return None
        if isinstance(inner, tuple) and inner and inner[0] == 'call' and inner[1] in ('try_into', 'try_from') and inner[3]:
            # a fallible integer conversion with a fallback: the value where it fits the target, else the fallback
            a = eval_expr(inner[3][0], leaf)
            ga = [g for g in (inner[4] or ()) if g in ('u8', 'u16', 'u32', 'u64', 'u128', 'usize')]
            tgt = (ga[1] if inner[1] == 'try_into' and len(ga) > 1 else ga[0]) if ga else None
            if a is None or tgt is None or not isinstance(a, int) or isinstance(a, bool):
                return None
            bits = {'u8': 8, 'u16': 16, 'u32': 32, 'u64': 64, 'u128': 128, 'usize': 64}[tgt]
            if 0 <= a < (1 << bits):
                return a
            if v[1] == 'unwrap_or' and len(v[3]) > 1:
                return eval_expr(v[3][1], leaf)
            return 0 if v[1] == 'unwrap_or_default' else None
    if k == 'call' and v[1] in ('into', 'from') and len(v) > 3 and len(v[3]) == 1:
        return eval_expr(v[3][0], leaf)
    if k == 'call' and v[1] in ('saturating_add', 'wrapping_add', 'saturating_sub', 'min', 'max', 'saturating_mul', 'saturating_div'):
        a, b = eval_expr(v[3][0], leaf), eval_expr(v[3][1], leaf)
        if a is None or b is None:
            return None
        if v[1] == 'saturating_div':
            if b == 0:
                raise ArithPanic('division by zero')
            return a // b
        if v[1] == 'saturating_mul':
            import re as _re
            m = _re.search(r'<impl u(\d+|size)>', str(v[2]))
            bits = 64 if not m or m.group(1) == 'size' else int(m.group(1))
            return min(a * b, (1 << bits) - 1)
        if v[1] == 'saturating_add':
            import re as _re
            m = _re.search(r'<impl u(\d+|size)>', str(v[2]))
            if m:
                bits = 64 if m.group(1) == 'size' else int(m.group(1))
                return min(a + b, (1 << bits) - 1)
        return {'saturating_add': a + b, 'wrapping_add': a + b, 'saturating_sub': max(a - b, 0), 'min': min(a, b), 'max': max(a, b)}[v[1]]
    return None


def chunk_bound_ok(expr, maxp):
    """`expr` is the per-chunk element allowance MAX_PREALLOCATION / size_of::<T>() (usize::MAX for zero-sized T), however
    it is computed (`checked_div(..).unwrap_or(MAX)`, a match on the size, an if): decided by evaluating it for a range of
    element sizes"""
    if not isinstance(maxp, int) or not (0 < maxp <= 16 * 1024):
        return False
    for sz in (0, 1, 2, 3, 7, 8, 16, 24, 1000, 16384, 16385, 10 ** 6):
        def leaf(x, sz=sz):
            x = strip(x)
            if isinstance(x, tuple) and x and x[0] == 'call' and x[1] == 'size_of' and not x[3]:
                return sz
            return None
        try:
            got = eval_expr(expr, leaf)
        except ArithPanic:
            return False
        want = (2 ** 64 - 1) if sz == 0 else maxp // sz
        if got != want:
            return False
    return True


def abstract_helpers(t, names):
    """replace HELPER sub-terms of the named crate-local functions by a single ['KERNEL', name]
    event (the function is then analysed on its own)"""
    k = t[0]
    if k == 'HELPER':
        if t[1] in names:
            return ['KERNEL', t[1]]
        return ['HELPER', t[1], abstract_helpers(t[2], names)]
    if k == 'cat':
        return ['cat', [abstract_helpers(x, names) for x in t[1]]]
    if k == 'alt':
        return ['alt', t[1], [(d, abstract_helpers(x, names)) for d, x in t[2]]]
    if k == 'star':
        return ['star', t[1], abstract_helpers(t[2], names)]
    if k == 'ONOK':
        return ['ONOK', abstract_helpers(t[1], names)]
    return t


def decoder_fns(facts):
    """(fn, kind) for every decoding entry point and helper of the crate: methods of Decode /
    WrapperTypeDecode impls and defaults, plus crate-local free functions that take an Input"""
    out = []
    for f in facts.fns:
        if not f.get('thir') or f['kind'] not in ('Fn', 'AssocFn'):
            continue
        tr = tname(f['trait']) if f.get('trait') else None
        if f['ctx'] in ('trait_impl', 'trait_default') and tr in ('Decode', 'WrapperTypeDecode') and f['method'] in (
                'decode', 'decode_into', 'skip', 'decode_wrapped'):
            out.append((f, 'method'))
        elif f['ctx'] == 'free' and any(p.endswith(': codec::Input') for p in f.get('preds', [])):
            if covered_by_callers(facts, f):
                continue
            out.append((f, 'helper'))
    return out


def covered_by_callers(facts, f):
    """a crate-private generic helper that takes the input is inlined into each of its callers by the evaluator (with the
    caller's types in place of its parameters): its paths are analysed there, in context.  Analysing it once more on its
    own, with every type unknown, adds nothing and cannot know what the callers pass.  The helpers the rules know by role
    (the vector kernel) are analysed on their own as well."""
    if f.get('vis') == 'Public' or f.get('trait') or f.get('impl') or f['kind'] != 'Fn':
        return False
    if role_of(facts, f) is not None:
        return False
    refs = referrers(facts).get(f['path'], set())
    if not refs:
        return False
    # every referrer is itself analysed (a decoding method or another helper)
    return True


# ------------------------------------------------------------------------------------------
# deterministic abstract execution of a decoder term under a valuation of its atoms

def outcomes(term, leaf, depth=0):
    """set of exits {'OK','ERR','PANIC'} reachable when the atoms of the branch conditions take the
    values given by `leaf` (input exhaustion, i.e. the error edge of `?`, is ignored).  Where a
    condition cannot be evaluated both branches are followed."""
    res = set()
    its = items(term)

    def run(idx):
        i = idx
        while i < len(its):
            e = its[i]
            k = e[0]
            if k == 'ERR':
                return {'ERR'}
            if k == 'PANIC':
                return {'PANIC'}
            if k == 'RET':
                return {'OK'}
            if k == 'alt':
                chosen = choose_arms(e, leaf)
                acc = set()
                cont = False
                for x in chosen:
                    r = outcomes(x, leaf, depth + 1)
                    if 'OK' in r:
                        cont = True
                    acc |= (r - {'OK'})
                if not cont:
                    return acc
                rest = run(i + 1)
                return acc | rest
            if k == 'star':
                r = outcomes(e[2], leaf, depth + 1)
                if 'OK' not in r:
                    # the loop may also run zero times
                    return r | run(i + 1)
                rest = run(i + 1)
                return (r - {'OK'}) | rest
            if k in ('HELPER',):
                r = outcomes(e[2], leaf, depth + 1)
                if 'OK' not in r:
                    return r
                return (r - {'OK'}) | run(i + 1)
            if k == 'ONOK':
                r = outcomes(e[1], leaf, depth + 1)
                if 'OK' not in r:
                    return r
                return (r - {'OK'}) | run(i + 1)
            i += 1
        return {'OK'}

    return run(0)


def choose_arms(alt, leaf):
    scrut = alt[1]
    arms = alt[2]
    try:
        return _choose_arms(alt, leaf)
    except ArithPanic:
        return [['PANIC', 'arithmetic', None]]


def _choose_arms(alt, leaf):
    scrut = alt[1]
    arms = alt[2]
    if isinstance(scrut, tuple) and scrut and scrut[0] == 'if':
        c = eval_expr(scrut[1], leaf)
        if c is None:
            return [x for _, x in arms]
        want = 'true' if c else 'false'
        return [x for d, x in arms if d == want]
    # a match on the Result of a lossless integer conversion: `match u32::try_from(n) { Ok(k) => .., Err(_) => .. }`
    sc = strip(scrut)
    if isinstance(sc, tuple) and sc and sc[0] == 'call' and sc[1] in ('try_from', 'try_into') and sc[3]:
        import re as _re
        m = _re.search(r'for (u8|u16|u32|u64|u128|usize|i8|i16|i32|i64|i128|isize)>', sc[2] or '')
        tgt = m.group(1) if m else (sc[4][0] if len(sc) > 4 and sc[4] and sc[4][0] in ('u8', 'u16', 'u32', 'u64', 'u128', 'usize') else None)
        val = eval_expr(sc[3][0], leaf)
        if tgt and val is not None and isinstance(val, int):
            bits = {'u8': 8, 'u16': 16, 'u32': 32, 'u64': 64, 'u128': 128, 'usize': 64, 'i8': 7, 'i16': 15, 'i32': 31, 'i64': 63, 'i128': 127, 'isize': 63}[tgt]
            fits = 0 <= val < (1 << bits)
            want = 'Ok' if fits else 'Err'
            pick = [x for d, x in arms if isinstance(d, tuple) and d[0] == 'pat' and isinstance(d[1], str) and d[1].startswith(want)]
            if pick:
                return pick[:1]
            rest = [x for d, x in arms if isinstance(d, tuple) and d[0] == 'pat' and (d[1] == '_' or not (d[1].startswith('Ok') or d[1].startswith('Err')))]
            if rest:
                return rest[:1]
    # a match on a tuple of integers: `match (prefix % 4, prefix >> 2) { (3, 0) => .., (3, _) => .., .. }`
    if isinstance(sc, tuple) and sc and sc[0] == 'tuple' and any(isinstance(d, tuple) and len(d) > 3 for d, _ in arms):
        comps = [eval_expr(c_, leaf) for c_ in sc[1]]
        if all(c_ is not None for c_ in comps):
            for d, x in arms:
                if isinstance(d, tuple) and d[0] == 'pat' and len(d) > 3 and len(d[3]) == len(comps):
                    if all(pi is None or any(lo <= cv <= hi for lo, hi in pi) for pi, cv in zip(d[3], comps)):
                        return [x]
                elif isinstance(d, tuple) and d[0] == 'pat' and d[2] is None and (d[1] == '_' or d[1].startswith('_')):
                    return [x]
                elif isinstance(d, tuple) and d[0] == 'guard':
                    return [y for _, y in arms]
            return []
    sv = eval_expr(scrut, leaf)
    if sv is None:
        return [x for _, x in arms]
    for d, x in arms:
        if isinstance(d, tuple) and d[0] == 'pat':
            if d[2] is None:
                if d[1] == '_' or d[1].startswith('_'):
                    return [x]
                # binding pattern (catch-all with a name)
                return [x]
            if any(lo <= sv <= hi for lo, hi in d[2]):
                return [x]
        elif isinstance(d, tuple) and d[0] == 'guard':
            c = eval_expr(d[2], leaf)
            if c is None:
                return [x for _, x in arms]
            if c:
                return [x]
    return []


def trace(term, leaf):
    """the event sequence of the unique path taken under the valuation `leaf`; returns
    (events, status) with status in {'OK','ERR','PANIC','AMBIG'}; loops are kept as star events"""
    evs = []

    def run(t):
        for e in items(t):
            k = e[0]
            if k == 'ERR':
                evs.append(e)
                return 'ERR'
            if k == 'PANIC':
                evs.append(e)
                return 'PANIC'
            if k == 'RET':
                evs.append(e)
                return 'RET'
            if k == 'alt':
                ch = choose_arms(e, leaf)
                if len(ch) != 1:
                    # an undecidable assertion (every arm is empty or only panics) does not change the outputs
                    if all(all(y[0] in ('PANIC', 'ERR', 'cat', 'eps', 'alt') for y in sym.walk(x)) for x in ch):
                        evs.append(['MAYPANIC', e])
                        continue
                    return 'AMBIG'
                r = run(ch[0])
                if r != 'OK':
                    return r
            elif k in ('HELPER',):
                r = run(e[2])
                if r not in ('OK', 'RET'):
                    return r
            elif k == 'ONOK':
                r = run(e[1])
                if r != 'OK':
                    return r
            else:
                evs.append(e)
        return 'OK'
    st = run(term)
    return evs, ('OK' if st == 'RET' else st)


# ------------------------------------------------------------------------------------------
# structural identification of the crate-private helper functions (their names may change)

_roles_cache = {}


def _local_calls(fn, facts):
    from .c08 import _walk_thir
    out = []
    for g in [fn] + facts.closures_of(fn):
        for node, _p in _walk_thir(g.get('thir'), [], g):
            if node.get('k') == 'call' and node.get('local') and not node.get('trait') and node['f'] in facts.by_path:
                out.append(facts.by_path[node['f']])
    return out


def roles(facts):
    """private helpers by role, found from the public / trait-level anchors that call them:
    with_len (pub fn decode_vec_with_len) -> bulk (bound ToMutByteSlice) / items -> chunk (called by both);
    <[T] as Encode>::encode_to -> len_to (returns Result) / slice_no_len; [T; N]::decode_into -> array_bytesize"""
    key = id(facts)
    if key in _roles_cache:
        return _roles_cache[key]
    r = {}
    wl = facts.by_path.get('codec::decode_vec_with_len')
    if wl:
        r['with_len'] = wl
        for g in _local_calls(wl, facts):
            if any(p.endswith('ToMutByteSlice') for p in g.get('preds', [])):
                r['bulk'] = g
            elif any(p.endswith(': codec::Input') for p in g.get('preds', [])):
                r['items'] = g
        if 'bulk' in r and 'items' in r:
            a = {g['path'] for g in _local_calls(r['bulk'], facts)}
            b = {g['path'] for g in _local_calls(r['items'], facts)}
            common = sorted(a & b)
            if common:
                r['chunk'] = facts.by_path[common[0]]
    se = facts.impl_method('Encode', '[T]', 'encode_to')
    if se:
        for g in _local_calls(se, facts):
            if 'Result' in (g.get('output') or ''):
                r['len_to'] = g
            else:
                r['slice_no_len'] = g
    ad = facts.impl_method('Decode', '[T; N]', 'decode_into')
    if ad:
        for g in _local_calls(ad, facts):
            if g.get('output') == 'usize':
                r['array_bytesize'] = g
    _roles_cache[key] = r
    return r


def bind_slice_dest(f, ctx):
    """bind the two parameters of the slice encoder by what they are, not by position: the output is the `&mut W` with
    `W: Output`, the other one is the slice"""
    outs = {q.split(':')[0].strip() for q in f.get('preds', []) if q.endswith(': codec::Output')}
    ps = [q for q in f['params'] if q and q.get('k') == 'bind']
    dest = [q for q in ps if (q.get('ty') or '').replace('&mut ', '').strip() in outs and (q.get('ty') or '').startswith('&mut ')]
    rest = [q for q in ps if q not in dest]
    if len(dest) != 1 or len(rest) != 1:
        # fall back to the order of the pinned tree
        dest, rest = [f['params'][1]], [f['params'][0]]
    ctx.env[rest[0]['v']] = ('param', 'slice', None)
    ctx.env[dest[0]['v']] = ('dest',)


def norm_cmp(c):
    """an order comparison in canonical form (op, a, b) with op in Gt / Ge / Eq / Ne: `a < b` is `b > a`, `a <= b` is
    `b >= a`, `!(a <= b)` is `a > b`, ...; None for anything else"""
    c = strip(c)
    neg = False
    while isinstance(c, tuple) and c and c[0] == 'un' and c[1] == 'Not':
        c = strip(c[2])
        neg = not neg
    if not (isinstance(c, tuple) and c and c[0] == 'bin' and len(c) >= 4 and c[1] in ('Lt', 'Le', 'Gt', 'Ge', 'Eq', 'Ne')):
        return None
    op, a, b = c[1], strip(c[2]), strip(c[3])
    if neg:
        op = {'Lt': 'Ge', 'Le': 'Gt', 'Gt': 'Le', 'Ge': 'Lt', 'Eq': 'Ne', 'Ne': 'Eq'}[op]
    if op == 'Lt':
        op, a, b = 'Gt', b, a
    elif op == 'Le':
        op, a, b = 'Ge', b, a
    return (op, a, b)


PRIM_BYTES = {'u8': 1, 'i8': 1, 'u16': 2, 'i16': 2, 'u32': 4, 'i32': 4, 'f32': 4, 'u64': 8, 'i64': 8, 'f64': 8, 'u128': 16, 'i128': 16}


def whole_byte_view(v):
    """(S, k) if v is the byte view of a whole slice S of k-byte elements built from raw parts:
    `core::slice::from_raw_parts(S.as_ptr().cast::<u8>(), S.len() * k)` (either order of the product; `size_of_val(S)`
    gives k = None, to be read as "whatever the element size is"); None otherwise"""
    v = strip(v)
    if not (isinstance(v, tuple) and len(v) > 4 and v[0] == 'call' and v[1] == 'from_raw_parts' and len(v[3]) == 2):
        return None
    if not (v[4] and str(v[4][-1]) == 'u8'):
        return None
    p, n = strip(v[3][0]), strip(v[3][1])
    for _ in range(3):
        if isinstance(p, tuple) and p and ((p[0] == 'call' and p[1] == 'cast' and p[3]) or p[0] == 'cast'):
            p = strip(p[3][0]) if p[0] == 'call' else strip(p[2])
        else:
            break
    if not (isinstance(p, tuple) and len(p) > 3 and p[0] == 'call' and p[1] == 'as_ptr' and len(p[3]) == 1):
        return None
    S = strip(p[3][0])
    if isinstance(n, tuple) and n and n[0] == 'call' and n[1] == 'size_of_val' and len(n[3]) == 1 and strip(n[3][0]) == S:
        return (S, None)
    if isinstance(n, tuple) and n and n[0] == 'bin' and n[1] == 'Mul':
        for a, b in ((strip(n[2]), strip(n[3])), (strip(n[3]), strip(n[2]))):
            if isinstance(a, tuple) and len(a) > 3 and a[0] == 'call' and a[1] == 'len' and len(a[3]) == 1 and strip(a[3][0]) == S:
                if isinstance(b, tuple) and b and b[0] == 'lit' and isinstance(b[1], int):
                    return (S, b[1])
                if isinstance(b, tuple) and len(b) > 4 and b[0] == 'call' and b[1] == 'size_of' and b[4]:
                    return (S, PRIM_BYTES.get(str(b[4][0])))
    return None


def norm_arms(p):
    """path events with `if let Pat = x {..} else {..}` edges written as the edges of `match x { Pat => .., _ => .. }`"""
    out = []
    for e in p:
        if e[0] == 'ARM' and isinstance(e[1], tuple) and e[1] and e[1][0] == 'if':
            c = strip(e[1][1])
            if isinstance(c, tuple) and c and c[0] == 'letcond' and isinstance(c[1], str) and len(c) > 2:
                lab = c[1].split('(')[0]
                out.append(['ARM', c[2], ('pat', lab if e[2] == 'true' else '_', None)] + list(e[3:]))
                continue
        out.append(e)
    return out


def role_name(facts, role):
    g = roles(facts).get(role)
    return tname(g['path']) if g else '<missing %s>' % role


def role_of(facts, fn):
    for k, g in roles(facts).items():
        if g['path'] == fn['path']:
            return k
    return None


_ref_cache = {}


def referrers(facts):
    """path of a local fn -> set of paths of the local fns (closures folded into their parent) that call it or pass it
    as a fn item"""
    key = id(facts)
    if key in _ref_cache:
        return _ref_cache[key]
    from .c08 import _walk_thir
    idx = {}
    for g in facts.fns:
        owner = g
        while owner['kind'] in ('Closure', 'InlineConst') and owner.get('parent') in facts.by_path:
            owner = facts.by_path[owner['parent']]
        for node, _p in _walk_thir(g.get('thir'), [], g):
            tgt = None
            if node.get('k') == 'call' and node.get('local') and not node.get('trait'):
                tgt = node.get('f')
            elif node.get('k') == 'zst' and node.get('fn'):
                tgt = node['fn']
                if tgt.startswith('parity_scale_codec::'):
                    tgt = tgt[len('parity_scale_codec::'):]
            if tgt and tgt in facts.by_path and tgt != owner['path']:
                idx.setdefault(tgt, set()).add(owner['path'])
    _ref_cache[key] = idx
    return idx


def _role_owner(facts, fn, depth=0):
    """role of the helper a private free function was factored out of: every reference to it comes from functions
    that belong to one and the same role"""
    ro = role_of(facts, fn)
    if ro or depth > 3:
        return ro
    if fn['kind'] != 'Fn' or fn.get('trait') or fn.get('impl') or fn.get('vis') == 'Public':
        return None
    refs = referrers(facts).get(fn['path'], set())
    if not refs:
        return None
    got = set()
    for r in refs:
        g = facts.by_path.get(r)
        got.add(_role_owner(facts, g, depth + 1) if g else None)
    if len(got) == 1 and None not in got:
        return got.pop()
    return None


def stable_fkey(facts, fn):
    """like fkey, but crate-private helpers are named by their role so that a rename does not change keys; a private
    function factored out of such a helper (referenced from nowhere else) carries the helper's name"""
    owner = fn
    if fn['kind'] in ('Closure', 'InlineConst') and fn.get('parent') in facts.by_path:
        owner = facts.by_path[fn['parent']]
    ro = role_of(facts, owner)
    if ro:
        k = fkey(fn)
        return k.replace(owner['path'], 'helper:' + ro)
    if owner is fn and fn['kind'] == 'Fn' and not fn.get('trait') and not fn.get('impl'):
        ro = _role_owner(facts, fn)
        if ro:
            return 'helper:' + ro
        # a private function referenced from exactly one other function was factored out of it: it carries its name
        if fn.get('vis') != 'Public':
            so = _single_owner(facts, fn)
            if so is not None:
                return stable_fkey(facts, so)
    if owner is fn and fn['kind'] == 'AssocFn' and not fn.get('trait') and fn.get('vis') not in ('Public', None) and fn.get('ctx') not in ('trait_impl', 'trait_default'):
        # likewise a private inherent method used by exactly one function
        so = _single_owner(facts, fn)
        if so is not None and so is not fn:
            return stable_fkey(facts, so)
    return fkey(fn)


def _single_owner(facts, fn, depth=0):
    if depth > 3:
        return None
    refs = referrers(facts).get(fn['path'], set())
    if len(refs) != 1:
        return None
    g = facts.by_path.get(next(iter(refs)))
    if g is None or g is fn:
        return None
    if g['kind'] == 'Fn' and not g.get('trait') and not g.get('impl') and g.get('vis') != 'Public' and role_of(facts, g) is None:
        up = _single_owner(facts, g, depth + 1)
        return up if up is not None else g
    return g



# ------------------------------------------------------------------------------------------ canonical slice views
def slice_view(v):
    """canonical (base, from, to) of a sub-slice expression, whatever its spelling:
       x[..n] / x[a..] / x[a..b] / x.split_at(n).0 / .1 / x[a..][..n] / x.split_first_mut() parts.
    `from` / `to` are symbolic values; to == None means "to the end", from == None means 0.  Returns None when `v` is
    not a recognised view (the base itself is returned as (v, None, None))."""
    v = strip(v)
    if not isinstance(v, tuple) or not v:
        return None
    if v[0] == 'mutvar':
        return slice_view(v[3])

    def rng(r):
        r = strip(r)
        if isinstance(r, tuple) and r and r[0] == 'adt':
            nm = r[1]
            fs = dict(r[3])
            if nm.endswith('RangeTo'):
                return (None, fs.get(0))
            if nm.endswith('RangeFrom'):
                return (fs.get(0), None)
            if nm.endswith('RangeFull'):
                return (None, None)
            if nm.endswith('ops::range::Range'):
                return (fs.get(0), fs.get(1))
        return 'no'

    def add(a, b):
        if a is None:
            return b
        if b is None:
            return a
        return ('bin', 'Add', a, b)
    if (v[0] == 'call' and v[1] in ('index', 'index_mut') and len(v[3]) == 2) or v[0] == 'index':
        base, r = (v[3][0], v[3][1]) if v[0] == 'call' else (v[1], v[2])
        rr = rng(r)
        if rr == 'no':
            return None
        inner = slice_view(base) or (strip(base), None, None)
        b0, f0, t0 = inner
        lo, hi = rr
        nf = add(f0, lo)
        nt = add(f0, hi) if hi is not None else t0
        return (b0, nf, nt)
    if v[0] == 'field' and isinstance(strip(v[1]), tuple) and strip(v[1])[0] == 'call' and strip(v[1])[1] in ('split_at', 'split_at_mut') and len(strip(v[1])[3]) == 2:
        c = strip(v[1])
        inner = slice_view(c[3][0]) or (strip(c[3][0]), None, None)
        b0, f0, t0 = inner
        n = c[3][1]
        if v[2] == 0:
            return (b0, f0, add(f0, n))
        return (b0, add(f0, n), t0)
    if v[0] == 'call' and v[1] in ('deref', 'deref_mut', 'as_ref', 'as_mut', 'as_slice', 'as_mut_slice', 'borrow') and len(v[3]) == 1:
        inner = slice_view(v[3][0])
        return inner if inner else (strip(v[3][0]), None, None)
    return (v, None, None)


def view_str(view):
    """printable canonical form 'base[from..to]' (for comparison)"""
    if view is None:
        return '?'
    b, f, t = view
    return '%s[%s..%s]' % (sym.vstr(b), sym.vstr(f) if f is not None else '0', sym.vstr(t) if t is not None else '')



# ------------------------------------------------------------------------------------------ the array drop guard, by structure
def array_guard(facts):
    """the drop guard of `<[T; N] as Decode>::decode_into`, found by structure (a struct nested in that function with a
    `usize` counter field and a `&mut [MaybeUninit<T>; N]` field, and a Drop impl), whatever it and its fields are called.
    -> {'path', 'short', 'count', 'slice', 'drop': fn or None} or None"""
    for a in facts.adts:
        if not a['path'].startswith('<[T; N] as codec::Decode>::decode_into::') or a['kind'] != 'struct' or not a['variants']:
            continue
        fs = a['variants'][0]['fields']
        cnt = [f for f in fs if f['ty'] == 'usize']
        slc = [f for f in fs if 'MaybeUninit<T>; N]' in f['ty'] and f['ty'].startswith('&')]
        if len(fs) == 2 and len(cnt) == 1 and len(slc) == 1:
            short = a['path'].split('::')[-1]
            drops = [g for g in facts.fns if g.get('method') == 'drop' and g['kind'] == 'AssocFn' and ('decode_into::%s<' % short) in (g.get('self') or '')]
            return {'path': a['path'], 'short': short, 'count': cnt[0]['name'], 'slice': slc[0]['name'],
                    'count_idx': fs.index(cnt[0]), 'slice_idx': fs.index(slc[0]), 'drop': drops[0] if len(drops) == 1 else None}
    return None


def guard_canon(text, g, term=None):
    """rewrite the printed form of values so that the guard reads `state.count` / `state.slice` / `State`"""
    if not g:
        return text
    import re as _re
    local = None
    if term is not None:
        for x in sym.walk(term):
            for v in (x[1:] if isinstance(x, list) else ()):
                pass
    out = text
    # field accesses through any local:  mut <local>.<count>  ->  mut state.count
    out = _re.sub(r'\bmut (\w+)\.%s\b' % _re.escape(g['count']), 'mut state.count', out)
    out = _re.sub(r'\bmut (\w+)\.%s\b' % _re.escape(g['slice']), 'mut state.slice', out)
    out = _re.sub(r'\bself\.%s\b' % _re.escape(g['count']), 'self.count', out)
    out = _re.sub(r'\bself\.%s\b' % _re.escape(g['slice']), 'self.slice', out)
    out = out.replace('%s::%s{' % (g['short'], g['short']), 'State::State{')
    return out



def select_value(v, leaf, depth=0):
    """the leaf value a conditional value takes under the valuation `leaf` (ifval / matchval resolved by evaluation,
    Result wrappers looked through); None when a condition cannot be decided"""
    v = strip(v)
    if depth > 12 or not isinstance(v, tuple) or not v:
        return v
    if v[0] == 'res':
        return select_value(v[1], leaf, depth + 1)
    if v[0] == 'ifval':
        try:
            c = eval_expr(v[1], leaf)
        except ArithPanic:
            return None
        if c is None:
            return None
        return select_value(v[2] if c else v[3], leaf, depth + 1)
    if v[0] == 'matchval':
        try:
            sv = eval_expr(v[1], leaf)
        except ArithPanic:
            return None
        if sv is None:
            return None
        for d, x in v[2]:
            if isinstance(d, tuple) and d[0] == 'pat':
                if d[2] is None or any(lo <= sv <= hi for lo, hi in d[2]):
                    return select_value(x, leaf, depth + 1)
            elif isinstance(d, tuple) and d[0] == 'guard':
                c = eval_expr(d[2], leaf)
                if c is None:
                    return None
                if c:
                    return select_value(x, leaf, depth + 1)
        return None
    return v
