"""C05 — derived codecs implement the declared layout for every type definition (DESIGN §6 C05)."""
import json
import os
from .common import *
from .. import shape, decshape, types as T, corpusgen, facts as factsmod
from . import c02, c03, c07, c13

LEVEL = 'translation_validation'
EXPLANATION = (
    'Translation validation of the derive macros: a deterministic generator writes a fixture crate of type '
    'definitions covering the attribute grammar (named/tuple/unit structs with 0-4 fields x {plain, skip, compact, '
    'encoded_as}; enums with 0-6 unit/tuple/named variants x index source {implicit, #[codec(index)], explicit '
    'discriminant, both} x skip, incl. all-variants-skipped; generics incl. compact and skip-only parameters; '
    'repr(transparent) newtypes with and without ZST companions and with attributes; single-non-skipped-field '
    'structs). rustc runs the macros on it under the fact-extraction driver; the generated impls are analysed, never '
    'executed. Per definition: R05.1 the wire shape inferred from the derived Encode impl equals the layout computed '
    'independently from the definition (fields in declaration order in their selected representation, index byte = '
    'attribute > discriminant > position among non-skipped variants); the sidecar is cross-checked against the '
    'structure rustc compiled (field types and order, repr(transparent), discriminants). R05.2 the derived decoder mirrors it (C02 R02.1), accepts exactly '
    'the declared index bytes and rejects all others (C03 R03.1), skipped fields are Default::default(). R05.3 no '
    'derived Encode impl leaves the three mutually defined default methods in place; all overridden methods agree '
    '(C07 R07.1). R05.5 the in-place decode_into of repr(transparent) structs exists only when no field carries an '
    'attribute, and decodes the fields in order. R10.5 init-then-exit: after an in-place field decode succeeded, a '
    'later failing field leaves without dropping it (known finding D4 for multi-field transparent structs). R13.2 '
    'derived max_encoded_len >= maxlen of the declared layout.')
ASSUMPTIONS = ['definitions outside the generated family are not covered (finite grammar: <= 4 fields, <= 6 variants, pool of 14 field types)',
               'C01-C04 for the library types the fields are made of', 'rustc expands the macros as cargo would for a user crate']


def tojson(x):
    return json.loads(json.dumps(x))


def tupl(x):
    if isinstance(x, list):
        return tuple(tupl(y) for y in x)
    if isinstance(x, tuple):
        return tuple(tupl(y) for y in x)
    return x


def flat(w):
    """canonical form: nested cats flattened, eps dropped, alts keyed by tag"""
    w = tupl(w)
    k = w[0]
    if k == 'cat':
        return shape.wcat([flat(x) for x in w[1]])
    if k == 'alt':
        arms = []
        for lab, x in w[1]:
            fx = flat(x)
            if lab == '_' and fx == ('eps',):
                continue
            arms.append((lab, fx))
        return ('alt', arms)
    if k == 'seq':
        return ('seq', flat(w[1]))
    if k == 'rep':
        return ('rep', flat(w[1]), str(w[2]))
    return w


def cmp_form(w):
    return c02.norm(flat(w))


def _first_error(txt):
    import re as _re
    m = _re.search(r'(error(\[E\d+\])?: [^\n]+)', txt)
    return (m.group(1) if m else txt.strip().split('\n')[-1])[:300]


def corpus_facts(cx, need_artefacts=False):
    d = os.path.join(factsmod.WORK, 'gen', 'corpus-%s-%d' % (cx.tier, cx.seed))
    defs = corpusgen.write_fixture(d, cx.tier, cx.seed)
    fx = cx.fixture('corpus', d, need_artefacts=need_artefacts)
    return fx, defs


def hir_attr_of(field):
    for a in field.get('attrs', []):
        if a['path'] == 'codec':
            s = a['args']
            if s.strip() == 'skip':
                return 'skip'
            if s.strip() == 'compact':
                return 'compact'
            if s.strip().startswith('encoded_as'):
                return 'encoded_as'
    return 'none'


def cross_check_sidecar(out, fx_adts, d):
    """two independent readings of the definition must agree"""
    a = fx_adts.get('m::' + d['name'])
    if not a:
        out.fail('R05.1', 'sidecar/%s' % d['name'], 'definition not found in the compiled fixture', '-')
        return False
    ok = True
    # (derive helper attributes are dropped when rustc lowers to HIR on this toolchain, so only the
    # structure can be read back: field types and order, repr(transparent), explicit discriminants)
    if d['kind'] == 'struct':
        fs = a['variants'][0]['fields'] if a['variants'] else []
        ok = [_short_ty(f['ty']) for f in fs] == [_short_ty(f['ty']) for f in d['fields']] and a['transparent'] == bool(d.get('transparent'))
    else:
        ok = len(a['variants']) == len(d['variants'])
        if ok:
            for hv, sv in zip(a['variants'], d['variants']):
                ok = ok and hv['name'] == sv['name'] and hv['explicit_discr'] == ('discr' in sv)
                ok = ok and [_short_ty(f['ty']) for f in hv['fields']] == [_short_ty(f['ty']) for f in sv['fields']]
                if 'discr' in sv:
                    ok = ok and str(hv['discr']) == str(sv['discr'])
    out.ob('R05.1', 'sidecar/%s' % d['name'], ok, 'the generator\'s description and the definition rustc compiled disagree', a['loc'])
    return ok


def run(cx, out):
    """thorough tier: three corpora (seeds s, s+1, s+2: the systematic part is the same, the random part differs)"""
    if cx.tier == 'thorough' and not getattr(cx, '_seed_loop', False) and not getattr(cx, 'nested', 0):
        cx._seed_loop = True
        base = cx.seed
        try:
            for sd in (base, base + 1, base + 2):
                cx.seed = sd
                cx._fixtures.pop('corpus', None)
                _run(cx, out)
                out.count('corpus seeds analysed', 1)
        finally:
            cx.seed = base
            cx._seed_loop = False
            cx._fixtures.pop('corpus', None)
        return
    _run(cx, out)


def _run(cx, out):
    out.rule('R05.1', 'derived encoder shape == layout computed from the definition (independent oracle)')
    out.rule('R05.2', 'derived decoder mirrors it; accepts exactly the declared index bytes; skipped fields defaulted')
    out.rule('R05.3', 'derived Encode impls override an output method; overridden methods agree (R07.1)')
    out.rule('R05.5', 'in-place decode_into only for attribute-free repr(transparent) structs, fields in order')
    out.rule('R10.5', 'no exit after a successful in-place field decode without dropping it')
    out.rule('R13.2', 'derived max_encoded_len >= maxlen(declared layout)')
    cx.need(['D'])
    lib = cx.facts('D')
    try:
        fx, defs = corpus_facts(cx)
    except factsmod.BuildError as e:
        # the library itself compiled (its facts were extracted above); the corpus consists of definitions the derive
        # macros must accept: a corpus that no longer compiles is a wrong rejection / a wrong expansion
        out.fail('R05.1', 'derive corpus compiles', 'a valid definition of the corpus is rejected or expanded into code that does not compile: %s' % _first_error(str(e)), 'corpus')
        return
    unit(out, fx)
    own_impls = list(fx.impls)
    own_adts = dict(fx.adt_by_path)
    if not hasattr(fx, 'merged_with'):
        fx.merge(lib)
    S = shape.Shapes(fx)
    D = decshape.DecShapes(fx, S)
    # generated decoders must not consult remaining_len() at all (and if they ever do, only for sound rejections: C08 R08.3)
    from . import c08 as _c08
    out.rule('R08.3', 'derived code: remaining_len() only for sound rejections (rule of C08 applied to the corpus)')
    _c08.check_remaining_len_taint(out, fx, floor=False, only=lambda f: f['path'] not in lib.by_path)
    byname = {d['name']: d for d in defs}
    n_enc = n_dec = n_mel = 0
    samples = []
    disagreements = 0
    for d in defs:
        cross_check_sidecar(out, own_adts, d)
    by_trait = {}
    for i in own_impls:
        if not i['trait']:
            continue
        nm = i['self'].split('::')[-1].split('<')[0]
        by_trait.setdefault((tname(i['trait']), nm), i)
    for d in defs:
        nm = d['name']
        exp = corpusgen.expected_shape(d)
        ee = cmp_form(exp)
        # ------------------------------------------------------------ encoder
        i = by_trait.get(('Encode', nm))
        key = 'derive(Encode) %s' % nm
        if not i:
            out.fail('R05.1', key, 'derived impl not found', '-')
            continue
        n_enc += 1
        ms = S.methods_of(i)
        uninhabited = d['kind'] == 'enum' and not d['variants']
        has_out = any(m in ms for m in wire.ENC_METHODS)
        out.ob('R05.3', key + '/cycle', has_out or uninhabited,
               'derived impl overrides none of encode_to / encode / using_encoded: encoding a value recurses through the default methods forever', i['loc'])
        if not has_out:
            continue
        w = S.wire_impl(i)
        ew = cmp_form(w)
        oq = c02.find_kind(ew, 'opaque')
        comp = _has_computed(w)
        good = ew == ee and not oq and not comp
        if not good:
            disagreements += 1
        out.ob('R05.1', key, good, 'generated encoder has shape %s, the definition declares %s' % (shape.wshow(flat(w)) if not oq else 'unrecognised: ' + str(oq[1]),
                                                                                                 shape.wshow(flat(exp))), i['loc'],
               sample={'definition': _src_of(d), 'declared': shape.wshow(flat(exp)), 'generated': shape.wshow(flat(w))})
        # all overridden methods agree
        forms = {}
        for m in wire.ENC_METHODS:
            if m in ms:
                t, v, _ = wire.infer_encoder_method(fx, ms[m], S.ev)
                if not shape._is_self_forward(t):
                    forms[m] = c07.canon_term(t)
        out.ob('R05.3', key + '/methods-agree', len(set(forms.values())) <= 1, 'entry points of the derived impl disagree: %s' % {m: f[:100] for m, f in forms.items()}, i['loc'])
        # ------------------------------------------------------------ decoder
        j = by_trait.get(('Decode', nm))
        key = 'derive(Decode) %s' % nm
        if not j:
            out.fail('R05.2', key, 'derived impl not found', '-')
            continue
        n_dec += 1
        dw, t, v = D.dec_shape(j, 'decode')
        if t is not None and sym.has_opaque(t):
            o = sym.has_opaque(t)[0]
            out.fail('R05.2', key, 'unrecognised construct in the generated decoder: ' + o[1], o[2])
            continue
        dd = cmp_form(dw)
        if d['kind'] == 'enum' and not corpusgen.expected_tags(d):
            dd = ee   # nothing to mirror: every index byte must be rejected (checked below)
        good = dd == ee and not c02.find_kind(dd, 'opaque')
        msg = 'generated decoder reads %s, the definition declares %s' % (str(dd)[:200], shape.wshow(flat(exp)))
        if good and d['kind'] == 'enum' and d['variants']:
            # strict index dispatch
            alts = [x for x in items(t) if x[0] == 'alt']
            rbs = [x for x in items(t) if x[0] == 'rb']
            want = set(corpusgen.expected_tags(d))
            if want:
                its_ = items(t)
                rb_i = [ix for ix, x in enumerate(its_) if x[0] == 'rb']
                if len(rb_i) < 1:
                    good, msg = False, 'decoder does not dispatch on one index byte'
                else:
                    # probed, not matched: for each of the 256 values of the index byte, does the rest of the decoder reject
                    # (every path ends in an error) or go on?  A `match` with guards, constant patterns or an if-chain are
                    # the same dispatch
                    uid = its_[rb_i[0]][1]
                    rest = cat(*its_[rb_i[0] + 1:])
                    acc, amb = set(), []
                    for b in range(256):
                        r = outcomes(rest, lambda val, b=b: b if strip(val) == ('byte', uid) else None)
                        if 'PANIC' in r or ('OK' in r and 'ERR' in r):
                            amb.append(b)
                        if 'OK' in r:
                            acc.add(b)
                    if acc != want or amb:
                        good, msg = False, 'decoder accepts index bytes %s%s, declared %s' % (
                            sorted(acc)[:12], ' (undecided or panicking for %s)' % amb[:6] if amb else '', sorted(want))
            else:
                # no encodable variant: every index must be rejected
                errs = [p for p in paths(t) if not (p and p[-1][0] in ('ERR', '?ERR'))]
                if errs:
                    good, msg = False, 'an enum without encodable variants decodes successfully on some path'
        if good:
            ok_def = check_defaults_and_order(d, v, t)
            if ok_def:
                good, msg = False, ok_def
        if good:
            ar = c02.has_arith_on_decoded(v) if v is not None else None
            if ar:
                good, msg = False, 'a decoded value is transformed on its way into the result: ' + sym.vstr(ar)[:80]
        if not good:
            disagreements += 1
        out.ob('R05.2', key, good, msg, j['loc'], sample={'definition': _src_of(d), 'decoder': sym.tstr(t)[:200] if t else None})
        # ------------------------------------------------------------ in-place path
        di = D.method(j, 'decode_into')
        plain = d['kind'] == 'struct' and d.get('transparent') and d['fields'] and all(f['attr'] == 'none' for f in d['fields'])
        if d['kind'] == 'struct' and d.get('transparent'):
            out.ob('R05.5', 'decode_into presence %s' % nm, bool(di) == bool(plain),
                   ('in-place decode_into generated although a field carries an attribute (it decodes the raw field type, not the selected representation)'
                    if di else 'in-place decode_into missing for an attribute-free transparent struct'), j['loc'])
        else:
            out.ob('R05.5', 'decode_into presence %s' % nm, not di, 'in-place decode_into generated for a type that is not repr(transparent)', j['loc'])
        if di:
            t2, v2 = D.term(di)
            decs = [e for e in events(t2) if e[0] == 'dec']
            want = [f['ty'] for f in d['fields']]
            got = [_short_ty(e[1]) for e in decs]
            okp = all(e[3] == 'decode_into' for e in decs) and got == [_short_ty(x) for x in want]
            msg5 = 'in-place path decodes %s, declared fields %s' % (got, want)
            if okp:
                # on every path that finishes successfully, not only somewhere in the body
                for pth in paths(t2):
                    if pth and pth[-1][0] in ('ERR', '?ERR', 'PANIC'):
                        continue
                    gp = [_short_ty(e[1]) for e in pth if e[0] == 'dec']
                    if gp != [_short_ty(x) for x in want]:
                        arms = ['%s=%s' % (sym.vstr(e[1][1])[:50] if isinstance(e[1], tuple) and len(e[1]) > 1 else e[1], e[2]) for e in pth if e[0] == 'ARM']
                        okp = False
                        msg5 = 'a successful in-place path (under %s) decodes %s, declared fields %s' % (', '.join(arms), gp, want)
                        break
            out.ob('R05.5', 'decode_into fields %s' % nm, okp, msg5, di['loc'])
            # R10.5: a `?` exit after an earlier successful in-place decode of a field that needs drop
            if len(decs) >= 2:
                leak = None
                for fi, f in enumerate(d['fields'][:-1]):
                    if f['ty'] in corpusgen.NEEDS_DROP:
                        later = [g for g in d['fields'][fi + 1:] if c09_minlen(g) >= 1]
                        if later:
                            leak = (f, later[0])
                out.ob('R10.5', 'derive decode_into / transparent struct with >=2 fields / earlier field needs drop', leak is None,
                       'in-place decode of field `%s: %s` succeeds, then the decode of `%s: %s` can fail and `?` leaves without dropping the initialised part: '
                       'the earlier field leaks (%s)' % ((leak[0]['name'], leak[0]['ty'], leak[1]['name'], leak[1]['ty'], _src_of(d)) if leak else ('', '', '', '', '')), di['loc'])
        # ------------------------------------------------------------ MaxEncodedLen
        mi = by_trait.get(('MaxEncodedLen', nm))
        if mi and d.get('derive_mel'):
            n_mel += 1
            f = [g for g in fx.methods('MaxEncodedLen', 'max_encoded_len') if g.get('impl') == mi['path'] and g['self'] == mi['self']]
            bad = None
            if not f:
                bad = 'max_encoded_len not found'
            else:
                for vi, fval in enumerate(c13.VALUATIONS):
                    val = {}
                    for gi, g in enumerate(d['generics']):
                        val[g] = fval(gi)
                        val['compact ' + g] = fval(gi + 5)
                    num = c13.Num(fx, S, val, {})
                    declared = num.run_fn(f[0])
                    shaped = c13.wmax(tupl(flat(exp)), val, {}, S)
                    if declared is None:
                        bad = 'generated bound is not a recognised length expression'
                        break
                    if shaped == c13.INF or declared < shaped:
                        bad = 'derived max_encoded_len() = %s but the declared layout %s can take %s bytes' % (declared, shape.wshow(flat(exp)), shaped)
                        break
            if bad:
                disagreements += 1
            out.ob('R13.2', 'derive(MaxEncodedLen) %s' % nm, bad is None, bad or '', mi['loc'], sample={'definition': _src_of(d)})
    out.floor('R05.1', 'corpus definitions with a derived encoder', n_enc, 100 if cx.tier == 'quick' else 400)
    out.floor('R05.2', 'corpus definitions with a derived decoder', n_dec, 100 if cx.tier == 'quick' else 400)
    out.floor('R13.2', 'corpus definitions with a derived MaxEncodedLen', n_mel, 50)
    out.programs = n_enc
    out.disagreements = disagreements
    # the repository's own derive sites (fuzzer crate) in the thorough tier
    if cx.tier == 'thorough':
        try:
            cx.need(['F'])
            fz = cx.facts('F', 'codec_fuzzer')
            unit(out, fz)
            if not hasattr(fz, '_own_impls'):
                fz._own_impls = list(fz.impls)      # before the library facts are merged in
            fz_impls = fz._own_impls
            libF = lib
            if not hasattr(fz, 'merged_with'):
                fz.merge(libF)
            S2 = shape.Shapes(fz)
            n = 0
            for i in fz_impls:
                if i['trait'] and tname(i['trait']) == 'Encode':
                    n += 1
                    ms = S2.methods_of(i)
                    out.ob('R05.3', 'codec-fuzzer %s/cycle' % i['self'], any(m in ms for m in wire.ENC_METHODS), 'no output method overridden', i['loc'])
                    w = S2.wire_impl(i)
                    out.ob('R05.1', 'codec-fuzzer %s/recognised' % i['self'], not c02.find_kind(cmp_form(w), 'opaque'), 'unrecognised derived encoder: ' + shape.wshow(w)[:100], i['loc'])
            out.floor('R05.1', 'Encode impls in codec-fuzzer', n, 4)
        except factsmod.BuildError as e:
            out.note('codec-fuzzer could not be compiled under the driver: %s' % str(e)[:200])
    # premise: "for every type definition" includes generic ones — the where-clauses the derives generate are what the fields
    # require (C17 W17.5: instantiations whose field types support the traits compile, others are rejected), and user
    # expressions spliced into generated code keep their meaning (W17.4)
    if not getattr(cx, '_seed_loop_done', False):
        from . import shared
        # ... and a derived decoder reads its fields one after another from one input: the provided inputs that keep a
        # position of their own hand each field the bytes that follow the previous one (C08 R08.4)
        shared.premises(cx, out, {'c17': {'W17.4', 'W17.5'}, 'c08': {'R08.4'}})
        cx._seed_loop_done = True
    from . import positive
    positive.check(cx, out, 'C05')


def c09_minlen(f):
    from .c09 import minlen_known
    r = minlen_known(tupl(corpusgen.field_shape(f)))
    return 0 if r is None else r


def _short_ty(s):
    s = s.replace('m::', '')
    return s.replace('core::marker::', '').replace('alloc::vec::', '').replace('alloc::string::', '').replace('alloc::boxed::', '').replace('core::option::', '')


def _has_computed(w):
    if isinstance(w, tuple):
        if w and w[0] == '__computed':
            return True
        return any(_has_computed(x) for x in w[1:] if isinstance(x, (tuple, list)))
    if isinstance(w, list):
        return any(_has_computed(x) for x in w)
    return False


def _src_of(d):
    if d['kind'] == 'struct':
        return 'struct %s%s { %s }' % (d['name'], ' [transparent]' if d.get('transparent') else '', ', '.join('%s%s: %s' % ('#[%s] ' % f['attr'] if f['attr'] != 'none' else '', f['name'], f['ty']) for f in d['fields']))
    return 'enum %s { %s }' % (d['name'], ', '.join('%s%s%s%s' % ('#[skip] ' if v['skip'] else '', '#[index=%d] ' % v['attr_index'] if 'attr_index' in v else '', v['name'],
                                                              ' = %d' % v['discr'] if 'discr' in v else '') + ('(%d fields)' % len(v['fields']) if v['fields'] else '') for v in d['variants']))


def check_defaults_and_order(d, v, t):
    """skipped fields are Default::default(); decoded fields reach their own positions in order"""
    if v is None:
        return None
    sv = strip(v)

    def check_ctor(val, fields, what):
        val = strip(val)
        if isinstance(val, tuple) and val[0] == 'res':
            val = strip(val[1])
        if not (isinstance(val, tuple) and val[0] == 'adt'):
            return None if not fields else 'constructed value of %s is not a struct/variant literal: %s' % (what, sym.vstr(val)[:80])
        got = dict(val[3])
        last_uid = -1
        for idx, f in enumerate(fields):
            x = strip(got.get(idx)) if idx in got else None
            if x is None:
                return 'field %d of %s is not initialised' % (idx, what)
            if f['attr'] == 'skip':
                if not (isinstance(x, tuple) and x[0] == 'call' and x[1] == 'default'):
                    return 'skipped field %s of %s is not Default::default(): %s' % (f['name'], what, sym.vstr(x)[:60])
            else:
                ds = []
                contains(x, lambda y: (ds.append(y) or False) if (isinstance(y, tuple) and len(y) > 2 and y[0] == 'decoded') else False)
                if len(ds) != 1:
                    return 'field %s of %s is not built from exactly one decoded component' % (f['name'], what)
                if ds[0][2] <= last_uid:
                    return 'fields of %s are decoded out of declaration order' % what
                last_uid = ds[0][2]
        return None
    if d['kind'] == 'struct':
        return check_ctor(sv, d['fields'], d['name'])
    if isinstance(sv, tuple) and sv[0] == 'matchval':
        live = [v_ for v_ in d['variants'] if not v_['skip']]
        for dd, x in sv[2]:
            if isinstance(dd, tuple) and dd[0] == 'guard':
                k = decshape._guard_const(strip(dd[2]))
                vs = [v_ for v_ in live if v_['index'] == k]
                if vs:
                    x = strip(x)
                    inner = strip(x[1]) if isinstance(x, tuple) and x[0] in ('res', 'returned') else x
                    if isinstance(inner, tuple) and inner[0] == 'res':
                        inner = strip(inner[1])
                    if isinstance(inner, tuple) and inner[0] == 'adt':
                        if inner[2] != vs[0]['name']:
                            return 'index byte %d constructs variant %s, declared %s' % (k, inner[2], vs[0]['name'])
                        r = check_ctor(inner, vs[0]['fields'], '%s::%s' % (d['name'], vs[0]['name']))
                        if r:
                            return r
    return None


def extra_coverage(out):
    return {'programs': getattr(out, 'programs', 0), 'disagreements_checked': getattr(out, 'disagreements', 0)}
