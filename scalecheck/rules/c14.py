"""C14 — encodings are self-delimiting; consume-all entry points are exact (DESIGN §6 C14)."""
from .common import *

LEVEL = 'other'
EXPLANATION = (
    'R14.1 (all-or-nothing reads): in `impl Input for &[u8]` every path of `read` that reaches the copy and the '
    'cursor update lies on the false edge of `into.len() > self.len()`, the failing path writes nothing, and the '
    'cursor becomes exactly `&self[into.len()..]`; same for BytesCursor (C08 R08.4). R14.2 (consume-all): '
    '`DecodeAll::decode_all` and `DecodeLimit::decode_all_with_depth_limit` perform exactly one decode of Self, '
    'propagate its failure, return Ok only with the decoded value itself and only on the branch where the remaining '
    'input is empty (condition evaluated symbolically over the integer domain of the remaining length, so '
    '`is_empty()`, `len() == 0`, `len() < 1` are the same fact), and return Err otherwise. R14.3 (sequential '
    'composition): tuple decoders decode their components strictly in index order from the same input. With error '
    'propagation (C03 R03.5) and the mirror rule (C02) these give the prefix and concatenation clauses for every '
    'value; nothing is executed.')
ASSUMPTIONS = ['slice indexing and copy_from_slice semantics of core', 'C02/C03 rules hold (premises of the prefix clause)']


def check_slice_input(out, facts, rule='R14.1'):
    cfg = facts.cfg
    f = facts.impl_method('Input', '&[u8]', 'read')
    if not f:
        out.fail(rule, '<&[u8] as Input>::read [%s]' % cfg, 'impl not found (anchor missing)', '-')
        return
    t, v, ev = input_method_term(facts, f)
    key = '<&[u8] as Input>::read [%s]' % cfg
    ops = sym.has_opaque(t)
    if ops:
        out.fail(rule, key, 'unrecognised construct: ' + ops[0][1], ops[0][2])
        return
    why = []
    n_ok_paths = 0
    for p in paths(t):
        errs = [i for i, e in enumerate(p) if e[0] in ('ERR', '?ERR')]
        muts = [i for i, e in enumerate(p) if e[0] in ('SET', 'MUTCALL')]
        if errs:
            if any(i < errs[0] for i in muts):
                why.append('the failing path modifies the cursor or the buffer before returning the error')
            continue
        n_ok_paths += 1
        arms = [e for e in p if e[0] == 'ARM']
        g = [a for a in arms if _is_len_guard(a[1])]
        if not g or not _guard_allows(g[0]):
            why.append('copy/advance not dominated by the false edge of `into.len() > self.len()`')
        sets = [e for e in p if e[0] == 'SET']
        # canonical sub-slice views: `&self[n..]`, `self.split_at(n).1`, ... all denote self[n..]
        if len(sets) != 1 or strip(sets[0][1]) != ('self',) or view_str(slice_view(sets[0][2])) != 'self[len(into)..]' or sets[0][3]:
            why.append('cursor is not advanced to exactly &self[into.len()..]: %s' % [sym.tstr(s) for s in sets])
        cp = [e for e in p if e[0] == 'MUTCALL']
        if len(cp) != 1 or cp[0][1] != 'copy_from_slice' or sym.vstr(cp[0][3][0]) != 'into' or view_str(slice_view(cp[0][3][1])) != 'self[0..len(into)]':
            why.append('bytes copied are not self[..into.len()] into `into`: %s' % [sym.tstr(c) for c in cp])
        si = p.index(sets[0]) if sets else -1
        ci = p.index(cp[0]) if cp else -1
        if sets and cp and ci > si:
            why.append('cursor advanced before the copy')
    if n_ok_paths == 0:
        why.append('no successful path')
    if sym.vstr(v) != 'Ok(())':
        why.append('returns ' + sym.vstr(v))
    out.ob(rule, key, not why, '; '.join(sorted(set(why))), f['loc'], sample={'term': sym.tstr(t)})
    f = facts.impl_method('Input', '&[u8]', 'remaining_len')
    if f:
        t, v, ev = input_method_term(facts, f)
        out.ob(rule, '<&[u8] as Input>::remaining_len [%s]' % cfg, t == ['eps'] and sym.vstr(v) == 'Ok(Some(len(self)))',
               'remaining_len of a slice is not Some(self.len()): ' + sym.vstr(v), f['loc'])


def _is_len_guard(cond):
    if not (isinstance(cond, tuple) and cond and cond[0] == 'if'):
        return False
    s = sym.vstr(cond[1])
    return 'len(into)' in s and 'len(self)' in s


def _guard_allows(arm):
    """the taken edge implies into.len() <= self.len()"""
    c = strip(arm[1][1])
    taken = arm[2]
    neg = False
    while isinstance(c, tuple) and c[0] == 'un' and c[1] == 'Not':
        c = strip(c[2])
        neg = not neg
    if not (isinstance(c, tuple) and c[0] == 'bin'):
        return False
    op, l, r = c[1], sym.vstr(c[2]), sym.vstr(c[3])
    truth = (taken == 'true') != neg
    # normalise to a relation between into.len() (a) and self.len() (b)
    if l == 'len(self)' and r == 'len(into)':
        op = {'Lt': 'Gt', 'Gt': 'Lt', 'Le': 'Ge', 'Ge': 'Le'}.get(op, op)
    elif not (l == 'len(into)' and r == 'len(self)'):
        return False
    # edge relation
    if not truth:
        op = {'Lt': 'Ge', 'Gt': 'Le', 'Le': 'Gt', 'Ge': 'Lt', 'Eq': 'Ne', 'Ne': 'Eq'}.get(op)
    return op in ('Le', 'Lt', 'Eq')


def _empty_condition_truth(cond_val, input_pred):
    """For a condition over the remaining input `x` return the set of lengths n in {0,1,2,3} for
    which it evaluates to true, or None if it is not a recognised function of the length."""
    res = set()
    for n in (0, 1, 2, 3, 1000):
        r = _eval_len(cond_val, n, input_pred)
        if r is None:
            return None
        if r:
            res.add(n)
    return res


def _eval_len(v, n, is_in):
    v = strip(v)
    if not isinstance(v, tuple):
        return None
    if v[0] == 'lit' and isinstance(v[1], (int, bool)):
        return v[1]
    if v[0] == 'call' and v[1] == 'is_empty' and is_in(v[3][0]):
        return n == 0
    if v[0] == 'call' and v[1] == 'len' and is_in(v[3][0]):
        return n
    if v[0] == 'un' and v[1] == 'Not':
        r = _eval_len(v[2], n, is_in)
        return None if r is None else (not r)
    if v[0] == 'bin':
        a, b = _eval_len(v[2], n, is_in), _eval_len(v[3], n, is_in)
        if a is None or b is None:
            return None
        try:
            return {'Eq': a == b, 'Ne': a != b, 'Lt': a < b, 'Le': a <= b, 'Gt': a > b, 'Ge': a >= b,
                    'And': bool(a) and bool(b), 'Or': bool(a) or bool(b), 'Add': a + b, 'Sub': a - b}[v[1]]
        except KeyError:
            return None
    return None


def check_consume_all(out, facts, trait, method, inner_mode):
    cfg = facts.cfg
    fl = [f for f in facts.methods(trait, method) if f['kind'] == 'AssocFn']
    key = '%s::%s [%s]' % (trait, method, cfg)
    if len(fl) != 1:
        out.fail('R14.2', key, 'expected exactly one blanket impl, found %d (anchor missing)' % len(fl), '-')
        return
    f = fl[0]
    rl = {0: ('input',)} if method == 'decode_all' else {0: ('param', 'limit', 'u32'), 1: ('input',)}
    t, v, ev = wire.infer_decoder_fn(facts, f, roles=rl)
    ops = sym.has_opaque(t)
    if ops:
        out.fail('R14.2', key, 'unrecognised construct: ' + ops[0][1], ops[0][2])
        return
    why = []
    is_in = lambda x: strip(x) == ('input',) or strip(x)[:2] == ('param', 'input')
    n_ok = 0
    for p in paths(t):
        decs = [e for e in p if e[0] == 'dec']
        if len(decs) != 1 or decs[0][1] not in ('T', 'Self') or decs[0][3] != inner_mode:
            why.append('a path performs %s instead of exactly one %s of Self' % ([sym.tstr(d) for d in decs], inner_mode))
            continue
        di = p.index(decs[0])
        ends_err = p and p[-1][0] in ('ERR', '?ERR')
        if ends_err:
            continue
        n_ok += 1
        # success path: error of the decode was propagated
        if not any(e[0] == '?OK' for e in p[di:]):
            why.append('decode failure is not propagated')
        # success path lies on a branch where the remaining input is provably empty
        conds = [e for e in p[di:] if e[0] == 'ARM' and isinstance(e[1], tuple) and e[1][0] == 'if']
        proved = False
        for a in conds:
            tr = _empty_condition_truth(a[1][1], is_in)
            if tr is None:
                continue
            sat = tr if a[2] == 'true' else ({0, 1, 2, 3, 1000} - tr)
            if sat == {0}:
                proved = True
        if not proved:
            why.append('Ok is reachable with input remaining (no branch condition restricts the remaining length to 0)')
    # error exit exists for non-empty remainder
    if not any(p and p[-1][0] == 'ERR' for p in paths(t)):
        why.append('no error exit for trailing bytes')
    if n_ok == 0:
        why.append('no successful path')
    # returned value is the decoded value itself
    decs = [e for e in events(t) if e[0] == 'dec']
    rv = sym.vstr(v)
    if decs and rv not in ('Ok(decoded#%s:%s)' % (decs[0][2], decs[0][1]),):
        why.append('returns %s instead of the decoded value' % rv)
    if inner_mode == 'decode_with_depth_limit' and decs:
        args = decs[0][4]
        if [sym.vstr(a) for a in args] != ['limit', 'input']:
            why.append('depth limit / input not passed through unchanged: %s' % [sym.vstr(a) for a in args])
    out.ob('R14.2', key, not why, '; '.join(sorted(set(why))), f['loc'], sample={'term': sym.tstr(t), 'returns': rv})


def check_tuples_sequential(out, facts):
    cfg = facts.cfg
    n = 0
    for f in facts.methods('Decode', 'decode'):
        st = f.get('self_ty') or {}
        if st.get('k') != 'tuple' or not st.get('ts'):
            continue
        n += 1
        t, v, ev = wire.infer_decoder_fn(facts, f)
        want = [x['s'] for x in st['ts']]
        decs = [e for e in events(t) if e[0] == 'dec']
        ok = [d[1] for d in decs] == want and all(d[3] == 'decode' for d in decs) and not sym.has_opaque(t)
        # each decode is followed by error propagation, value = tuple of decoded values in order
        its = items(t)
        # (the last component's Result may be mapped into the tuple instead of being unwrapped with `?` and re-wrapped)
        ok = ok and [e[0] for e in its] in (['dec', '?'] * len(want), ['dec', '?'] * (len(want) - 1) + ['dec'])
        rv = sym.vstr(v)
        exp = 'Ok((%s))' % ', '.join('decoded#%s:%s' % (d[2], d[1]) for d in decs)
        ok = ok and rv == exp
        out.ob('R14.3', '%s [%s]' % (fkey(f), cfg), ok, 'tuple decoder is not the in-order sequence of its component decoders: %s -> %s' % (sym.tstr(t)[:200], rv[:120]), f['loc'],
               sample={'term': sym.tstr(t)[:200]})
    out.floor('R14.3', 'tuple Decode impls [%s]' % cfg, n, 18)


def run(cx, out):
    out.rule('R14.1', 'slice Input::read: copy and cursor update dominated by the length guard; failing path writes nothing; advance by exactly into.len()')
    out.rule('R14.2', 'decode_all / decode_all_with_depth_limit: one decode, failure propagated, Ok only with empty remainder and the decoded value, Err otherwise')
    out.rule('R14.3', 'tuple decoders decode components strictly in order from the same input')
    for cfg in lib_cfgs(cx, quick=('D',), thorough=('A', 'B', 'D')):
        facts = cx.facts(cfg)
        unit(out, facts)
        check_slice_input(out, facts)
        check_consume_all(out, facts, 'DecodeAll', 'decode_all', 'decode')
        check_consume_all(out, facts, 'DecodeLimit', 'decode_all_with_depth_limit', 'decode_with_depth_limit')
        check_tuples_sequential(out, facts)
    # premises: "consumes exactly its own encoding" is the mirror property of C02 (decoder shape == encoder shape, kernel,
    # arrays, in-place entry points, derived decoders), and every Input implementation fails a read it cannot fill
    # completely without pretending success (C08 R08.4)
    from . import shared
    shared.premises(cx, out, {'c02': {'R02.1', 'R02.2', 'R02.5', 'K1-K2', 'K3', 'K4-K5'}, 'c05': {'R05.2', 'R05.5'}, 'c08': {'R08.3', 'R08.4'},
                              # decode_all_with_depth_limit == decode_all (for a sufficient limit) presupposes balanced depth
                              # accounting: siblings must not accumulate depth, one container costs one level (C11)
                              'c11': {'R11.1', 'R11.2', 'R11.3'}})
