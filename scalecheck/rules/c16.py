"""C16 — types declared to encode alike really do (DESIGN §6 C16)."""
from .common import *
from .. import shape, types as T

LEVEL = 'other'
EXPLANATION = (
    'R16.1: for every `impl EncodeLike<B> for A` of the crate the type-level wire shapes W(A) and W(B), computed from '
    'the crate\'s own Encode impls (holders resolved through WrapperTypeEncode + Deref::Target, references stripped, '
    'compact projections normalised through the HasCompact / EncodeAsRef impls), are equal under the hypotheses of the '
    'impl\'s where-clause (T: EncodeLike<U> identifies Var T with Var U). Alternatives must agree on tags; sequences on '
    'their element shape; a declared pair with different shapes is reported with both. Reflexive impls are counted, '
    'not compared. Shape equality is decided for all values because the shape is a function of the type.')
ASSUMPTIONS = ['C01: the inferred shape of each Encode impl is its real encoding', 'C02 for type B gives "decodes to the corresponding value"',
               'Deref::Target of std holders (Box, Rc, Arc, Cow, Vec, String, Bytes) as documented']


class UF:
    def __init__(self):
        self.p = {}

    def find(self, x):
        self.p.setdefault(x, x)
        while self.p[x] != x:
            self.p[x] = self.p[self.p[x]]
            x = self.p[x]
        return x

    def union(self, a, b):
        self.p[self.find(a)] = self.find(b)


def canon(w, uf):
    k = w[0]
    if k in ('var', 'cvar'):
        return (k, uf.find(w[1]))
    if k == 'cat':
        return ('cat', tuple(canon(x, uf) for x in w[1]))
    if k == 'alt':
        return ('alt', tuple(sorted((l, canon(x, uf)) for l, x in w[1])))
    if k == 'seq':
        return ('seq', canon(w[1], uf))
    if k == 'rep':
        return ('rep', canon(w[1], uf), w[2])
    return w


def find_opaque(w):
    if w[0] == 'opaque':
        return w
    if w[0] == 'cat':
        for x in w[1]:
            r = find_opaque(x)
            if r:
                return r
    if w[0] == 'alt':
        for _, x in w[1]:
            r = find_opaque(x)
            if r:
                return r
    if w[0] in ('seq', 'rep'):
        return find_opaque(w[1])
    return None


# value restrictions the decoders enforce beyond the wire shape (R03.2 decides the guards themselves)
RESTRICTED = (('core::num::nonzero::NonZero', 'non-zero integers'), ('alloc::string::String', 'valid UTF-8'), ('str', 'valid UTF-8'),
              ('core::time::Duration', 'sub-second nanoseconds below 10^9'), ('bitvec::', 'bit sequences of at most 2^29-1 bits'),
              ('codec::OptionBool', 'the three optional-bool bytes'))


def restriction(facts, t, depth=0):
    """the value restriction of the head type of `t` (through references / boxes / Cow), or None"""
    if depth > 6 or not isinstance(t, tuple):
        return None
    t = T.strip_refs(t)
    if t[0] == 'adt':
        p = t[1]
        for pre, what in RESTRICTED:
            if p == pre or p.startswith(pre):
                return what
        if p in ('alloc::boxed::Box', 'alloc::rc::Rc', 'alloc::sync::Arc', 'alloc::borrow::Cow', 'compact::Compact') and t[2]:
            return restriction(facts, t[2][0] if t[2][0][0] != 'lifetime' else (t[2][1] if len(t[2]) > 1 else None), depth + 1)
    if t[0] == 'prim' and t[1] == 'str':
        return 'valid UTF-8'
    return None


def check_encode_like(out, facts, rule='R16.1'):
    cfg = facts.cfg
    S = shape.Shapes(facts)
    n_cmp = 0
    n_refl = 0
    for i in facts.impls_of('EncodeLike'):
        a = T.from_json(i['self_ty'])
        bj = i['trait_args_ty']
        if not bj:
            continue
        b = T.from_json(bj[0])
        key = 'impl EncodeLike<%s> for %s [%s]' % (i['trait_args'][0], i['self'], facts.cfg)
        if S.normalize(a) == S.normalize(b):
            n_refl += 1
            continue
        uf = UF()
        for tp in i['tpreds']:
            if tname(tp['trait']) == 'EncodeLike' and tp['args']:
                uf.union(T.show(S.normalize(T.parse(tp['self']))), T.show(S.normalize(T.parse(tp['args'][0]))))
        wa, wb = S.wire_type(a), S.wire_type(b)
        oa, ob = find_opaque(wa), find_opaque(wb)
        n_cmp += 1
        if oa or ob:
            out.fail(rule, key, 'cannot compute the wire shape of %s: %s' % ('A' if oa else 'B', (oa or ob)[1]), i['loc'])
            continue
        ca, cb = canon(wa, uf), canon(wb, uf)
        out.ob(rule, key, ca == cb, 'declared alike but W(A) = %s and W(B) = %s' % (shape.wshow(wa), shape.wshow(wb)), i['loc'],
               sample={'A': i['self'], 'B': i['trait_args'][0], 'W(A)': shape.wshow(wa), 'W(B)': shape.wshow(wb)})
        # same shape is not enough when B's decoder rejects values: every value of A must be acceptable to B
        ra, rb_ = restriction(facts, a), restriction(facts, b)
        if ca == cb and rb_ and ra != rb_:
            out.ob(rule, key + '/accepted-by-B', False,
                   'W(A) == W(B) but the decoder of B only accepts %s, which values of A are not known to satisfy (A: %s): bytes of some '
                   'A do not decode as B' % (rb_, ra or 'unrestricted'), i['loc'])
        elif ca == cb and rb_:
            out.ob(rule, key + '/accepted-by-B', True, '', i['loc'])
    out.count('reflexive EncodeLike impls [%s]' % cfg, n_refl)
    return n_cmp, n_refl


def run(cx, out):
    out.rule('R01.3', 'premise: TYPE_INFO is overridden by exactly the 12 primitives, so sequences of any other element type (incl. holders) are encoded element-wise')
    out.rule('R16.1', 'W(A) == W(B) for every impl EncodeLike<B> for A under the impl\'s EncodeLike hypotheses')
    for cfg in lib_cfgs(cx):
        facts = cx.facts(cfg)
        unit(out, facts)
        n_cmp, n_refl = check_encode_like(out, facts)
        want = {'A': 52, 'B': 52, 'C': 52, 'D': 56, 'E': 56}.get(cfg, 52)
        out.floor('R16.1', 'non-reflexive EncodeLike impls compared [%s]' % cfg, n_cmp, want)
        # premise of the sequence shapes: only the 12 primitives take the bulk path (C01 R01.3)
        from . import c01
        c01.check_type_info(out, facts)
    # premise: "the bytes A encodes to" is well defined: all encoding entry points of an impl agree (C07 R07.1)
    from . import shared
    # ... and "decode successfully as B": what an encoder emits lies inside what the decoder of the target accepts (C03 R03.2:
    # validation guards of restricted targets, the bit-length limit on both sides)
    # byte-buffer aliases decode through the zero-copy cursor as well (C08 R08.4: it delivers the same bytes as a slice)
    shared.premises(cx, out, {'c07': {'R07.1', 'R07.3'}, 'c01': {'R01.1'}, 'c03': {'R03.2'}, 'c08': {'R08.2', 'R08.3', 'R08.4'}})
    from . import positive
    positive.check(cx, out, 'C16')
