"""Positive examples (DESIGN 4.3): rules whose expected number of findings on a healthy tree is
zero are evaluated on every run against /verif/fixtures/positive, a crate with one deliberately
wrong item per rule.  A rule that no longer reports its item is dead and fails the check."""
from .common import *
from .. import shape, decshape
from ..report import Out

# property -> [(rule id, substring of the finding key, what the item does wrong)]
EXPECT = {
    'C02': [('R02.1', 'p::MirrorBad', 'decoder reads (u32, u8), encoder writes (u8, u32)'),
            ('R02.1', 'p::Tagged', 'tag 1 is written for B but every byte != 0 decodes as B')],
    'C03': [('R03.1', 'p::Tagged', 'catch-all arm accepts instead of rejecting'),
            ('R03.5', 'p::Swallow', 'decode error turned into a default with .ok()'),
            ('R03.3', 'p::Panicky as Decode>::decode / call unwrap', 'unwrap of an Option an input byte controls'),
            ('R03.3', 'p::Panicky as Decode>::decode / BoundsCheck', 'table indexed by a decoded byte without a bound'),
            ('R03.3', 'p::Panicky as Decode>::decode / Overflow Mul', 'unchecked multiplication of a decoded u32')],
    'C05': [('R05.3', 'p::Cyc', 'Encode impl without any output method')],
    'C06': [('R06.1', 'p::LayoutObs', 'encoder observes Vec::capacity'),
            ('R06.2', 'p::Ambient', 'encoder reads a static')],
    'C07': [('R05.3', 'p::Cyc', 'Encode impl without any output method'),
            ('R07.1', 'p::Disagree', 'encode_to writes [1], using_encoded hands out [2]')],
    'C08': [('R08.1', 'BadWrapper::descend_ref', 'wrapper swallows descend_ref'),
            ('R08.1', 'BadWrapper::on_before_alloc_mem', 'wrapper forwards a different size')],
    'C09': [('R09.1', 'p::NoHook', 'reserve_exact sized by a decoded count')],
    'C11': [('R11.1', 'p::Unbalanced', 'descend_ref without ascend_ref on the success path')],
    'C12': [('R12.2', 'p::NoHook', 'allocation without on_before_alloc_mem')],
    'C13': [('R13.1', 'p::MelLow', 'max_encoded_len() == 1 for a type encoding a u32'),
            ('R13.3', 'p::CelBad', 'ConstEncodedLen claimed for a type wrapping Option<u8>')],
    'C15': [('R15.1', 'p::CastLen', 'len() narrowed to u32 without a range guard')],
    'C16': [('R16.1', 'p::W16', 'declared EncodeLike<u32> but encodes as u16')],
}

_cache = {}


def findings_on_fixture(cx):
    """run the generic rule functions over the positive fixture (merged with the library facts)"""
    key = id(cx)
    if key in _cache:
        return _cache[key]
    from . import c02, c03, c06, c07, c08, c09, c11, c12, c13, c15, c16
    cx.need(['D'])
    lib = cx.facts('D')
    fx = cx.fixture('positive')
    own = list(fx.impls)
    if not hasattr(fx, 'merged_with'):
        fx.merge(lib)
    sub = Out('positive')
    S = shape.Shapes(fx)
    D = decshape.DecShapes(fx, S)

    class View:
        """facts view restricted to the fixture's own impls/functions where a rule iterates impls"""
    # rules iterate fx.impls (fixture + library); library results are simply ignored below
    saved_impls = fx.impls
    fx.impls = own + [i for i in saved_impls if i not in own and tname(i['trait'] or '') in ('WrapperTypeEncode', 'HasCompact', 'EncodeAsRef')] + \
        [i for i in saved_impls if i not in own and tname(i['trait'] or '') in ('Encode', 'Decode', 'MaxEncodedLen', 'Input', 'DecodeWithMemTracking')]
    try:
        c07.check_overrides(sub, fx, S)
        c16.check_encode_like(sub, fx)
        c06.check_observers(sub, fx, S)
        c06.check_ambient(sub, fx, S)
        c08.check_wrapper(sub, fx, 'BadWrapper')
        c11.check_all(sub, fx, 'fx', floors=False)
        c12.check_hooks(sub, fx)
        c09.check_sinks(sub, fx)
        c13.check_mel(sub, fx, S)
        c13.check_cel(sub, fx, S)
        c03.check_tags(sub, fx, S, D)
        c03.check_errprop(sub, fx)
        c02.check_mirror(sub, fx, S, D)
        from . import panics
        from .. import facts as _fm
        ownp = {f['path'] for f in fx.fns if f['path'].startswith('p::') or '<p::' in f['path']}
        panics.check_panics(sub, fx, _fm.repo_root(), label='fx', only_fns=lambda f: f['path'] in ownp)
        for i in own:
            if i['trait'] and tname(i['trait']) == 'Encode':
                src = S.source_term(i)
                if src and src[0] != 'none':
                    c15.check_casts_on_term(sub, 'cast in %s [fx]' % fkey(src[2]), src[1], {}, src[2]['loc'])
    finally:
        fx.impls = saved_impls
    _cache[key] = sub
    return sub


def check(cx, out, prop):
    exp = EXPECT.get(prop)
    if not exp:
        return
    sub = findings_on_fixture(cx)
    out.rule('POS', 'positive examples: every zero-count rule of this property still reports its deliberately wrong fixture item (rule alive)')
    out.units.add('vf_positive (fixtures/positive)')
    for rule, sub_key, what in exp:
        hit = [f for f in sub.findings if f.rule == rule and sub_key in f.key]
        out.ob('POS', 'rule %s reports fixture item %s' % (rule, sub_key), bool(hit),
               'rule %s is dead: it no longer reports the positive example (%s)' % (rule, what), 'fixtures/positive/src/lib.rs',
               sample={'item': sub_key, 'wrong_because': what, 'reported_as': hit[0].msg[:160] if hit else None})
