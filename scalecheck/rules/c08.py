"""C08 — decoding is independent of the Input implementation (DESIGN §6 C08)."""
from .common import *

LEVEL = 'other'
EXPLANATION = (
    'Decoders are generic in I: Input, so they can tell inputs apart only through the trait methods. Decided '
    'statically on the typed THIR of every `impl Input` of the crate, per feature configuration: R08.1 each public '
    'wrapper (CountedInput, DepthTrackingInput, MemTrackingInput) overrides all six methods and every path of each '
    'method forwards exactly once to the same method of the wrapped input with the same arguments and returns its '
    'result unchanged (own bookkeeping / failure condition only after the forwarded call); PrefixInput, which does '
    'not forward the hooks, is only ever constructed as the argument of a primitive integer decoder (construct-site '
    'census); R08.2 read_byte is overridden only by forwarding wrappers; R08.3 a value obtained from '
    'remaining_len() outside Input impls flows only into pure-rejection branches (taint over the wire term: every '
    'branch whose condition depends on it is either empty or a bare error exit) and never into a returned value, an '
    'allocation size, a loop bound or a read; R08.4 the concrete inputs (&[u8], IoReader, BytesCursor incl. the '
    'zero-copy override) have the audited shape; the set of Input impls is exactly the audited set.')
ASSUMPTIONS = ['std::io::Read::read_exact delivers the same bytes whatever the chunking of the reader',
               'bytes::Bytes::{len, split_to, advance} and slice indexing behave as documented',
               'third-party Input implementations are outside the claim']

SIX = ('remaining_len', 'read', 'read_byte', 'descend_ref', 'ascend_ref', 'on_before_alloc_mem')
EVKIND = {'remaining_len': 'REMLEN', 'read': 'read', 'read_byte': 'rb', 'descend_ref': 'DESC', 'ascend_ref': 'ASC',
          'on_before_alloc_mem': 'HOOK'}
INPUT_EVENTS = set(EVKIND.values())
AUDITED_INPUTS = {'&[u8]': None, 'codec::IoReader<R>': 'std', 'codec::BytesCursor': 'bytes',
                  "compact::PrefixInput<'a, T>": None, "counted_input::CountedInput<'_, I>": None,
                  "depth_limit::DepthTrackingInput<'_, I>": None, "mem_tracking::MemTrackingInput<'_, I>": None}


def check_wrapper(out, facts, wname, rule='R08.1', own_methods=()):
    ms = {f['method']: f for f in facts.methods('Input') if f['kind'] == 'AssocFn' and wname in f['self']}
    for m in sorted(set(ms) - set(SIX)):
        out.fail(rule, '%s::%s[%s]' % (wname, m, facts.cfg),
                 'input wrapper overrides %s, which is outside the six audited methods: bytes delivered through it bypass the wrapper\'s '
                 'own bookkeeping (counter / limits) and the forwarding rules' % m, ms[m]['loc'])
    for m in SIX:
        key = '%s::%s[%s]' % (wname, m, facts.cfg)
        if m not in ms:
            out.fail(rule, key, 'public input wrapper does not override %s: the default would not reach the wrapped input' % m, '-')
            continue
        fn = ms[m]
        t, v, ev = input_method_term(facts, fn)
        loc = fn['loc']
        ops = sym.has_opaque(t)
        if ops:
            out.fail(rule, key + '/recognised', 'unrecognised construct: %s' % ops[0][1], ops[0][2])
            continue
        ek = EVKIND[m]
        good = True
        why = ''
        for p in paths(t):
            ins = [e for e in p if e[0] in INPUT_EVENTS]
            if len(ins) != 1 or ins[0][0] != ek:
                good = False
                why = 'a path performs input calls %s instead of exactly one forwarded %s' % ([e[0] for e in ins], m)
                break
            # nothing but the forwarded call before it (bookkeeping comes after)
            idx = p.index(ins[0])
            before = [e for e in p[:idx] if e[0] in ('SET', 'MUTCALL', 'ERR', 'RET', '?ERR')]
            if before:
                good = False
                why = 'state is changed or the method exits before forwarding (%s)' % before[0][0]
                break
            # arguments forwarded unchanged
            if m == 'read' and strip(ins[0][1])[:2] != ('param', 'into'):
                good, why = False, 'read forwards a different buffer: ' + sym.vstr(ins[0][1])
                break
            if m == 'on_before_alloc_mem' and strip(ins[0][1])[:2] != ('param', 'size'):
                good, why = False, 'on_before_alloc_mem forwards a different size: ' + sym.vstr(ins[0][1])
                break
        if good and m not in own_methods:
            # result returned unchanged, no additional state change or error path
            extra = [e for e in events(t) if e[0] in ('SET', 'MUTCALL', 'ERR', '?', 'RET', 'PANIC')]
            if extra:
                good, why = False, 'forwarder has additional effects: ' + sym.tstr(extra[0])
            rv = strip(v)
            if m == 'ascend_ref':
                ok_ret = True
            else:
                inner = strip(rv[1]) if isinstance(rv, tuple) and rv[0] == 'res' else None
                ok_ret = isinstance(inner, tuple) and inner[0] in ('io', 'byte', 'remaining')
            if good and not ok_ret:
                good, why = False, 'does not return the wrapped input\'s result unchanged: ' + sym.vstr(v)
        out.ob(rule, key, good, why, loc, sample={'term': sym.tstr(t), 'returns': sym.vstr(v)})


def _walk_thir(node, parents, fn):
    if isinstance(node, dict):
        yield node, parents
        for k, x in node.items():
            if isinstance(x, (dict, list)):
                yield from _walk_thir(x, parents + [node], fn)
    elif isinstance(node, list):
        for x in node:
            yield from _walk_thir(x, parents, fn)


PRIMS = {'u8', 'u16', 'u32', 'u64', 'u128', 'i8', 'i16', 'i32', 'i64', 'i128'}


def check_prefix_input(out, facts):
    """PrefixInput does not forward the hooks; it is exempt because it is only ever handed to a
    primitive decoder, which calls no hook."""
    n = 0
    site_fns = set()
    for f in facts.fns:
        if not f.get('thir'):
            continue
        for node, parents in _walk_thir(f['thir'], [], f):
            if node.get('k') == 'adt' and node.get('adt', '').endswith('PrefixInput'):
                n += 1
                site_fns.add(f['path'])
                # nearest enclosing call
                call = None
                for p in reversed(parents):
                    if p.get('k') == 'call':
                        call = p
                        break
                    if p.get('k') not in ('ref', 'deref', 'coerce'):
                        break
                ok = bool(call) and tname(call.get('trait') or '') == 'Decode' and call['name'] == 'decode' and call['ga'][0] in PRIMS
                out.ob('R08.1', 'PrefixInput construct site in %s #%d [%s]' % (fkey(f), n, facts.cfg), ok,
                       'PrefixInput (which does not forward descend/ascend/alloc hooks) is handed to something other than a '
                       'primitive integer decoder', node.get('loc', f['loc']))
    # non-vacuity: the five compact decoders are the users of PrefixInput; each of them builds one, itself or through a
    # private helper it calls (the number of textual sites is not meaningful: a fragment shared by all five is one site)
    from .common import _local_calls
    users = 0
    for prim in ('u8', 'u16', 'u32', 'u64', 'u128'):
        g = facts.impl_method('Decode', 'compact::Compact<%s>' % prim, 'decode')
        if not g:
            continue
        reach = {g['path']} | {c['path'] for c in facts.closures_of(g)} | {h['path'] for h in _local_calls(g, facts)}
        if reach & site_fns:
            users += 1
    out.floor('R08.1', 'compact decoders that build a PrefixInput [%s]' % facts.cfg, users, 5)
    out.floor('R08.1', 'PrefixInput construct sites [%s]' % facts.cfg, n, 1)
    # its own two methods
    ms = {f['method']: f for f in facts.methods('Input') if f['kind'] == 'AssocFn' and 'PrefixInput' in f['self']}
    out.ob('R08.1', 'PrefixInput overrides [%s]' % facts.cfg, set(ms) == {'remaining_len', 'read'},
           'PrefixInput overrides %s (audited: remaining_len, read)' % sorted(ms), '-')


def _exact_byte_need(x, f):
    """x == count * size_of::<T>() (checked / saturating / plain) in a function whose T is plain data (ToMutByteSlice:
    the encoding of such a T is its memory representation, so that many bytes are needed exactly)"""
    x = strip(x)
    for _ in range(8):
        if not (isinstance(x, tuple) and x):
            break
        if x[0] == 'mutvar':
            x = strip(x[3])
        elif x[0] in ('unwrapped', 'tried'):
            x = strip(x[1])
        elif x[0] == 'call' and x[1] in ('unwrap', 'unwrap_or', 'expect', 'branch', 'ok_or', 'ok_or_else') and x[3]:
            x = strip(x[3][0])
        else:
            break
    ops = None
    if isinstance(x, tuple) and x and x[0] == 'call' and x[1] in ('checked_mul', 'saturating_mul') and len(x[3]) == 2:
        ops = [strip(a) for a in x[3]]
    elif isinstance(x, tuple) and x and x[0] == 'bin' and x[1] == 'Mul':
        ops = [strip(x[2]), strip(x[3])]
    if not ops:
        return False
    plain = any(p.endswith('ToMutByteSlice') for p in f.get('preds', []))
    has_size = any(isinstance(o, tuple) and o and o[0] == 'call' and o[1] == 'size_of' for o in ops)
    return plain and has_size


def check_remaining_len_taint(out, facts, floor=True, only=None):
    """R08.3 (only: predicate selecting the functions to examine, e.g. the derived code of the corpus)"""
    users = []
    for f in facts.fns:
        if not f.get('thir') or f['kind'] not in ('Fn', 'AssocFn'):
            continue
        if only is not None and not only(f):
            continue
        if f['ctx'] == 'trait_impl' and tname(f['trait']) == 'Input':
            continue
        if f['ctx'] == 'trait_default' and tname(f['trait']) == 'Input':
            continue
        uses = False
        for fn2 in [f] + facts.closures_of(f):
            for node, _ in _walk_thir(fn2.get('thir'), [], fn2):
                if node.get('k') == 'call' and node.get('name') == 'remaining_len' and tname(node.get('trait') or '') == 'Input':
                    uses = True
        if uses:
            users.append(f)
    # a private helper that compares remaining_len() with one of its parameters is judged at its call sites (the
    # evaluator inlines it there, with the actual argument in place of the parameter): such helpers are collected in
    # the first pass and their callers analysed in a second one
    refs = referrers(facts)
    private_users = {f['path'] for f in users if f['kind'] == 'Fn' and not f.get('trait') and f.get('vis') != 'Public'}
    deferred_helpers = set()
    caller_only = set()
    users = list(users)
    done_callers = set()
    qi = 0
    while qi < len(users):
        f = users[qi]
        qi += 1
        key = 'remaining_len use in %s [%s]' % (fkey(f), facts.cfg)
        t, v, ev = wire.infer_decoder_fn(facts, f)
        ops = sym.has_opaque(t)
        if ops:
            out.fail('R08.3', key, 'unrecognised construct: ' + ops[0][1], ops[0][2])
            continue

        def tainted(x):
            return contains(x, lambda y: isinstance(y, tuple) and y and y[0] == 'remaining')

        bad = []

        def pure_reject(term):
            k = term[0]
            if k == 'eps':
                return True
            if k == 'ERR':
                return True
            if k == 'alt':
                return all(pure_reject(x) for _, x in term[2])
            if k == 'cat':
                return all(pure_reject(x) for x in term[1])
            return False

        def has_err(term):
            return term is not None and any(e[0] in ('ERR', 'PANIC') for e in sym.walk(term))

        def cmp_sound(c, inside):
            """`payload-of-remaining_len < need` with need the exact number of bytes about to be read"""
            c = strip(c)
            if not (isinstance(c, tuple) and c and c[0] == 'bin' and c[1] in ('Lt', 'Gt', 'Le', 'Ge')):
                return False
            tl, tr = tainted(c[2]), tainted(c[3])
            if tl == tr:
                return False
            mine, other = (c[2], c[3]) if tl else (c[3], c[2])
            # the remaining side must be the payload of Some(..), not the Option itself (None < Some(_) would reject every
            # input of unknown length), and on the smaller side of the comparison
            sm = strip(mine)
            if not (isinstance(sm, tuple) and sm and sm[0] in ('field', 'unwrapped') and tainted(sm)):
                return False
            smaller_is_mine = (c[1] in ('Lt', 'Le')) == tl
            if not smaller_is_mine:
                return False
            po = strip(other)
            while isinstance(po, tuple) and po and po[0] in ('mutvar', 'unwrapped', 'tried'):
                po = strip(po[3] if po[0] == 'mutvar' else po[1])
            deferred = bool(f['path'] in private_users and refs.get(f['path']) and isinstance(po, tuple) and po and po[0] == 'param'
                            and po[1] not in ('input', 'self'))
            if deferred:
                deferred_helpers.add(f['path'])
                return True
            # in a caller that is analysed only because a helper deferred its comparison, judge that comparison only
            if f['path'] in caller_only and inside not in {tname(h) for h in deferred_helpers}:
                return True
            return _exact_byte_need(other, f)

        def sound_reject(c, inside):
            """the condition implies `remaining_len() == Some(l) && l < exact need`"""
            c = strip(c)
            if isinstance(c, tuple) and c and c[0] == 'bin' and c[1] == 'And':
                return sound_reject(c[2], inside) or sound_reject(c[3], inside)
            if isinstance(c, tuple) and c and c[0] == 'bin' and c[1] == 'Or':
                return sound_reject(c[2], inside) and sound_reject(c[3], inside)
            return cmp_sound(c, inside)

        def visit(term, inside=None):
            k = term[0]
            if k == 'alt':
                cond = term[1]
                arms = term[2]
                if isinstance(cond, tuple) and cond and cond[0] == 'if' and tainted(cond):
                    c = strip(cond[1])
                    ad = dict(arms)
                    if isinstance(c, tuple) and c and c[0] == 'letcond' and c[1] == 'Some':
                        # `if let Some(l) = remaining_len()? { .. }`: an input of unknown length just goes on
                        if has_err(ad.get('false')):
                            bad.append('an input whose remaining length is unknown is rejected')
                    elif not pure_reject(term):
                        bad.append('a branch depending on remaining_len() does more than reject: ' + sym.tstr(term)[:160])
                    elif has_err(ad.get('false')):
                        bad.append('input is rejected when a condition on remaining_len() is FALSE: not an audited form (%s)' % sym.vstr(c)[:100])
                    elif has_err(ad.get('true')) and not sound_reject(c, inside):
                        bad.append('input is rejected under `%s`, which does not amount to "remaining_len() is Some(l) and l is below the exact byte '
                                   'length about to be read (count * size_of::<T>() with T: ToMutByteSlice)": valid encodings can be shorter, or the '
                                   'length unknown' % sym.vstr(c)[:120])
                elif tainted(cond) or any(isinstance(d, tuple) and tainted(d) for d, _ in arms):
                    # a match on the Option (or with guards mentioning it): only a guarded `Some(l) if l < need` arm may reject
                    if not pure_reject(term):
                        bad.append('a branch depending on remaining_len() does more than reject: ' + sym.tstr(term)[:160])
                    for d, x in arms:
                        if not has_err(x):
                            continue
                        g = strip(d[2]) if isinstance(d, tuple) and len(d) > 2 and d[0] == 'guard' else None
                        if g is None or not sound_reject(g, inside):
                            bad.append('an arm of a match on remaining_len() rejects the input without comparing Some(l) with the exact byte length about to be read')
                for _, x in arms:
                    visit(x, inside)
            elif k == 'cat':
                for x in term[1]:
                    visit(x, inside)
            elif k == 'star':
                if tainted(term[1]):
                    bad.append('loop bound depends on remaining_len()')
                visit(term[2], inside)
            elif k in ('HELPER',):
                visit(term[2], term[1])
            elif k == 'ONOK':
                visit(term[1], inside)
            elif k in ('HOOK', 'read', 'RET', 'byte', 'write'):
                if tainted(term[1]):
                    bad.append('%s argument depends on remaining_len()' % k)
            elif k == 'SET':
                if tainted(term[2]):
                    bad.append('assignment of a value depending on remaining_len()')
            elif k == 'MUTCALL':
                if any(tainted(a) for a in term[3]):
                    bad.append('call %s receives a value depending on remaining_len()' % term[1])
            elif k == 'dec':
                if len(term) > 4 and isinstance(term[4], (tuple, list)) and tainted(tuple(term[4]) if isinstance(term[4], list) else term[4]):
                    bad.append('decode argument depends on remaining_len()')

        visit(t)
        if tainted(v):
            bad.append('returned value depends on remaining_len()')
        out.ob('R08.3', key, not bad, '; '.join(bad), f['loc'], sample={'term': sym.tstr(t)[:300]})
        # callers of a helper whose comparison was deferred to its call sites
        for hp in sorted(deferred_helpers - done_callers):
            done_callers.add(hp)
            for r in sorted(refs.get(hp, ())):
                g = facts.by_path.get(r)
                if g is not None and g not in users and g.get('thir'):
                    users.append(g)
                    caller_only.add(g['path'])
    if floor:
        out.floor('R08.3', 'functions using remaining_len outside Input impls [%s]' % facts.cfg, len(users), 1)


def check_concrete_inputs(out, facts):
    cfg = facts.cfg
    impls = {i['self']: i for i in facts.impls_of('Input')}
    for s in impls:
        out.ob('R08.4', 'Input impl census: %s [%s]' % (s, cfg), s in AUDITED_INPUTS,
               'unaudited `impl Input for %s`: decoding through it is not covered by the forwarding/shape rules' % s, impls[s]['loc'])
    # the hidden zero-copy hook: its default goes through Vec<u8>::decode (bounded, validated); the only override whose
    # shape is audited (R08.4 below) is the one of BytesCursor.  Any other input overriding it decodes `Bytes` by rules of
    # its own that nothing here has checked (fail closed: a new override must be audited)
    hk = sorted(i['self'] for i in impls.values() if any(it['name'] == 'scale_internal_decode_bytes' for it in i['items']))
    out.ob('R08.4', 'scale_internal_decode_bytes overrides [%s]' % cfg, all(s in ('codec::BytesCursor',) for s in hk),
           'the zero-copy Bytes hook is overridden by %s: only the BytesCursor override is audited' % [s for s in hk if s != 'codec::BytesCursor'], '-')
    # read_byte overrides (R08.2)
    rb = sorted(i['self'] for i in impls.values() if any(it['name'] == 'read_byte' for it in i['items']))
    # an override that does what the trait default does (one `read` of a one-byte buffer, that byte returned) is the default
    # written out, whoever has it; decided by evaluating both with `self` as the input
    def as_default(fn):
        ev = sym.Evaluator(facts)
        ctx = sym.Ctx(ev, fn)
        ps = fn['params']
        if not (ps and ps[0] and ps[0]['k'] == 'bind'):
            return None
        ctx.env[ps[0]['v']] = ('self',)
        ev.extra_inputs.append(('self',))
        v, t = ev.ev(fn['thir'], ctx)
        if sym.has_opaque(t):
            return None
        return (sym.tstr(t), sym.vstr(v))
    dflt = facts.trait_default('Input', 'read_byte')
    d_sem = as_default(dflt) if dflt else None
    plain = []
    for s in rb:
        if any(w in s for w in ('CountedInput', 'DepthTrackingInput', 'MemTrackingInput')):
            continue
        fo = facts.impl_method('Input', s, 'read_byte')
        if not (fo and d_sem and as_default(fo) == d_sem and any(e for e in d_sem[0].split(' · ') if 'read' in e)):
            plain.append(s)
    out.ob('R08.2', 'read_byte overrides [%s]' % cfg, not plain,
           'read_byte is overridden by an input that neither forwards it nor repeats the trait default: %s (all overrides: %s)' % (plain, rb), '-')
    # default read_byte = read of a one-byte buffer, returning that byte
    d = facts.trait_default('Input', 'read_byte')
    if d:
        ev = sym.Evaluator(facts)
        ctx = sym.Ctx(ev, d)
        ctx.env[d['params'][0]['v']] = ('input',)
        v, t = ev.ev(d['thir'], ctx)
        its = [e for e in events(t) if e[0] in INPUT_EVENTS]
        # one read of the whole of a one-byte buffer (`&mut buf[..]`, `&mut buf`, `[0u8]` or `[0u8; 1]`), its error propagated,
        # and element 0 of that buffer returned (by index or by an array pattern)
        okd = len(its) == 1 and its[0][0] == 'read' and any(e[0] == '?' for e in events(t))
        if okd:
            sv_ = slice_view(sym.deinit(its[0][1]))
            okd = sv_ is not None and sv_[1] is None and sv_[2] is None and sym.vstr(sym.deinit(sv_[0])) == '[0:u8]'
        rv = sym.vstr(sym.deinit(strip(v)))
        okd = okd and rv == 'Ok([0:u8][0:usize])'
        out.ob('R08.2', 'Input::read_byte default [%s]' % cfg, okd, 'default read_byte is not `read(&mut [0u8][..])?; Ok(buf[0])`: %s -> %s' % (sym.tstr(t), rv), d['loc'])
    else:
        out.fail('R08.2', 'Input::read_byte default [%s]' % cfg, 'trait default not found', '-')
    for m, want in (('descend_ref', 'Ok(())'), ('ascend_ref', 'unit'), ('on_before_alloc_mem', 'Ok(())')):
        d = facts.trait_default('Input', m)
        if not d:
            out.fail('R08.1', 'Input::%s default [%s]' % (m, cfg), 'trait default not found', '-')
            continue
        ev = sym.Evaluator(facts)
        ctx = sym.Ctx(ev, d)
        ctx.env[d['params'][0]['v']] = ('input',)
        v, t = ev.ev(d['thir'], ctx)
        out.ob('R08.1', 'Input::%s default is a no-op [%s]' % (m, cfg), t == ['eps'] and sym.vstr(v) == want,
               'default hook is not a successful no-op: %s -> %s' % (sym.tstr(t), sym.vstr(v)), d['loc'])
    # IoReader
    if 'codec::IoReader<R>' in impls:
        f = facts.impl_method('Input', 'codec::IoReader<R>', 'remaining_len')
        t, v, ev = input_method_term(facts, f)
        out.ob('R08.4', 'IoReader::remaining_len [%s]' % cfg, t == ['eps'] and sym.vstr(v) == 'Ok(Option::None{})',
               'IoReader must report an unknown remaining length (Ok(None)); found %s' % sym.vstr(v), f['loc'])
        f = facts.impl_method('Input', 'codec::IoReader<R>', 'read')
        t, v, ev = input_method_term(facts, f)
        evs = [e for e in events(t) if e[0] not in ('CFG', 'ERR', '?', 'RET')]
        okr = len(evs) == 1 and evs[0][0] == 'MUTCALL' and evs[0][1] == 'read_exact' and sym.vstr(evs[0][3][1]) == 'into'
        sv = strip(v)
        # the result of read_exact is returned with only its error converted: either the call value itself (map_err /
        # `?` keep it), or a match on it that yields Ok(()) for Ok and an error for Err
        direct = isinstance(sv, tuple) and sv[0] == 'call' and sv[1] == 'read_exact'
        alts = [x for x in sym.walk(t) if x[0] == 'alt']
        by_match = False
        if len(alts) == 1 and isinstance(strip(alts[0][1]), tuple) and strip(alts[0][1])[0] == 'call' and strip(alts[0][1])[1] == 'read_exact':
            arms = {(d[1] if isinstance(d, tuple) and len(d) > 1 else str(d)): x for d, x in alts[0][2]}
            ok_arm = [x for k_, x in arms.items() if str(k_).startswith('Ok')]
            err_arm = [x for k_, x in arms.items() if str(k_).startswith('Err')]
            by_match = len(ok_arm) == 1 and len(err_arm) == 1 and not events(ok_arm[0]) and sym._ends_err(err_arm[0]) and sym.vstr(v) in ('Ok(())', 'Ok(unit)')
        # `self.0.read_exact(into)?; Ok(())`: the error is propagated (converted by `?`), success returns Ok(())
        by_try = any(e[0] == '?' for e in events(t)) and sym.vstr(v) in ('Ok(())', 'Ok(unit)') and not alts
        okr = okr and (direct or by_match or by_try)
        out.ob('R08.4', 'IoReader::read [%s]' % cfg, okr, 'IoReader::read is not `read_exact(into)` with the error mapped: %s -> %s' % (sym.tstr(t), sym.vstr(v)), f['loc'])
    # BytesCursor
    if 'codec::BytesCursor' in impls:
        check_bytes_cursor(out, facts)


def _only_converted(v, uid):
    """v is Ok(..) of the decoded value #uid, passed through conversions only (`Bytes::from`, `.into()`, `.map(From::from)`)"""
    v = strip(v)
    s = sym.vstr(v)
    if not s.startswith('Ok('):
        return False
    x = v
    for _ in range(8):
        x = strip(x)
        if not isinstance(x, tuple) or not x:
            return False
        if x[0] == 'decoded':
            return x[2] == uid
        if x[0] in ('res', 'conv', 'tried', 'unwrapped'):
            x = x[1]
        elif x[0] == 'mapped' and isinstance(strip(x[1]), tuple) and strip(x[1])[0] == 'fnitem' and strip(x[1])[1].split('::')[-1] in ('from', 'into'):
            x = x[2]
        elif x[0] == 'call' and x[1] in ('from', 'into', 'map', 'Ok') and x[3]:
            args = [strip(a) for a in x[3]]
            nxt = [a for a in args if isinstance(a, tuple) and a and a[0] in ('decoded', 'res', 'conv', 'tried', 'call')]
            if not nxt:
                return False
            x = nxt[-1] if x[1] != 'map' else nxt[0]
        elif x[0] == 'adt' and x[2] == 'Ok' and x[3]:
            x = x[3][0][1]
        else:
            return False
    return False


def check_bytes_cursor(out, facts):
    cfg = facts.cfg
    f = facts.impl_method('Input', 'codec::BytesCursor', 'remaining_len')
    t, v, ev = input_method_term(facts, f)
    out.ob('R08.4', 'BytesCursor::remaining_len [%s]' % cfg, sym.vstr(v) == 'Ok(Some((len(self.bytes) Sub self.position)))' and t == ['eps'],
           'remaining_len is not len - position: ' + sym.vstr(v), f['loc'])
    f = facts.impl_method('Input', 'codec::BytesCursor', 'read')
    t, v, ev = input_method_term(facts, f)
    ok = True
    why = []
    for p in paths(t):
        errs = [i for i, e in enumerate(p) if e[0] in ('ERR', '?ERR')]
        muts = [i for i, e in enumerate(p) if e[0] in ('SET', 'MUTCALL')]
        if errs:
            if any(i < errs[0] for i in muts):
                ok = False
                why.append('state written before the failing exit')
            continue
        arms = [e for e in p if e[0] == 'ARM']
        guard = [a for a in arms if 'len(into) Gt (len(self.bytes) Sub self.position)' in sym.vstr(a[1][1]) or
                 '(len(self.bytes) Sub self.position) Lt len(into)' in sym.vstr(a[1][1])]
        if not guard or guard[0][2] != 'false':
            ok = False
            why.append('copy not dominated by the false edge of `into.len() > len - position`')
        sets = [e for e in p if e[0] == 'SET']
        adv = len(sets) == 1 and is_self_field(sets[0][1], 'position') and (
            (sets[0][3] == 'AddAssign' and sym.vstr(sets[0][2]) == 'len(into)') or
            (sets[0][3] in (None, 'Assign') and sym.vstr(sets[0][2]) in ('(self.position Add len(into))', '(len(into) Add self.position)')))
        if not adv:
            ok = False
            why.append('position not advanced by exactly into.len(): %s' % [sym.tstr(s) for s in sets])
        cp = [e for e in p if e[0] == 'MUTCALL' and e[1] == 'copy_from_slice']
        okr = False
        if len(cp) == 1:
            vw = slice_view(cp[0][3][1])
            okr = bool(vw) and 'self.bytes' in sym.vstr(vw[0]) and vw[1] is not None and sym.vstr(vw[1]) == 'self.position' and vw[2] is not None and \
                sym.vstr(vw[2]) in ('(self.position Add len(into))', '(len(into) Add self.position)')
        if not okr:
            ok = False
            why.append('copied range is not [position, position + into.len())')
    # acceptance, decided by evaluating the branch conditions at boundary values (any spelling of the guard is fine): a
    # read of n bytes with position p in a buffer of L bytes (p <= L) fails iff n > L - p -- in particular an empty read
    # at the very end succeeds, and nothing else is ever rejected
    for n, L, pos in ((0, 0, 0), (0, 5, 5), (1, 5, 5), (1, 5, 4), (2, 5, 4), (5, 5, 0), (6, 5, 0), (0, 5, 0), (3, 7, 2), (6, 7, 2)):
        def leaf(x, n=n, L=L, pos=pos):
            sx = sym.vstr(x)
            if sx == 'len(into)':
                return n
            if sx == 'len(self.bytes)':
                return L
            if sx == 'self.position':
                return pos
            return None
        evs, st = trace(t, leaf)
        want = 'ERR' if n > L - pos else 'OK'
        got = 'ERR' if st == 'ERR' else ('OK' if st in ('OK', 'RET') else st)
        if got != want:
            ok = False
            why.append('a read of %d byte(s) at position %d of %d %s (evaluation of the guards gives %s)' % (
                n, pos, L, 'must fail' if want == 'ERR' else 'must succeed', got))
            break
    out.ob('R08.4', 'BytesCursor::read [%s]' % cfg, ok and not sym.has_opaque(t), '; '.join(sorted(set(why))), f['loc'], sample={'term': sym.tstr(t)})
    # zero-copy override: Compact<u32> count, reject if count > remaining, hook with the count, split exactly count
    f = facts.impl_method('Input', 'codec::BytesCursor', 'scale_internal_decode_bytes')
    ev = sym.Evaluator(facts)
    ev.extra_inputs.append(('self',))
    ctx = sym.Ctx(ev, f)
    ctx.env[f['params'][0]['v']] = ('self',)
    v, t = ev.ev(f['thir'], ctx)
    seq = [e for e in events(t) if e[0] in ('dec', 'MUTCALL', 'SET', 'HOOK', 'ERR', 'read', 'rb')]
    kinds = [(e[0], e[1] if e[0] == 'MUTCALL' else None) for e in seq]
    want = [('dec', None), ('MUTCALL', 'advance'), ('SET', None), ('ERR', None), ('HOOK', None), ('MUTCALL', 'split_to')]
    taken = False
    if len(kinds) == len(want) and kinds[1] == ('SET', None) and kinds[2] == ('MUTCALL', 'advance') and \
            sym.vstr(seq[2][3][1]) == 'take(self.position)':
        # `advance(&mut bytes, mem::take(&mut position))`: the reset happens while the argument is evaluated, and the amount
        # advanced is the value the field held before it (a plain read after the reset would be 0: not accepted)
        seq[1], seq[2] = seq[2], seq[1]
        kinds[1], kinds[2] = kinds[2], kinds[1]
        taken = True
    ok = kinds == want
    why = 'event sequence %s differs from dec Compact<u32>, advance(position), position = 0, reject, hook, split_to' % kinds
    if ok:
        d = seq[0]
        ok = d[1] == 'compact::Compact<u32>'
        cnt = sym.vstr(seq[5][3][1])
        ok = ok and cnt == '(decoded#%s:compact::Compact<u32>.0 as usize)' % d[2]
        ok = ok and sym.vstr(seq[4][1]) == cnt
        ok = ok and sym.vstr(seq[1][3][1]) == ('take(self.position)' if taken else 'self.position') and sym.vstr(seq[2][2]) == '0:usize' and is_self_field(seq[2][1], 'position')
        alts = [x for x in sym.walk(t) if x[0] == 'alt']
        nc = norm_cmp(alts[0][1][1]) if len(alts) == 1 and isinstance(alts[0][1], tuple) and alts[0][1][0] == 'if' else None
        ok = ok and bool(nc) and nc[0] == 'Gt' and sym.vstr(nc[1]) == cnt and sym.vstr(nc[2]) == 'len(self.bytes)' and \
            [d for d, x in alts[0][2] if any(e[0] == 'ERR' for e in events(x))] == ['true']
        why = 'count/guard/hook/split arguments disagree: ' + sym.tstr(t)[:300]
    out.ob('R08.4', 'BytesCursor::scale_internal_decode_bytes [%s]' % cfg, ok, why, f['loc'], sample={'term': sym.tstr(t)})
    d = facts.trait_default('Input', 'scale_internal_decode_bytes')
    if d:
        t, v, ev = wire.infer_decoder_fn(facts, d)
        evs_d = [e for e in events(t) if e[0] not in ('?', 'CFG')]
        okd = len(evs_d) == 1 and evs_d[0][0] == 'dec' and evs_d[0][1] == 'alloc::vec::Vec<u8>' and _only_converted(v, evs_d[0][2])
        out.ob('R08.4', 'Input::scale_internal_decode_bytes default [%s]' % cfg, okd,
               'default is not Vec::<u8>::decode(self).map(Bytes::from): %s -> %s' % (sym.tstr(t), sym.vstr(v)), d['loc'])
    # decode_from_bytes starts the cursor at 0 and returns T::decode unchanged
    g = facts.by_path.get('codec::decode_from_bytes')
    if g:
        t, v, ev = wire.infer_decoder_fn(facts, g)
        decs = [e for e in events(t) if e[0] == 'dec']
        okg = len(decs) == 1 and decs[0][3] == 'wrapped_input'
        if okg:
            # by the role of each field, whatever their order
            a = strip(decs[0][4])
            okg = isinstance(a, tuple) and a[0] == 'adt' and a[1].endswith('BytesCursor')
            if okg:
                adt = facts.adt_by_path.get(a[1])
                names = [facts.canon_field(a[1], fl_['name']) for fl_ in adt['variants'][0]['fields']] if adt else []
                byname = {names[i]: sym.vstr(x) for i, x in a[3] if i < len(names)}
                okg = byname == {'bytes': 'bytes', 'position': '0:usize'}
        okg = okg and sym.vstr(v) == 'Ok(decoded#%s:T)' % decs[0][2] if decs else False
        out.ob('R08.4', 'decode_from_bytes [%s]' % cfg, okg, 'decode_from_bytes is not T::decode(&mut BytesCursor{bytes, position: 0}): %s -> %s' % (sym.tstr(t), sym.vstr(v)), g['loc'])
    else:
        out.fail('R08.4', 'decode_from_bytes [%s]' % cfg, 'function not found', '-')


def run(cx, out):
    out.rule('R08.1', 'public wrappers override all six Input methods; each path forwards exactly once with the same arguments and returns the result unchanged; PrefixInput only feeds primitive decoders; default hooks are no-ops')
    out.rule('R08.2', 'read_byte overridden only by forwarding wrappers; default = read of a 1-byte buffer')
    out.rule('R08.3', 'remaining_len() results flow only into pure-rejection branches')
    out.rule('R08.4', 'shape of &[u8] (C14 R14.1), IoReader, BytesCursor (+ zero-copy override) and census of Input impls')
    from . import c14
    for cfg in lib_cfgs(cx, quick=('D',), thorough=('A', 'B', 'D', 'E')):
        facts = cx.facts(cfg)
        unit(out, facts)
        check_wrapper(out, facts, 'CountedInput', own_methods=('read', 'read_byte'))
        check_wrapper(out, facts, 'DepthTrackingInput', own_methods=('descend_ref', 'ascend_ref'))
        check_wrapper(out, facts, 'MemTrackingInput', own_methods=('on_before_alloc_mem',))
        check_prefix_input(out, facts)
        check_remaining_len_taint(out, facts)
        check_concrete_inputs(out, facts)
        c14.check_slice_input(out, facts, rule='R08.4')
        n_in = len(facts.impls_of('Input'))
        want = {'A': 6, 'B': 5, 'C': 5, 'D': 7, 'E': 6}.get(cfg, 5)
        out.floor('R08.4', 'Input impls [%s]' % cfg, n_in, want)
    # premises: a wrapper stack with non-binding limits is transparent only if depth bookkeeping is balanced (C11 R11.1:
    # an unmatched ascend underflows the depth counter under the wrapper and is invisible without it)
    from . import shared
    shared.premises(cx, out, {'c11': {'R11.1'}})
    from . import positive
    positive.check(cx, out, 'C08')
