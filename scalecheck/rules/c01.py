"""C01 — encoded bytes conform to the SCALE wire format (DESIGN §6 C01)."""
import re
from .common import *
from .. import shape, types as T

LEVEL = 'other'
EXPLANATION = (
    'R01.1 shape conformance: for every Encode impl of the crate the wire shape inferred from the current method '
    'bodies (typed THIR; constants, encoded components, their order, representation and count prefixes) equals the '
    'entry of the SCALE table transcribed in the checker (Option/Result/OptionBool tags, Seq for slices and all '
    'collections, Rep for arrays, Cat for tuples/Duration/ranges with the operand order start-before-end and '
    'secs-before-nanos, forwarders transparent, BitSeq = bit count + zero-initialised store words filled from '
    'chunks of the bit slice); every encoded operand is a pure access path from self. R01.2 endianness: the only '
    'integer/byte conversions called anywhere in the crate are the little-endian ones, and the bulk paths '
    'reinterpret memory only under the literal produced by cfg!(target_endian = "little") or for one-byte elements. '
    'R01.3 the fake-specialisation table: exactly the 12 primitives override TYPE_INFO, pairwise distinct, equal on '
    'the Encode and Decode side, and each arm of the bulk encoder reinterprets the slice as the primitive its '
    'variant names. R01.4 census of explicit panics on encoding paths with re-checked justifications (count prefix '
    'expect reachable only above u32::MAX elements, BitSlice assert only above 2^29-1 bits; arithmetic asserts are '
    'discharged by the interval engine shared with C03).')
ASSUMPTIONS = ['to_le_bytes / as_byte_slice / BitSlice::chunks / copy_from_bitslice / collection iterators behave as documented',
               'little-endian target (memory image of a primitive = its LE bytes)',
               'the SCALE table in this file is a faithful transcription of the specification']

PRIMS12 = ['u8', 'i8', 'u16', 'i16', 'u32', 'i32', 'u64', 'i64', 'u128', 'i128', 'f32', 'f64']
COLL = {'alloc::collections::btree::set::BTreeSet', 'alloc::collections::linked_list::LinkedList',
        'alloc::collections::binary_heap::BinaryHeap', 'alloc::collections::vec_deque::VecDeque'}
FORBIDDEN_CONV = {'to_be_bytes', 'to_ne_bytes', 'from_be_bytes', 'from_ne_bytes', 'swap_bytes', 'reverse_bits', 'to_be', 'from_be',
                  'rotate_left', 'rotate_right'}


def expected(st):
    """SCALE shape of an Encode impl from its self type; (shape, operands) or None when the table
    has no entry; operands = expected rendering of encoded operands in order (None = not pinned)"""
    k = st[0]
    if k == 'prim':
        if st[1] in PRIMS12 or st[1] == 'bool':
            return ('prim', st[1]), None
        if st[1] == 'str':
            return ('seq', ('prim', 'u8')), ['as_bytes(self)']
    if k == 'tuple':
        if not st[1]:
            return ('eps',), []
        return shape.wcat([('var', a[1]) for a in st[1]]), ['self.%d' % i for i in range(len(st[1]))]
    if k == 'slice':
        return ('seq', ('var', st[1][1])), None
    if k == 'array':
        return ('rep', ('var', st[1][1]), st[2]), None
    if k == 'param':
        return ('var', 'T'), ['deref(self)']
    if k == 'adt':
        p, a = st[1], st[2]
        nm = lambda x: x[1] if x[0] in ('param', 'prim') else T.show(x)
        if p == 'core::option::Option':
            return ('alt', [('Some', ('cat', [('byte', 1), ('var', nm(a[0]))])), ('None', ('byte', 0))]), None
        if p == 'core::result::Result':
            return ('alt', [('Ok', ('cat', [('byte', 0), ('var', nm(a[0]))])), ('Err', ('cat', [('byte', 1), ('var', nm(a[1]))]))]), None
        if p == 'codec::OptionBool':
            return ('alt', [('(None)', ('byte', 0)), ('(Some(true))', ('byte', 1)), ('(Some(false))', ('byte', 2))]), None
        if p == 'alloc::collections::btree::map::BTreeMap':
            return ('seq', ('cat', [('var', nm(a[0])), ('var', nm(a[1]))])), None
        if p in COLL:
            return ('seq', ('var', nm(a[0]))), None
        if p == 'generic_array::GenericArray':
            return ('rep', ('var', nm(a[0])), nm(a[1])), None
        if p == 'core::num::nonzero::NonZero':
            return ('prim', nm(a[0])), ['get(self)']
        if p == 'core::time::Duration':
            return ('cat', [('prim', 'u64'), ('prim', 'u32')]), ['(as_secs(self), subsec_nanos(self))']
        if p == 'core::ops::range::Range':
            return ('cat', [('var', nm(a[0])), ('var', nm(a[0]))]), ['(self.start, self.end)']
        if p == 'core::ops::range::RangeInclusive':
            return ('cat', [('var', nm(a[0])), ('var', nm(a[0]))]), ['(start(self), end(self))']
        if p == 'core::marker::PhantomData':
            return ('eps',), []
        if p == 'compact::Compact':
            return ('cvar', nm(a[0])), ['CompactRef::CompactRef{0: self.0}']
        if p == 'compact::CompactRef':
            if a[0] == ('tuple', []):
                return ('eps',), []
            if a[0][0] == 'param':
                return ('cvar', '<%s as CompactAs>::As' % a[0][1]), ['CompactRef::CompactRef{0: encode_as(self.0)}']
            if a[0][0] == 'prim':
                return 'C04', None
        if p == 'bitvec::slice::BitSlice':
            return ('bitseq', 'chunks'), None
        if p in ('bitvec::vec::BitVec', 'bitvec::boxed::BitBox'):
            return ('bitseq', 'chunks'), ['as_bitslice(self)']
    return None


def norm(w):
    """order-insensitive alternatives"""
    if w[0] == 'alt':
        return ('alt', tuple(sorted((l, norm(x)) for l, x in w[1])))
    if w[0] == 'cat':
        return ('cat', tuple(norm(x) for x in w[1]))
    if w[0] in ('seq',):
        return ('seq', norm(w[1]))
    if w[0] == 'rep':
        return ('rep', norm(w[1]), w[2])
    return w


def has_marker(w, tag):
    if isinstance(w, tuple):
        if w and w[0] == tag:
            return w
        for x in w[1:]:
            if isinstance(x, (tuple, list)):
                for y in (x if isinstance(x, list) else [x]):
                    r = has_marker(y, tag) if isinstance(y, tuple) else None
                    if r:
                        return r
                    if isinstance(y, tuple) and len(y) == 2 and isinstance(y[1], tuple):
                        r = has_marker(y[1], tag)
                        if r:
                            return r
    return None


def check_shapes(out, facts):
    cfg = facts.cfg
    S = shape.Shapes(facts)
    n = 0
    fams = set()
    for i in facts.impls_of('Encode'):
        st = T.from_json(i['self_ty'])
        key = 'impl Encode for %s [%s]' % (i['self'], cfg)
        exp = expected(st)
        if exp is None:
            out.note('Encode impl without SCALE table entry (not judged by R01.1): %s at %s' % (i['self'], i['loc']))
            out.count('impls outside the table')
            continue
        ew, ops = exp
        src = S.source_term(i)
        if src is None or src[0] == 'none':
            out.fail('R01.1', key, 'impl overrides none of encode_to / encode / using_encoded', i['loc'])
            continue
        m, term, fn = src
        opq = sym.has_opaque(term)
        if opq:
            out.fail('R01.1', key, 'unrecognised construct in %s: %s' % (m, opq[0][1]), opq[0][2])
            continue
        if ew == 'C04':
            out.count('compact integer encoders (decided by C04)')
            continue
        n += 1
        fams.add(st[1] if st[0] == 'adt' else st[0] + (st[1] if st[0] == 'prim' else ''))
        w = S.wire_impl(i)
        comp = has_marker(w, '__computed')
        oq = has_marker(w, 'opaque')
        good = norm(w) == norm(ew) and not comp and not oq
        msg = ''
        if not good:
            msg = 'inferred wire shape %s differs from the SCALE shape %s' % (shape.wshow(w), shape.wshow(ew))
            if comp:
                msg = 'a computed value (%s) is encoded instead of a component of self' % comp[2]
            if oq:
                msg = 'unrecognised encoder shape: ' + str(oq[1])
        if good and ops is not None:
            got = [sym.vstr(e[2]) for e in events(term) if e[0] == 'enc']
            if got != ops:
                good = False
                msg = 'encoded operands %s differ from %s (order / access path)' % (got, ops)
        out.ob('R01.1', key, good, msg, fn['loc'] if fn else i['loc'], sample={'inferred': shape.wshow(w), 'table': shape.wshow(ew), 'method': m})
        if st[0] == 'adt' and st[1] == 'bitvec::slice::BitSlice':
            check_bitslice(out, facts, i, term, fn)
        if st[0] == 'adt' and st[1] == 'alloc::collections::vec_deque::VecDeque':
            pass
    want = {'A': 60, 'B': 60, 'C': 60, 'D': 64, 'E': 64}.get(cfg, 60)
    out.floor('R01.1', 'Encode impls compared with the SCALE table [%s]' % cfg, n, want)
    out.floor('R01.1', 'type families covered [%s]' % cfg, len(fams), 25)
    return S


def check_bitslice(out, facts, impl, term, fn):
    cfg = facts.cfg
    key = 'BitSlice::encode_to details [%s]' % cfg
    why = []
    encs = [e for e in events(term) if e[0] == 'enc']
    # count = bits = self.len() as u32
    if not encs or sym.vstr(encs[0][2]) != 'Compact::Compact{0: (len(self) as u32)}' or encs[0][1] != 'compact::Compact<u32>':
        why.append('count prefix is not Compact(self.len() as u32) in bits')
    stars = [x for x in sym.walk(term) if x[0] == 'star']
    if len(stars) != 1:
        why.append('expected one loop over chunks')
    else:
        s = strip(stars[0][1])
        ok = isinstance(s, tuple) and s[0] == 'call' and s[1] == 'chunks' and strip(s[3][0]) == ('self',)
        sz = sym.vstr(s[3][1]) if ok else ''
        so0 = strip(s[3][1]) if ok else None
        if ok and sz == '(size_of() Mul 8:usize)':
            so = strip(so0[2])
            ok = so[4] and so[4][0] == 'T'
        elif ok and isinstance(so0, tuple) and so0[0] == 'call' and so0[1] == 'bits_of' and 'bitvec::mem' in str(so0[2]):
            # bitvec's own name for size_of::<T>() * 8
            ok = bool(so0[4]) and so0[4][0] == 'T'
        else:
            ok = False
        if not ok:
            why.append('chunks are not taken from the bit slice itself with size_of::<T>() * 8 bits')
        body = stars[0][2]
        be = [e for e in events(body) if e[0] in ('enc', 'MUTCALL')]
        kinds = [(e[0], e[1]) for e in be]
        # element starts as T::ZERO, bits copied from the chunk, then encoded as T
        if not (len(be) >= 2 and be[-1][0] == 'enc' and be[-1][1] == 'T' and any(e[0] == 'MUTCALL' and e[1] == 'copy_from_bitslice' for e in be)):
            why.append('loop body is not copy_from_bitslice(chunk) into an element followed by its encoding: %s' % kinds)
        else:
            enc = be[-1]
            v = strip(enc[2])
            if not (isinstance(v, tuple) and v[0] in ('const', 'mutvar') and 'ZERO' in sym.vstr(v)):
                if not (isinstance(v, tuple) and v[0] == 'mutvar' and 'ZERO' in sym.vstr(v[3])):
                    why.append('encoded element does not start from T::ZERO (padding bits would not be zero): ' + sym.vstr(v))
    out.ob('R01.1', key, not why, '; '.join(why), fn['loc'], sample={'term': sym.tstr(term)[:300]})


def check_endianness(out, facts):
    cfg = facts.cfg
    from .c08 import _walk_thir
    n_le = 0
    for f in facts.fns:
        if not f.get('thir'):
            continue
        for node, parents in _walk_thir(f['thir'], [], f):
            if node.get('k') != 'call':
                continue
            nm = node['name']
            if nm in ('to_le_bytes', 'from_le_bytes'):
                n_le += 1
            prim_recv = node.get('inherent') in PRIMS12 or (node.get('f', '').startswith('core::num::') and '<impl ' in node.get('f', ''))
            if nm in FORBIDDEN_CONV and prim_recv:
                out.fail('R01.2', '%s calls %s [%s]' % (fkey(f), nm, cfg), 'non-little-endian / bit-reordering conversion on a primitive', node.get('loc', f['loc']))
            if nm == 'reverse' and 'slice' in node.get('f', ''):
                out.fail('R01.2', '%s calls slice::reverse [%s]' % (fkey(f), cfg), 'byte order of a buffer is reversed', node.get('loc', f['loc']))
    out.ob('R01.2', 'little-endian conversions present [%s]' % cfg, n_le >= 20, 'only %d to_le_bytes/from_le_bytes call sites (10 + 10 expected)' % n_le, '-')
    # bulk paths: transmute only under cfg!(..) literal or for one-byte elements
    for role, tag in (('slice_no_len', 'enc'), ('with_len', 'dec')):
        f = roles(facts).get(role)
        path = 'helper:' + role
        if not f:
            out.fail('R01.2', path + ' [%s]' % cfg, 'bulk function not found (anchor missing)', '-')
            continue
        if tag == 'enc':
            ev = sym.Evaluator(facts)
            ctx = sym.Ctx(ev, f)
            bind_slice_dest(f, ctx)
            v, t = ev.ev(f['thir'], ctx)
        else:
            t, v, ev = wire.infer_decoder_fn(facts, f)
        alts = [x for x in sym.walk(t) if x[0] == 'alt' and isinstance(strip(x[1]), tuple) and strip(x[1])[0] == 'const' and strip(x[1])[1].endswith('TYPE_INFO')]
        if len(alts) != 1:
            out.fail('R01.2', path + ' dispatch [%s]' % cfg, 'expected one dispatch on TYPE_INFO, found %d' % len(alts), f['loc'])
            continue
        arms = {d[1]: x for d, x in alts[0][2]}
        out.ob('R01.3', path + ' arms [%s]' % cfg, set(arms) == {p.upper() for p in PRIMS12} | {'Unknown'},
               'TYPE_INFO arms are %s' % sorted(arms), f['loc'])
        for var, x in sorted(arms.items()):
            if var == 'Unknown':
                continue
            prim = var.lower()
            its = items(x)
            has_cfg = any(e[0] == 'CFG' and isinstance(e[1], tuple) and e[1][0] == 'lit' and 'cfg' in (e[1][3] if len(e[1]) > 3 else ()) for e in sym.walk(x))
            if tag == 'enc':
                wr = [e for e in events(x) if e[0] == 'write']
                tm = None
                for e in wr:
                    contains(e[1], lambda y: (globals().__setitem__('_tm', y) or False) if (isinstance(y, tuple) and len(y) > 4 and y[0] == 'call' and y[1] == 'transmute') else False)
                tmv = globals().pop('_tm', None)
                tgt = tmv[4][1] if tmv else None
                ok_t = tgt == '&[%s]' % ('u8' if prim in ('u8', 'i8') else prim)
                if not tmv and len(wr) == 1:
                    # the same bytes as a raw-parts view of the whole slice: len * size_of of this arm's primitive
                    wb = whole_byte_view(wr[0][1])
                    if wb and wb[1] == PRIM_BYTES[prim] and sym.vstr(wb[0]) in ('slice', 'index(slice, RangeFull::RangeFull{})'):
                        out.ob('R01.3', '%s arm %s reinterprets as [%s] [%s]' % (path, var, prim, cfg), True, '', f['loc'])
                        out.ob('R01.3', '%s arm %s covers the whole slice [%s]' % (path, var, cfg), True, '', f['loc'])
                        if prim not in ('u8', 'i8'):
                            out.ob('R01.2', '%s arm %s guarded by cfg!(target_endian) [%s]' % (path, var, cfg), has_cfg,
                                   'multi-byte elements are reinterpreted without the target-endianness guard', f['loc'])
                        continue
                out.ob('R01.3', '%s arm %s reinterprets as [%s] [%s]' % (path, var, prim, cfg), bool(wr) and ok_t,
                       'arm %s writes the slice reinterpreted as %s' % (var, tgt), f['loc'])
                whole = tmv and sym.vstr(tmv[3][0]) in ('index(slice, RangeFull::RangeFull{})', 'slice')
                out.ob('R07.4' if False else 'R01.3', '%s arm %s covers the whole slice [%s]' % (path, var, cfg), bool(whole), 'bulk write does not cover the whole slice: %s' % (sym.vstr(tmv[3][0]) if tmv else None), f['loc'])
            else:
                hs = [e for e in sym.walk(x) if e[0] == 'HELPER' and e[1] == role_name(facts, 'bulk')]
                out.ob('R01.3', '%s arm %s uses the bulk reader [%s]' % (path, var, cfg), len(hs) >= 1, 'arm does not call read_vec_from_u8s', f['loc'])
            if prim not in ('u8', 'i8'):
                out.ob('R01.2', '%s arm %s guarded by cfg!(target_endian) [%s]' % (path, var, cfg), has_cfg,
                       'multi-byte elements are reinterpreted without the target-endianness guard', f['loc'])


def check_type_info(out, facts):
    cfg = facts.cfg
    enc = {}
    dec = {}
    for f in facts.fns:
        if f['kind'] == 'AssocConst' and f['method'] == 'TYPE_INFO' and f['ctx'] == 'trait_impl':
            t = f.get('thir') or {}
            var = t.get('variant') if t.get('k') == 'adt' else None
            (enc if tname(f['trait']) == 'Encode' else dec)[f['self']] = var
    ok = set(enc) == set(PRIMS12) and set(dec) == set(PRIMS12)
    out.ob('R01.3', 'TYPE_INFO overridden by exactly the 12 primitives [%s]' % cfg, ok,
           'Encode side: %s; Decode side: %s' % (sorted(enc), sorted(dec)), '-')
    for p in PRIMS12:
        out.ob('R01.3', 'TYPE_INFO of %s [%s]' % (p, cfg), enc.get(p) == p.upper() and dec.get(p) == p.upper(),
               'TYPE_INFO of %s is %s on the Encode side and %s on the Decode side (must both be %s)' % (p, enc.get(p), dec.get(p), p.upper()), '-')


def check_panics(out, facts, S):
    """R01.4 (explicit panics; arithmetic asserts are handled with the MIR interval engine)"""
    cfg = facts.cfg
    n = 0
    for i in facts.impls_of('Encode'):
        src = S.source_term(i)
        if not src or src[0] == 'none':
            continue
        m, term, fn = src
        for p in paths(term):
            for idx, e in enumerate(p):
                if e[0] != 'PANIC':
                    continue
                n += 1
                key = 'panic site %s in %s [%s]' % (e[1], fkey(fn), cfg)
                if e[1] == 'expect':
                    # Result of compact_encode_len_to: its only Err exit is under len > u32::MAX
                    # decided by evaluating the helper's branch conditions at boundary lengths (any spelling of the check:
                    # `len > u32::MAX`, `u32::try_from(len)` ...): it must fail exactly for len > u32::MAX, in which case the
                    # expect fires only for a count that has no SCALE representation
                    hel = [x for x in sym.walk(term) if shape._is_count_helper(x)]
                    okj = bool(hel)
                    for h in hel:
                        for ln in (0, 5, 2 ** 32 - 1, 2 ** 32, 2 ** 33):
                            evs_, st = trace(h[2], lambda x, ln=ln: ln if (isinstance(x, tuple) and x and x[0] == 'call' and x[1] == 'len') else None)
                            failed = st == 'ERR'
                            if st not in ('OK', 'RET', 'ERR') or failed != (ln > 2 ** 32 - 1):
                                okj = False
                    out.ob('R01.4', key, okj, 'expect on the count prefix can fire for a representable count: the helper rejects something other than len > u32::MAX', e[2])
                elif e[1] in ('panic_fmt', 'panic', 'assert_failed', 'panic_explicit'):
                    arms = [a for a in p[:idx] if a[0] == 'ARM' and isinstance(a[1], tuple) and a[1][0] == 'if']
                    just = None
                    if 'BitSlice' in i['self'] and arms:
                        c = arms[-1][1][1]
                        vals = {}
                        for ln in (0, 1, 0x1fffffff, 0x20000000, 2 ** 40):
                            r = eval_expr(c, lambda x: ln if (isinstance(x, tuple) and x[0] == 'call' and x[1] == 'len') else None)
                            vals[ln] = r
                        taken = arms[-1][2] == 'true'
                        just = all(v is not None and (bool(v) == taken) == (ln > 0x1fffffff) for ln, v in vals.items())
                        out.ob('R01.4', key, bool(just), 'BitSlice assert can fire below 2^29 bits (condition %s)' % sym.vstr(c), e[2])
                    elif 'CompactRef' in i['self']:
                        out.count('compact qed asserts (discharged by the interval engine, C03/C04)')
                    else:
                        out.fail('R01.4', key, 'unaudited panic on an encoding path', e[2])
                else:
                    out.fail('R01.4', key, 'unaudited panic (%s) on an encoding path' % e[1], e[2])
    out.count('explicit panic sites on encoding paths (per path)', n)


def run(cx, out):
    out.rule('R01.1', 'inferred wire shape of every Encode impl equals the SCALE table entry; operands are pure access paths in the specified order')
    out.rule('R01.2', 'only little-endian conversions; bulk reinterpretation guarded by cfg!(target_endian) or one-byte elements')
    out.rule('R01.3', 'TYPE_INFO table: 12 primitives, distinct, same on both sides; bulk arms reinterpret as the named primitive and cover the whole slice')
    out.rule('R01.4', 'explicit panics on encoding paths are the audited ones with re-checked justification')
    for cfg in lib_cfgs(cx):
        facts = cx.facts(cfg)
        unit(out, facts)
        S = check_shapes(out, facts)
        check_endianness(out, facts)
        check_type_info(out, facts)
        check_panics(out, facts, S)
    # derived impls: the derive corpus of C05
    from . import shared
    out.rule('R05.1', 'derived encoders (struct/enum layouts, index bytes) equal the layout declared by the definition (derive corpus of C05)')
    # premises: the derived encoders; "the produced bytes" presupposes that every entry point and every output sink
    # produces the same bytes (C07 R07.1 entry points agree, R07.3 sinks write everything they are given)
    shared.premises(cx, out, {'c05': {'R05.1'}, 'c07': {'R07.1', 'R07.3', 'R07.4'}})
