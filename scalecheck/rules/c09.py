"""C09 — memory requested while decoding is bounded by the input supplied (DESIGN §6 C09)."""
import re
from .common import *
from .. import shape, types as T

LEVEL = 'other'
EXPLANATION = (
    'R09.1 allocation-sink census + taint: every allocation-capable call on a decoding path (with_capacity, '
    'reserve*, resize, vec![x; n], set_len, raw alloc, repeat, split_to, ...; read off the symbolic term of every '
    'decoding function with helpers and closures inlined) has its size argument classified by structure: type-level '
    '(size_of / Layout::new / typenum / const generics / literals only), sanitised (an operand of '
    'min(MAX_PREALLOCATION / size_of::<T>(), .) with MAX_PREALLOCATION <= 16 KiB read from the crate, or current '
    'length + such a chunk right after reserving it, or guarded by a comparison with the bytes actually present), or '
    'tainted (depends on a value decoded from the input or on a count parameter without such a bound). A tainted '
    'sink is a violation. R09.2 no count-sized iterator hints: collections built from a claimed count go through '
    'Result::from_iter over (0..len).map(decode) (lower size hint 0 through the error shunt); collecting an '
    'exact-size iterator derived from a decoded count into anything else is a violation. R09.3 the early rejection on '
    'remaining_len stays a pure rejection (C08 R08.3), so unknown-length inputs take the same chunked path. R09.4 '
    'progress: a count-driven loop that retains one element per iteration must consume input per iteration '
    '(minlen of the element shape >= 1) or the claimed count, not the input, bounds memory; for the generic library '
    'decoders the element is a type parameter, so the rule reports them as conditionally unbounded — genuine defect '
    'D5 (LinkedList<()>, Vec<Box<()>>), recorded as known findings.')
ASSUMPTIONS = ['allocator / growth policy of Vec::push, B-tree nodes, Rc::from(Box) are amortised-linear by std\'s contract',
               'Result::from_iter / GenericShunt reports a lower size hint of 0 (std)', 'the numeric bound itself is not computed']

SIZE_ARG = {'with_capacity': 0, 'reserve': 1, 'reserve_exact': 1, 'try_reserve': 1, 'try_reserve_exact': 1, 'resize': 1, 'resize_with': 1,
            'from_elem': 1, 'repeat': 1, 'alloc': 0, 'alloc_zeroed': 0, 'realloc': 2, 'set_len': 1, 'split_to': 1, 'split_off': 1,
            'new_uninit_slice': 0, 'new_zeroed_slice': 0, 'with_capacity_in': 0}
NOT_SIZED = {'push', 'insert', 'push_back', 'push_front', 'extend_from_slice', 'truncate', 'try_from_vec', 'from_exact_iter', 'extend',
             'collect', 'to_vec', 'into_boxed_slice', 'shrink_to_fit', 'extend_from_within', 'new_uninit'}


def tainted_atoms(v, params_tainted=True):
    """sub-values that come from the input: decoded values, bytes read, count parameters"""
    acc = []

    def pred(x):
        if isinstance(x, tuple) and x:
            if x[0] in ('decoded', 'byte', 'remaining'):
                acc.append(x)
            elif x[0] == 'param' and params_tainted and x[1] not in ('input', 'self', 'dst', 'decoded_vec'):
                acc.append(x)
            elif x[0] == 'mutvar':
                # a mutable local is as tainted as its initialiser
                sub = tainted_atoms(x[3], params_tainted)
                acc.extend(sub)
        return False
    contains(v, pred)
    return acc


def is_sanitised(v, maxp):
    """v == min(C, x) with C a type-level bound <= MAX_PREALLOCATION / size_of (or usize::MAX for ZSTs)"""
    v = strip(v)
    if isinstance(v, tuple) and v[0] == 'mutvar':
        return is_sanitised(v[3], maxp)
    if isinstance(v, tuple) and v[0] == 'call' and v[1] == 'min' and len(v[3]) == 2:
        for a in v[3]:
            a = strip(a)
            if not tainted_atoms(a) and _bounded_chunk(a, maxp):
                return True
    return False


def _bounded_chunk(a, maxp):
    s = sym.vstr(a)
    # MAX_PREALLOCATION.checked_div(size_of::<T>()).unwrap_or(usize::MAX)
    m = re.match(r'^unwrap_or\(checked_div\(MAX_PREALLOCATION=(\d+), size_of\(\)\), MAX=18446744073709551615\)$', s)
    if m:
        return int(m.group(1)) <= 16 * 1024 and int(m.group(1)) == maxp
    m = re.match(r'^\(MAX_PREALLOCATION=(\d+) Div size_of\(\)\)$', s)
    if m:
        return int(m.group(1)) <= 16 * 1024
    if isinstance(a, tuple) and a[0] == 'mutvar':
        return _bounded_chunk(strip(a[3]), maxp)
    if chunk_bound_ok(a, maxp):
        return True
    if isinstance(a, tuple) and a[0] in ('lit', 'const') and isinstance(a[1] if a[0] == 'lit' else a[2], int):
        return (a[1] if a[0] == 'lit' else a[2]) <= 16 * 1024
    return False


def classify(name, args, path_before, maxp, generic=False):
    """-> (class, detail)"""
    idx = SIZE_ARG.get(name)
    if idx is None and generic:
        # an unnamed sized constructor: any argument that depends on the input is taken as its size
        tainted = [i for i, a in enumerate(args) if tainted_atoms(strip(a)) and not is_sanitised(strip(a), maxp)]
        idx = tainted[0] if tainted else 0
    if idx is None or idx >= len(args):
        return 'n/a', ''
    size = strip(args[idx])
    ta = tainted_atoms(size)
    if not ta:
        return 'type-level', sym.vstr(size)[:80]
    if is_sanitised(size, maxp):
        return 'sanitised', sym.vstr(size)[:100]
    if name == 'set_len':
        # len + chunk, right after reserve_exact(chunk) on the same vector
        if isinstance(size, tuple) and size[0] == 'bin' and size[1] == 'Add':
            a, b = strip(size[2]), strip(size[3])
            for x, y in ((a, b), (b, a)):
                if isinstance(x, tuple) and x[0] == 'call' and x[1] == 'len' and is_sanitised(y, maxp):
                    res = [e for e in path_before if e[0] == 'MUTCALL' and e[1] in ('reserve_exact', 'reserve') and sym.vstr(e[3][1]) == sym.vstr(y)
                           and sym.vstr(e[3][0]) == sym.vstr(x[3][0])]
                    if res:
                        return 'within-reserved', sym.vstr(size)[:100]
    if name in ('split_to', 'split_off'):
        # guarded by a comparison with the bytes actually present
        for e in path_before:
            if e[0] == 'ARM' and isinstance(e[1], tuple) and e[1][0] == 'if' and e[2] == 'false':
                c = strip(e[1][1])
                nc = norm_cmp(c)        # `size > len`, however the comparison is spelled
                if nc and nc[0] == 'Gt' and sym.vstr(nc[1]) == sym.vstr(size) and 'len(' in sym.vstr(nc[2]):
                    return 'bounded-by-input', sym.vstr(c)[:100]
    return 'tainted', '%s depends on %s' % (sym.vstr(size)[:80], sym.vstr(ta[0])[:60])


def check_sinks(out, facts):
    cfg = facts.cfg
    maxp = (facts.consts.get('codec::MAX_PREALLOCATION') or {}).get('val')
    out.ob('R09.1', 'MAX_PREALLOCATION <= 16 KiB [%s]' % cfg, isinstance(maxp, int) and 0 < maxp <= 16 * 1024, 'MAX_PREALLOCATION = %s' % maxp, 'src/codec.rs')
    n_sinks = 0
    classes = {}
    input_fns = [g for g in facts.methods('Input') if g['kind'] == 'AssocFn' and g['method'] == 'scale_internal_decode_bytes']
    # the trait's own default bodies decode too (the default zero-copy hook builds a Bytes from a decoded Vec<u8>)
    input_fns += [g for g in facts.fns if g['kind'] == 'AssocFn' and g.get('ctx') == 'trait_default' and tname(g.get('trait') or '') == 'Input' and g.get('thir')]
    for f, kind in decoder_fns(facts) + [(g, 'input') for g in input_fns]:
        if kind == 'input':
            ev = sym.Evaluator(facts)
            ev.extra_inputs.append(('self',))
            ctx = sym.Ctx(ev, f)
            ctx.env[f['params'][0]['v']] = ('self',)
            v, t = ev.ev(f['thir'], ctx)
        else:
            t, v, ev = wire.infer_decoder_fn(facts, f)
        key0 = '%s [%s]' % (fkey(f), cfg)
        if sym.has_opaque(t):
            o = sym.has_opaque(t)[0]
            out.fail('R09.1', key0 + '/recognised', 'unrecognised construct: ' + o[1], o[2])
            continue
        bad = []
        seen = set()
        for p in paths(t):
            for idx, e in enumerate(p):
                if e[0] not in ('ALLOC', 'MUTCALL'):
                    continue
                name = e[1]
                generic = e[0] == 'ALLOC' and len(e) > 7 and e[7] == 'generic'
                if name not in SIZE_ARG and not generic:
                    continue
                # only heap containers (Vec / String / VecDeque / BitVec / Bytes / raw alloc)
                sig = (name, ', '.join(sym.vstr(a) for a in e[3])[:300])
                cls, detail = classify(name, e[3], p[:idx], maxp, generic)
                if sig in seen:
                    continue
                seen.add(sig)
                n_sinks += 1
                classes[cls] = classes.get(cls, 0) + 1
                if cls == 'tainted':
                    bad.append('%s(%s): size %s' % (name, e[4], detail))
        # R09.2: collecting
        for e in events(t):
            if e[0] == 'COLLECT':
                src = strip(e[2])
                if tainted_atoms(src) and not e[1].startswith('core::result::Result<'):
                    bad.append('an exact-size iterator over a decoded count is collected into %s (size hint = claimed count)' % e[1])
            if e[0] in ('ALLOC', 'MUTCALL') and e[1] in ('collect', 'extend', 'from_iter') and any(tainted_atoms(a) for a in e[3]):
                bad.append('%s over an iterator sized by a decoded count' % e[1])
        out.ob('R09.1', key0, not bad, '; '.join(sorted(set(bad))[:3]), f['loc'], sample={'term': sym.tstr(t)[:200]} if bad else None)
    out.floor('R09.1', 'sized allocation sinks classified [%s]' % cfg, n_sinks, 8)
    out.instances['sink classes [%s]' % cfg] = classes


def minlen_known(w):
    """lower bound of the encoded length of a shape, None if unknown (type parameter)"""
    k = w[0]
    if k == 'eps':
        return 0
    if k in ('byte', 'bytex', 'prim', 'compact', 'seq', 'bitseq'):
        return 1
    if k == 'alt':
        return 1 if all((x[0] == 'cat' and x[1] and x[1][0][0] == 'byte') or x[0] == 'byte' for _, x in w[1]) else None
    if k == 'cat':
        tot = 0
        unknown = False
        for x in w[1]:
            r = minlen_known(x)
            if r is None:
                unknown = True
            else:
                tot += r
        return tot if tot >= 1 else (None if unknown else 0)
    if k == 'rep':
        return None if minlen_known(w[1]) is None else 0
    return None


def check_progress(out, facts):
    cfg = facts.cfg
    S = shape.Shapes(facts)
    n = 0
    for f, kind in decoder_fns(facts):
        t, v, ev = wire.infer_decoder_fn(facts, f)
        own = abstract_helpers(t, {role_name(facts, 'items')} if tname(f['path']) == 'decode_vec_with_len' else {'decode_vec_with_len'})
        for x in sym.walk(own):
            if x[0] != 'star':
                continue
            src = strip(x[1])
            if not (isinstance(src, tuple) and src[0] == 'adt' and src[1].endswith('ops::range::Range')):
                continue
            hi = [vv for i_, vv in src[3] if i_ == 1][0]
            if not tainted_atoms(hi):
                continue
            decs = [e for e in events(x[2]) if e[0] == 'dec' and e[3] == 'decode']
            retains = [e for e in events(x[2]) if e[0] == 'MUTCALL' and e[1] in ('push', 'push_back', 'insert')]
            coll = [e for e in events(own) if e[0] == 'COLLECT']
            if not decs:
                continue
            n += 1
            el = decs[0][1]
            w = S.wire_type(T.parse(el))
            ml = minlen_known(w)
            # maps/sets keyed by a zero-length key collapse to one entry: memory stays bounded
            dedup = any(('BTreeMap' in c[1] or 'BTreeSet' in c[1]) for c in coll)
            key = '%s / element may encode to zero bytes' % stable_fkey(facts, f)
            ok = (ml is not None and ml >= 1) or dedup
            out.ob('R09.4', key, ok,
                   'count-driven loop retains one element of type %s per iteration but an element may consume no input (shape %s): memory is then '
                   'proportional to the claimed count, not to the input' % (el, shape.wshow(w)), f['loc'],
                   sample={'element': el, 'shape': shape.wshow(w), 'minlen': ml, 'dedup': dedup})
    out.floor('R09.4', 'count-driven element loops [%s]' % cfg, n, 4)


def run(cx, out):
    out.rule('R09.1', 'every sized allocation sink on a decoding path is type-level, sanitised by the MAX_PREALLOCATION chunk bound, within a reservation, or bounded by the input present')
    out.rule('R09.2', 'no exact-size collection from a decoded count (only through the Result shunt)')
    out.rule('R09.3', 'remaining_len only rejects (C08 R08.3)')
    out.rule('R09.4', 'count-driven retaining loops consume input per iteration (minlen >= 1) — known finding D5 for the generic library decoders')
    from . import c08
    for cfg in lib_cfgs(cx):
        facts = cx.facts(cfg)
        unit(out, facts)
        check_sinks(out, facts)
        c08.check_remaining_len_taint(out, facts)
        check_progress(out, facts)
    from . import positive
    positive.check(cx, out, 'C09')
