"""C19 — the counting input reports exactly the bytes delivered (DESIGN §6 C19)."""
from .common import *

LEVEL = 'other'
EXPLANATION = (
    'Static shape rules over the typed THIR of `impl Input for CountedInput` in every analysed feature '
    'configuration. R19.1: every write to the counter field is `counter = counter.saturating_add(n)` with n the '
    'length of the buffer just read (converted with a saturating fallback) in `read` or 1 in `read_byte`, and lies on '
    'the success continuation of exactly one forwarded call of the same method on the wrapped input; no write on an '
    'error path, no wrapping arithmetic; `count()` returns the field. R19.2: the other methods forward unchanged '
    '(shared with C08 R08.1). Decides the counting discipline for all byte strings because the rule constrains '
    'every path of the two method bodies; it does not execute them.')
ASSUMPTIONS = ['core: u64::saturating_add, Result::inspect, TryInto<u64> for usize behave as documented',
               'rustc THIR of the pinned nightly represents the source faithfully']


def _counter_sets(t):
    return [e for e in events(t) if e[0] == 'SET']


def _result_test(e):
    """('ok'|'err') when the path event is the edge of a test `r.is_ok()` / `r.is_err()` / `if let Ok(..) = r` / `match r`
    on a Result: the edge on which the forwarded call has failed is an error continuation although no `?` is involved"""
    if e[0] != 'ARM':
        return None
    sc, taken = e[1], e[2]
    if isinstance(sc, tuple) and sc and sc[0] == 'if':
        c = strip(sc[1])
        neg = False
        while isinstance(c, tuple) and c and c[0] == 'un' and c[1] == 'Not':
            c = strip(c[2])
            neg = not neg
        if isinstance(c, tuple) and c and c[0] == 'call' and c[1] in ('is_ok', 'is_err'):
            ok = (c[1] == 'is_ok') == (taken == 'true')
            if neg:
                ok = not ok
            return 'ok' if ok else 'err'
        import re as _re
        if isinstance(c, tuple) and c and c[0] == 'letcond' and isinstance(c[1], str) and \
                _re.match(r'^(Ok|Err)(\((\(\)|_|[a-z_][a-z0-9_]*)\))?$', c[1]):
            # `Ok`, `Ok(())`, `Ok(_)`, `Ok(x)`: the payload pattern cannot fail, so the test is on the variant alone
            ok = c[1].startswith('Ok') == (taken == 'true')
            return 'ok' if ok else 'err'
        return None
    if isinstance(taken, tuple) and len(taken) > 1 and taken[0] == 'pat' and isinstance(taken[1], str):
        if taken[1].startswith('Ok'):
            return 'ok'
        if taken[1].startswith('Err'):
            return 'err'
    return None


def check_counter_method(out, facts, fn, kind):
    key = fkey(fn)
    t, v, ev = input_method_term(facts, fn)
    loc = fn['loc']
    ops = sym.has_opaque(t)
    out.ob('R19.1', key + '/recognised', not ops, 'unrecognised construct in counting method: %s' % (ops[:1],), loc)
    ps = paths(t)
    fwd_kind = {'read': 'read', 'read_byte': 'rb'}[kind]
    n_sets = 0
    ok_all = True
    for p in ps:
        fw = [i for i, e in enumerate(p) if e[0] == fwd_kind]
        sets = [i for i, e in enumerate(p) if e[0] == 'SET' and is_self_field(e[1], 'counter')]
        errs = [i for i, e in enumerate(p) if e[0] in ('?ERR', 'ERR') or _result_test(e) == 'err']
        if len(fw) != 1:
            out.fail('R19.1', key + '/forward-once', 'a path through %s forwards %d times to the wrapped input' % (kind, len(fw)), loc)
            ok_all = False
            continue
        for i in sets:
            n_sets += 1
            e = p[i]
            good_pos = i > fw[0] and not any(j < i for j in errs)
            val = strip(e[2])
            # the new value is min(counter + n, u64::MAX) with n = 1 / into.len(), however it is computed (saturating_add,
            # checked_add with a saturating fallback, conversions of the length with a saturating fallback): by evaluation
            good_val = e[3] is None
            if good_val:
                M64 = 2 ** 64 - 1
                for c_, n_ in ((0, 0), (0, 1), (5, 3), (M64 - 1, 1), (M64 - 1, 2), (M64, 1), (M64, M64), (1, M64), (7, 2 ** 40)):
                    if kind == 'read_byte' and n_ != 1:
                        continue

                    def leafc(x, c_=c_, n_=n_):
                        if is_self_field(x, 'counter'):
                            return c_
                        x = strip(x)
                        if isinstance(x, tuple) and len(x) > 3 and x[0] == 'call' and x[1] == 'len' and x[3] and strip(x[3][0])[:2] == ('param', 'into'):
                            return n_
                        return None
                    try:
                        got = eval_expr(val, leafc)
                    except ArithPanic:
                        got = None
                    if got != min(c_ + n_, M64):
                        good_val = False
                        break
            out.ob('R19.1', key + '/update', good_pos and good_val,
                   'counter update `%s` is not `counter.saturating_add(%s)` on the success continuation of the forwarded call'
                   % (sym.tstr(e), 'into.len()' if kind == 'read' else '1'), loc,
                   sample={'term': sym.tstr(t)})
        # an error path must not update
        if errs and sets and min(sets) > min(errs):
            out.fail('R19.1', key + '/err-path-update', 'counter updated after an error exit', loc)
    # the successful path updates exactly once
    okp = [p for p in ps if not (p and p[-1][0] in ('?ERR', 'ERR')) and not any(_result_test(e) == 'err' for e in p)]
    for p in okp:
        sets = [e for e in p if e[0] == 'SET' and is_self_field(e[1], 'counter')]
        out.ob('R19.1', key + '/once-on-success', len(sets) == 1,
               'successful %s updates the counter %d times (expected once)' % (kind, len(sets)), loc)
    # the method returns the forwarded result
    rv = strip(v)
    want = 'io' if kind == 'read' else 'byte'
    good_ret = isinstance(rv, tuple) and rv[0] == 'res' and isinstance(strip(rv[1]), tuple) and strip(rv[1])[0] == want
    if kind == 'read' and not good_ret:
        # `let r = inner.read(into)?; ..; Ok(r)` / `Ok(())`: the unit payload is the forwarded result once its error was propagated
        propagated = all(any(e[0] == '?OK' for e in p) for p in ps if not (p and p[-1][0] in ('?ERR', 'ERR')))
        good_ret = isinstance(rv, tuple) and rv[0] == 'res' and strip(rv[1]) in (('unit',), ('tuple', [])) and propagated
    out.ob('R19.1', key + '/returns-forwarded', good_ret, 'does not return the wrapped input\'s result unchanged: ' + sym.vstr(v), loc)
    return n_sets


def _only_conversions(v):
    """value built from into.len() only through conversions with a saturating fallback"""
    v = strip(v)
    if not isinstance(v, tuple):
        return False
    if v[0] == 'call' and v[1] == 'len':
        return True
    if v[0] == 'call' and v[1] in ('unwrap_or', 'try_into', 'try_from', 'into', 'from'):
        args = [strip(a) for a in v[3]]
        if v[1] == 'unwrap_or':
            fb = args[1]
            # saturating fallback of the counter's own width
            fb_ok = isinstance(fb, tuple) and fb[0] == 'const' and fb[1].endswith('::MAX') and fb[2] == 2 ** 64 - 1
            return fb_ok and _only_conversions(args[0])
        if v[1] in ('try_into', 'try_from', 'into', 'from'):
            # the conversion target must be able to hold every usize: u64 / u128 / usize
            ga = [g for g in (v[4] or ())]
            wide = {'u64', 'u128', 'usize'}
            tgt = None
            if v[1] in ('try_into', 'into') and len(ga) >= 2:
                tgt = ga[1]
            elif v[1] in ('try_from', 'from') and len(ga) >= 1:
                tgt = ga[0]
            if tgt not in wide:
                return False
        return _only_conversions(args[0])
    if v[0] == 'conv':
        return _only_conversions(v[1])
    if v[0] == 'cast':
        # `as u64` from usize is lossless on every supported target (usize <= 64 bit)
        return v[1] == 'u64' and _only_conversions(v[2])
    return False


def run(cx, out):
    out.rule('R19.1', 'counter written only as counter.saturating_add(n) after a successful forwarded read; n = into.len() (saturating conversion) or 1')
    out.rule('R19.2', 'all other Input methods of CountedInput forward to the wrapped input unchanged')
    from . import c08
    n_methods = 0
    for cfg in lib_cfgs(cx, quick=('D',), thorough=('A', 'B', 'D')):
        facts = cx.facts(cfg)
        unit(out, facts)
        ms = [f for f in facts.methods('Input') if f['kind'] == 'AssocFn' and 'CountedInput' in f['self']]
        byname = {f['method']: f for f in ms}
        out.floor('R19.1', 'CountedInput Input methods [%s]' % cfg, len(ms), 6)
        for kind in ('read', 'read_byte'):
            if kind in byname:
                check_counter_method(out, facts, byname[kind], kind)
                n_methods += 1
            else:
                out.fail('R19.1', 'CountedInput::%s/missing' % kind, 'method not overridden: the default would bypass counting' if kind == 'read_byte' else 'missing', '-')
        # counter is written nowhere else: all SETs of `.counter` in the crate
        writers = set()
        for f in facts.fns:
            if not f.get('thir') or 'CountedInput' not in (f.get('self') or ''):
                continue
            if f['kind'] not in ('AssocFn', 'Closure'):
                continue
            if _writes_field(f['thir'], 'counter', facts):
                nm = f.get('method') or f['path'].split('::')[-1]
                # a private helper of the counting methods (used by nothing else) writes on their behalf: the per-method
                # rules above see its body inlined
                if f['kind'] == 'AssocFn' and not f.get('trait') and f.get('vis') not in ('Public', None):
                    refs_ = referrers(facts).get(f['path'], set())
                    callers = [facts.by_path.get(r) for r in refs_]
                    if callers and all(g is not None and 'CountedInput' in (g.get('self') or '') and
                                       (g.get('method') in ('read', 'read_byte') or (g.get('parent') and facts.by_path.get(g['parent'], {}).get('method') in ('read', 'read_byte')))
                                       for g in callers):
                        continue
                writers.add(nm)
        out.ob('R19.1', 'CountedInput.counter/writers[%s]' % cfg, writers <= {'read', 'read_byte'},
               'the counter is written by %s (only read and read_byte may)' % sorted(writers), '-')
        # new() starts at 0 and count() returns the field
        newf = [f for f in facts.fns if f['kind'] == 'AssocFn' and f['ctx'] == 'inherent_impl' and 'CountedInput' in f['self']]
        for f in newf:
            ev = sym.Evaluator(facts)
            ctx = sym.Ctx(ev, f)
            for p in f['params']:
                if p and p['k'] == 'bind':
                    ctx.env[p['v']] = ('self',) if p['name'] == 'self' else ('param', p['name'], p.get('ty'))
            v, t = ev.ev(f['thir'], ctx)
            v = strip(v)
            if f['method'] == 'count':
                out.ob('R19.1', 'CountedInput::count[%s]' % cfg, is_self_field(v, 'counter'), 'count() returns %s, not the counter field' % sym.vstr(v), f['loc'])
            if f['method'] == 'new':
                okv = isinstance(v, tuple) and v[0] == 'adt' and any(
                    isinstance(strip(fv), tuple) and strip(fv)[0] == 'lit' and strip(fv)[1] == 0 for fi, fv in v[3])
                out.ob('R19.1', 'CountedInput::new[%s]' % cfg, okv, 'new() does not start the counter at 0: %s' % sym.vstr(v), f['loc'])
        # R19.2 forwarding of the remaining methods (C08 R08.1 on this wrapper)
        c08.check_wrapper(out, facts, 'CountedInput', rule='R19.2', own_methods=('read', 'read_byte'))
    out.count('counting methods analysed', n_methods)
    # premise: "failed reads add nothing" compares with what the wrapped input delivered: the provided inputs deliver
    # nothing on a failed read (C14 R14.1 slice, C08 R08.4 IoReader / BytesCursor)
    from . import shared
    # "after a successful decode [the count] equals the encoded length": both entry points of a decoder consume its
    # encoding (the in-place one is C02 R02.5; the rest of that clause is C02 itself and is not repeated here)
    shared.premises(cx, out, {'c14': {'R14.1'}, 'c08': {'R08.4'}, 'c02': {'R02.5'}})


def _writes_field(node, name, facts=None):
    """does the body assign to the field playing role `name` (canonical name, see Facts.canon_field)?"""
    if isinstance(node, dict):
        if node.get('k') in ('assign', 'assignop'):
            l = node['l']
            while isinstance(l, dict) and l.get('k') in ('deref', 'ref'):
                l = l['e']
            if isinstance(l, dict) and l.get('k') == 'field':
                fn_ = l.get('fname')
                if facts is not None:
                    fn_ = facts.canon_field(l.get('lty'), fn_)
                if fn_ == name:
                    return True
        return any(_writes_field(x, name, facts) for x in node.values())
    if isinstance(node, list):
        return any(_writes_field(x, name, facts) for x in node)
    return False
