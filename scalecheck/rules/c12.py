"""C12 — memory-limited decoding has an exact, meaningful threshold (DESIGN §6 C12)."""
import re
from .common import *

LEVEL = 'other'
EXPLANATION = (
    'R12.1 the accumulator: MemTrackingInput::on_before_alloc_mem forwards first, then used_mem = '
    'used_mem.saturating_add(size), then fails iff used_mem >= mem_limit (decided semantically on a small domain); '
    'used_mem is written nowhere else except new() (0); decode_with_mem_limit returns the inner decode unchanged. A '
    'monotone accumulator compared against a fixed limit gives the single threshold U of the statement. R12.2 hook '
    'before allocation: on every path of every decoder of a DecodeWithMemTracking type each allocation sink '
    '(reserve_exact, raw alloc, collecting into a B-tree / list, Bytes::split_to) is preceded by an '
    'on_before_alloc_mem call whose argument is structurally the byte size of that allocation (count x size_of of the '
    'element, layout.size(), the B-tree estimate of the same count and element type). Types whose decoder '
    'allocates without a hook must not carry the marker (GenericArray). R12.3 marker bounds: every type parameter '
    'that the Decode impl decodes is bounded by DecodeWithMemTracking in the marker impl (listed exceptions: '
    'BitStore of BitVec/BitBox, Cow). R12.5 decoders without an allocation sink call no hook. R12.6 B-tree estimate '
    'constants re-read from the crate (B = 6, CAPACITY = 2B-1).')
ASSUMPTIONS = ['numeric value of U and the factor-two accuracy of the B-tree estimate depend on std internals (not decided)',
               'derived impls are covered by C05 (corpus) and the compile witnesses of C17/C12']

SIZED_CTORS = {'with_capacity': 0, 'from_elem': 1, 'repeat': 1, 'new_uninit_slice': 0, 'new_zeroed_slice': 0, 'with_capacity_in': 0}


def _input_dependent(a):
    from .c09 import tainted_atoms
    return bool(tainted_atoms(strip(a)))


def _nocast(v):
    v = strip(v)
    while isinstance(v, tuple) and v and v[0] in ('cast', 'conv') and len(v) > 2:
        v = strip(v[2] if v[0] == 'cast' else v[1])
    return v


ALLOC_MUT = {'reserve_exact', 'reserve', 'resize', 'try_reserve', 'try_reserve_exact', 'extend_from_slice', 'resize_with'}


def check_accumulator(out, facts):
    cfg = facts.cfg
    ms = {f['method']: f for f in facts.methods('Input') if f['kind'] == 'AssocFn' and 'MemTrackingInput' in f['self']}
    f = ms.get('on_before_alloc_mem')
    key = 'MemTrackingInput::on_before_alloc_mem [%s]' % cfg
    if not f:
        out.fail('R12.1', key, 'method not found (anchor missing)', '-')
        return
    t, v, ev = input_method_term(facts, f)
    why = []
    seq = [e for e in events(t) if e[0] in ('HOOK', 'SET', '?', 'ERR', 'MUTCALL', 'PANIC', 'RET')]
    kinds = [e[0] for e in seq]
    if kinds != ['HOOK', '?', 'SET', 'ERR']:
        why.append('event sequence %s is not forward, propagate, accumulate, compare' % kinds)
    else:
        s = seq[2]
        val = strip(s[2])
        # the new value is min(used_mem + size, usize::MAX), however it is computed (saturating_add, checked_add with a
        # saturating fallback, ...): decided by evaluation at small values and at the top of the range
        okv = is_self_field(s[1], 'used_mem') and s[3] in (None, 'AddAssign')
        if okv and s[3] is None:
            M64 = 2 ** 64 - 1
            for old_, size_ in ((0, 0), (0, 5), (7, 0), (3, 4), (M64 - 1, 1), (M64 - 1, 2), (M64, 0), (M64, M64), (1, M64)):
                def leafv(x, old_=old_, size_=size_):
                    if is_self_field(x, 'used_mem'):
                        return old_
                    if strip(x)[:2] == ('param', 'size'):
                        return size_
                    return None
                try:
                    got = eval_expr(val, leafv)
                except ArithPanic:
                    got = None
                if got != min(old_ + size_, M64):
                    okv = False
                    break
        elif okv:
            okv = False     # a plain `+=` would overflow
        if not okv:
            why.append('accumulation is not used_mem = min(used_mem + size, usize::MAX) (saturating): ' + sym.tstr(s))
        alts = [x for x in sym.walk(t) if x[0] == 'alt']
        if len(alts) != 1:
            why.append('expected exactly one limit comparison')
        else:
            def table(interp):
                bad = []
                for old_ in range(0, 3):
                    for size_ in range(0, 3):
                        for lim in range(0, 5):
                            new_ = old_ + size_

                            def leaf(x):
                                if is_self_field(x, 'mem_limit'):
                                    return lim
                                if is_self_field(x, 'used_mem'):
                                    return new_ if interp == 'after' else old_
                                if strip(x)[:2] == ('param', 'size'):
                                    return size_ if interp == 'before' else None
                                return None
                            try:
                                c = eval_expr(alts[0][1][1], leaf)
                            except ArithPanic:
                                c = None
                            if c is None:
                                return ['limit condition is not a comparison of the accumulated usage and mem_limit: ' + sym.vstr(alts[0][1][1])]
                            body = [x for d, x in alts[0][2] if d == ('true' if c else 'false')]
                            fails = bool(body) and any(e[0] == 'ERR' for e in events(body[0]))
                            if fails != (new_ >= lim):
                                bad.append('with used_mem=%d after adding %d and mem_limit=%d the hook %s (must fail iff used_mem >= mem_limit)' % (new_, size_, lim, 'fails' if fails else 'succeeds'))
                return bad
            # the symbolic evaluator does not version mutable fields: the condition may read the field after the update, or
            # recompute the sum from the value before it; either reading must give the exact truth table
            ta, tb = table('after'), table('before')
            if ta and tb:
                why.extend((ta if len(ta) <= len(tb) else tb)[:3])
    out.ob('R12.1', key, not why, '; '.join(sorted(set(why))[:3]), f['loc'], sample={'term': sym.tstr(t)})
    from .c19 import _writes_field
    writers = set()
    for g in facts.fns:
        if g.get('thir') and 'MemTrackingInput' in (g.get('self') or '') and _writes_field(g['thir'], 'used_mem', facts):
            writers.add(g.get('method'))
    out.ob('R12.1', 'MemTrackingInput.used_mem writers [%s]' % cfg, writers <= {'on_before_alloc_mem'},
           'used_mem is also written by %s' % sorted(writers - {'on_before_alloc_mem'}), '-')
    # new() starts at 0, keeps the limit
    for g in facts.fns:
        if g['kind'] == 'AssocFn' and g['ctx'] == 'inherent_impl' and 'MemTrackingInput' in g['self'] and g['method'] == 'new':
            evl = sym.Evaluator(facts)
            ctx = sym.Ctx(evl, g)
            for pi, p in enumerate(g['params']):
                ctx.env[p['v']] = ('param', ['input', 'mem_limit'][pi] if pi < 2 else p['name'], p.get('ty'))
            v, t = sym.fn_value(evl, g, ctx)
            out.ob('R12.1', 'MemTrackingInput::new [%s]' % cfg, sym.vstr(v) == 'MemTrackingInput::MemTrackingInput{0: input, 1: 0:usize, 2: mem_limit}',
                   'new() is not {input, used_mem: 0, mem_limit}: ' + sym.vstr(v), g['loc'])
    fl = [g for g in facts.methods('DecodeWithMemLimit', 'decode_with_mem_limit') if g['kind'] == 'AssocFn']
    if len(fl) != 1:
        out.fail('R12.1', 'decode_with_mem_limit [%s]' % cfg, 'blanket impl not found', '-')
    else:
        g = fl[0]
        t, v, ev = wire.infer_decoder_fn(facts, g, roles={0: ('input',), 1: ('param', 'mem_limit', 'usize')})
        decs = [e for e in events(t) if e[0] == 'dec']
        ok = len(decs) == 1 and decs[0][3] == 'wrapped_input' and [e[0] for e in events(t)] == ['dec']
        if ok:
            a = sym.vstr(decs[0][4])
            ok = a == 'MemTrackingInput::MemTrackingInput{0: input, 1: 0:usize, 2: mem_limit}' and sym.vstr(v) == 'Ok(decoded#%s:%s)' % (decs[0][2], decs[0][1])
        out.ob('R12.1', 'decode_with_mem_limit [%s]' % cfg, ok, 'not T::decode(&mut MemTrackingInput::new(input, mem_limit)) returned unchanged: %s -> %s' % (sym.tstr(t), sym.vstr(v)), g['loc'])


def _is_mul_of(v, count_s, elem_ty=None):
    """v == count * size_of::<elem>() (saturating / checked / plain), structurally"""
    v = strip(v)
    if not isinstance(v, tuple):
        return False
    # `a.checked_mul(b).unwrap_or(usize::MAX)` is the saturating product
    if v[0] == 'call' and v[1] == 'unwrap_or' and len(v[3]) == 2 and isinstance(strip(v[3][0]), tuple) and strip(v[3][0])[0] == 'call' and \
            strip(v[3][0])[1] == 'checked_mul' and sym.vstr(strip(v[3][1])).startswith('MAX='):
        v = strip(v[3][0])
    ops = None
    if v[0] == 'call' and v[1] in ('saturating_mul', 'checked_mul', 'wrapping_mul'):
        if v[1] == 'wrapping_mul':
            return False
        ops = [strip(a) for a in v[3]]
    elif v[0] == 'bin' and v[1] == 'Mul':
        ops = [strip(v[2]), strip(v[3])]
    if not ops or len(ops) != 2:
        return False
    for a, b in (ops, ops[::-1]):
        if sym.vstr(a) == count_s and isinstance(b, tuple) and b[0] == 'call' and b[1] == 'size_of':
            if elem_ty is None or (b[4] and b[4][0] == elem_ty):
                return True
    return False


def check_hooks(out, facts):
    """R12.2 / R12.5 over all decoders"""
    cfg = facts.cfg
    markers = {i['self'] for i in facts.impls_of('DecodeWithMemTracking')}
    n_sinks = 0
    for f, kind in decoder_fns(facts):
        key = '%s [%s]' % (fkey(f), cfg)
        t, v, ev = wire.infer_decoder_fn(facts, f)
        if sym.has_opaque(t):
            out.fail('R12.2', key + '/recognised', 'unrecognised construct: ' + sym.has_opaque(t)[0][1], sym.has_opaque(t)[0][2])
            continue
        ta = abstract_helpers(t, {'decode_vec_with_len'}) if fkey(f) not in ('codec::decode_vec_with_len',) else t
        bad = []
        sinks_here = 0
        hooks_here = 0
        for p in paths(ta):
            last_hook = None
            reserved = []       # sizes of the sized reservations seen so far on this path
            loop_bounds = []    # bounds of the count-driven loops we are inside of
            for i, e in enumerate(p):
                if e[0] == 'LOOP1':
                    src = strip(e[1])
                    hi = None
                    if isinstance(src, tuple) and src[0] == 'adt' and src[1].endswith('ops::range::Range'):
                        hi = [vv for i_, vv in src[3] if i_ == 1][0]
                    loop_bounds.append(hi)
                elif e[0] == 'LOOPEND' and loop_bounds:
                    loop_bounds.pop()
                if e[0] in ('MUTCALL', 'ALLOC') and e[1] in ('reserve_exact', 'reserve', 'with_capacity', 'try_reserve', 'try_reserve_exact'):
                    idx = 1 if e[0] == 'MUTCALL' else 0
                    if idx < len(e[3]):
                        reserved.append(sym.vstr(_nocast(e[3][idx])))
                if e[0] == 'MUTCALL' and e[1] in ('push', 'push_back', 'push_front') and loop_bounds and loop_bounds[-1] is not None:
                    recv = sym.vstr(e[3][0])
                    bound = loop_bounds[-1]
                    if (recv.startswith('mut ') or recv.startswith('sink')) and _input_dependent(bound):
                        b = sym.vstr(_nocast(bound))
                        if b not in reserved:
                            bad.append('a loop pushes %s elements into %s but only %s were reserved and announced: growth beyond the reservation is not tracked' % (
                                b, recv, reserved or 'nothing'))
                if e[0] == 'HOOK':
                    last_hook = e
                    hooks_here += 1
                elif e[0] == 'MUTCALL' and e[1] in ALLOC_MUT and 'vec::Vec' in e[2]:
                    sinks_here += 1
                    n = sym.vstr(e[3][1])
                    el = _vec_elem(e)
                    if last_hook is None or not _is_mul_of(last_hook[1], n, None):
                        bad.append('%s(%s) is not preceded by on_before_alloc_mem(%s * size_of::<elem>())' % (e[1], n, n))
                    last_hook = None
                elif e[0] == 'COLLECT':
                    sinks_here += 1
                    ty = e[1]
                    rng = strip(e[2])
                    cnt = None
                    if isinstance(rng, tuple) and rng[0] == 'adt' and rng[1].endswith('Range'):
                        cnt = [x for i_, x in rng[3] if i_ == 1][0]
                    if last_hook is None or cnt is None:
                        bad.append('collect into %s is not preceded by on_before_alloc_mem' % ty)
                    else:
                        h = strip(last_hook[1])
                        cs = sym.vstr(cnt)
                        m = re.search(r'(BTreeMap|BTreeSet|LinkedList)<(.*)>, error::Error>$', ty)
                        okh = False
                        if m and m.group(1) in ('BTreeMap', 'BTreeSet'):
                            want_ty = '(%s)' % m.group(2) if m.group(1) == 'BTreeMap' else m.group(2)
                            okh = isinstance(h, tuple) and h[0] == 'call' and h[1] == 'mem_size_of_btree' and sym.vstr(h[3][0]) == cs and h[4] and h[4][0] == want_ty
                        elif m:
                            okh = _is_mul_of(h, '(%s as usize)' % cs, '(usize, usize, %s)' % m.group(2))
                        if not okh:
                            bad.append('hook argument %s is not the size estimate of collecting %s elements into %s' % (sym.vstr(h), cs, ty))
                    last_hook = None
                elif e[0] == 'ALLOC' and (e[1] in SIZED_CTORS or (len(e) > 7 and e[7] == 'generic')):
                    # a sized constructor (with_capacity, vec![x; n], zeroed(n), ...): n elements of the container's
                    # element type must have been announced as n * size_of::<elem>() (n itself for byte containers)
                    idx = SIZED_CTORS.get(e[1], None)
                    args = e[3]
                    if idx is None:
                        ints = [k for k, a in enumerate(args) if _input_dependent(a)]
                        idx = ints[0] if ints else None
                    if idx is not None and idx < len(args) and _input_dependent(args[idx]):
                        sinks_here += 1
                        n = sym.vstr(args[idx])
                        byte_container = any(b in (e[2] or '') for b in ('BytesMut', 'bytes::Bytes', 'String'))
                        okh = last_hook is not None and (_is_mul_of(last_hook[1], n, None) or (byte_container and sym.vstr(last_hook[1]) == n))
                        if not okh:
                            bad.append('%s(%s) is not preceded by on_before_alloc_mem(%s%s)' % (e[1], n, n, '' if byte_container else ' * size_of::<elem>()'))
                        last_hook = None
                elif e[0] == 'MUTCALL' and e[1] == 'split_to':
                    sinks_here += 1
                    if last_hook is None or sym.vstr(last_hook[1]) != sym.vstr(e[3][1]):
                        bad.append('split_to(%s) is not preceded by on_before_alloc_mem of the same length' % sym.vstr(e[3][1]))
                    last_hook = None
        # raw allocation (Box): the value contains alloc(layout); the hook must announce layout.size()
        raw = []
        contains(v, lambda x: (raw.append(x) or False) if (isinstance(x, tuple) and len(x) > 3 and x[0] == 'call' and x[1] == 'alloc' and 'alloc::alloc' in x[2]) else False)
        for a in raw:
            sinks_here += 1
            lay = sym.vstr(a[3][0])
            hooks = [e for e in events(t) if e[0] == 'HOOK']
            okh = any(sym.vstr(h[1]) == 'size(%s)' % lay for h in hooks)
            # and it comes before decode_into on every path (HOOK then dec)
            if not okh:
                bad.append('raw alloc(%s) without on_before_alloc_mem(%s.size())' % (lay, lay))
        n_sinks += sinks_here
        if sinks_here:
            tracked = _self_is_marker(f, markers)
            if tracked is False:
                continue        # not a memory-tracking type: outside the property
            out.ob('R12.2', key, not bad, '; '.join(sorted(set(bad))[:3]), f['loc'], sample={'term': sym.tstr(ta)[:260]})
        else:
            # R12.5: no sink, no hook
            if kind == 'method':
                out.ob('R12.5', key, hooks_here == 0, 'decoder without an allocation announces memory (U would be positive for a value holding no heap data)', f['loc'])
    out.floor('R12.2', 'allocation sinks on decoding paths [%s]' % cfg, n_sinks, 8)
    # a type whose decoder allocates without a hook must not be a marker
    for f, kind in decoder_fns(facts):
        if kind != 'method' or f['ctx'] != 'trait_impl':
            continue
        thir_s = None
        if f['self'] in markers:
            continue
    ga = [i for i in facts.impls_of('DecodeWithMemTracking') if 'GenericArray' in i['self']]
    out.ob('R12.2', 'GenericArray is not DecodeWithMemTracking [%s]' % cfg, not ga,
           'GenericArray allocates a temporary vector without a hook and must not carry the marker', ga[0]['loc'] if ga else '-')


def _vec_elem(e):
    return None


def _self_is_marker(f, markers):
    if f['ctx'] != 'trait_impl':
        return None
    return f['self'] in markers


EXCEPT_BOUNDS = {
    ('bitvec::vec::BitVec<T, O>', 'T'): 'T: BitStore — the store types are the primitive integers, all of which are markers; the decoder goes through the bulk vector path',
    ('bitvec::boxed::BitBox<T, O>', 'T'): 'same as BitVec',
}


def check_marker_bounds(out, facts):
    cfg = facts.cfg
    def nolt(x):
        return re.sub(r"'\w+", "'_", x)     # impl headers name their lifetimes independently
    dec_impls = {}
    for i in facts.impls_of('Decode'):
        dec_impls[nolt(i['self'])] = i
    wrapped = {nolt(i['self']): i for i in facts.impls_of('WrapperTypeDecode')}
    n = 0
    unmatched = []
    for m in facts.impls_of('DecodeWithMemTracking'):
        n += 1
        s = nolt(m['self'])
        if s not in dec_impls and s not in wrapped:
            unmatched.append(m['self'])
        key = 'impl DecodeWithMemTracking for %s [%s]' % (s, cfg)
        have = {(tp['self'], tname(tp['trait'])) for tp in m['tpreds']}
        need = []
        if s in dec_impls:
            for tp in dec_impls[s]['tpreds']:
                if tname(tp['trait']) == 'Decode' and tp['self'] != s:
                    need.append(tp['self'])
        elif s in wrapped:
            for it in wrapped[s]['items']:
                if it['name'] == 'Wrapped':
                    need.append(it['value'])
        elif s.startswith('('):
            # tuples (generated with their own parameter names): every element is decoded
            need = [g['name'] for g in m.get('generics', []) if g.get('kind') == 'type']
        else:
            out.fail('R12.3', key + '/decoder', 'no Decode or WrapperTypeDecode impl with this self type was found: the children its decoder decodes are unknown', m['loc'])
            continue
        missing = []
        for x in need:
            if (x, 'DecodeWithMemTracking') in have:
                continue
            # projection of a parameter, bounded through the parameter (Cow<T>: decodes T::Owned)
            mm = re.match(r'^<(\w+) as [^>]+>::\w+$', x)
            if mm and (mm.group(1), 'DecodeWithMemTracking') in have:
                continue
            if (m['self'], x) in EXCEPT_BOUNDS:
                continue
            missing.append(x)
        out.ob('R12.3', key, not missing,
               'decoded child type(s) %s are not required to be DecodeWithMemTracking: an untracked child would allocate behind the limit' % missing,
               m['loc'], sample={'needs': need, 'has': sorted(h[0] for h in have if h[1] == 'DecodeWithMemTracking')})
    want = {'A': 68, 'B': 68, 'C': 68, 'D': 71, 'E': 71}.get(cfg, 68)
    out.floor('R12.3', 'DecodeWithMemTracking impls [%s]' % cfg, n, want)


def check_btree(out, facts):
    cfg = facts.cfg
    # the numbers of the standard library's node layout (B = 6): 2*B - 1 = 11 pairs per node, B - 1 = 5 after a split,
    # 2*B = 12 edges; the estimate is compared with them by evaluation, whatever constants it is written with
    b, cap, mn = 6, 11, 5
    f = facts.by_path.get('btree_utils::mem_size_of_btree')
    if not f:
        out.fail('R12.6', 'mem_size_of_btree [%s]' % cfg, 'function not found', '-')
        return
    evl = sym.Evaluator(facts)
    ctx = sym.Ctx(evl, f)
    ctx.env[f['params'][0]['v']] = ('param', 'len', 'u32')
    v, t = evl.ev(f['thir'], ctx)
    # decided by evaluation, not by spelling: for every element count n and node size, the estimate is 0 for an empty tree,
    # one leaf node while n / ((CAPACITY + MIN_LEN_AFTER_SPLIT) * 2 / 3) is 0, and that many internal nodes (leaf + 2*B
    # edges) otherwise, saturating
    import re as _re
    per_node = (cap + mn) * 2 // 3
    # the node types whose sizes enter the estimate
    tys = []
    contains((v, tuple(e[1] for e in sym.walk(t) if e[0] == 'RET' and len(e) > 1 and isinstance(e[1], tuple))),
             lambda x: (tys.append(str(x[4][0])) or False) if (isinstance(x, tuple) and len(x) > 4 and x[0] == 'call' and x[1] == 'size_of' and x[4]) else False)
    leafs = sorted({y for y in tys if _re.search(r'\bT\b', y)})
    edges_ = sorted({y for y in tys if not _re.search(r'\bT\b', y)})
    out.ob('R12.6', 'btree node types [%s]' % cfg, leafs == ['(usize, u16, u16, [T; %d])' % cap] and edges_ in ([], ['[usize; %d]' % (2 * b)]),
           'node sizes are taken of %s and %s (std: a leaf is (usize, u16, u16, [T; 11]), an internal node adds [usize; 12] — the latter is '
           'also decided numerically below)' % (leafs, edges_), f['loc'])
    why = []
    n_eval = 0
    if sym.has_opaque(t):
        why.append('unrecognised construct: ' + sym.has_opaque(t)[0][1])
    else:
        for L in (24, 1000, 1 << 40):
            for n in (0, 1, per_node - 1, per_node, per_node + 1, 2 * per_node - 1, 2 * per_node, 3 * per_node, 99, 100, 101, 4096, 2 ** 32 - 1):
                edges = []

                def leaf(x, n=n, L=L):
                    x = strip(x)
                    if isinstance(x, tuple) and x[0] == 'param' and x[1] == 'len':
                        return n
                    if isinstance(x, tuple) and x[0] == 'call' and x[1] == 'size_of' and len(x) > 4 and x[4]:
                        ty = str(x[4][0])
                        if _re.search(r'\bT\b', ty):
                            return L
                        m = _re.match(r'^\[usize; (\d+)\]$', ty)
                        if m:
                            return 8 * int(m.group(1))
                    return None
                evs, st = trace(t, leaf)
                n_eval += 1
                if st in ('AMBIG', 'PANIC'):
                    why.append('len = %d: %s' % (n, 'a panic is reachable' if st == 'PANIC' else 'branch conditions cannot be decided'))
                    continue
                rets = [e for e in evs if e[0] == 'RET']
                try:
                    got = eval_expr(rets[0][1], leaf) if rets else eval_expr(v, leaf)
                except ArithPanic:
                    got = None
                E = 8 * 2 * b if isinstance(b, int) else 96
                nodes = n // per_node
                want = 0 if n == 0 else (L if nodes == 0 else min(nodes * (L + E), 2 ** 64 - 1))
                if got != want:
                    why.append('len = %d, node payload %d bytes: estimate %s, expected %d (0 if empty; one leaf while len / %d == 0; else len / %d internal nodes)' % (n, L, got, want, per_node, per_node))
    out.ob('R12.6', 'mem_size_of_btree shape [%s]' % cfg, not why, '; '.join(why[:3]), f['loc'], sample={'evaluations': n_eval, 'value': sym.vstr(v)[:160]})


def run(cx, out):
    out.rule('R12.1', 'accumulator: forward, saturating_add(size), fail iff used_mem >= mem_limit; single writer; entry point transparent')
    out.rule('R12.2', 'every allocation sink on a decoding path is preceded by a hook announcing its byte size')
    out.rule('R12.3', 'marker impls bound every decoded child by DecodeWithMemTracking')
    out.rule('R12.5', 'decoders without an allocation sink call no hook')
    out.rule('R12.6', 'B-tree estimate constants and shape')
    for cfg in lib_cfgs(cx, quick=('D',), thorough=('A', 'B', 'D', 'E')):
        facts = cx.facts(cfg)
        unit(out, facts)
        check_accumulator(out, facts)
        check_hooks(out, facts)
        check_marker_bounds(out, facts)
        check_btree(out, facts)
    # premise: allocation announcements reach the tracker through every provided wrapper (C08 R08.1 forwarding)
    from . import shared
    # premise: the marker is enforced by the type system, also through the representation types of compact / encoded_as
    # fields of derived types (C17 W17.3 compile-fail witnesses with compiling twins)
    # ... and the in-place entry point of a derived decoder decodes what `decode` decodes (C05 R05.5: it exists only for
    # attribute-free transparent structs), so the hooks seen through Box / Rc / Arc / arrays are those of `decode`
    shared.premises(cx, out, {'c08': {'R08.1'}, 'c17': {'W17.3'}, 'c05': {'R05.5'}})
    from . import positive
    positive.check(cx, out, 'C12')
