"""C20 — wire format is identical in every feature configuration (DESIGN §6 C20)."""
import hashlib
import json
import re
from .common import *

LEVEL = 'other'
EXPLANATION = (
    'Differential static analysis over feature configurations (quick: default, no-default, all-optional; thorough: '
    'the five of DESIGN 2.1). R20.1 body identity: for every function / method / closure / associated const that '
    'exists in two configurations (keyed by trait, self type and method, never by position) the normalised typed THIR '
    '(resolved callees and types printed with real def-paths, spans dropped) is identical, except for the audited '
    'configuration-dependent set: the error module (Error representation, chain, Display, From<&str>, '
    'std::error::Error), the two Output sinks (Vec<u8> in no_std vs blanket io::Write in std), From<io::Error>, '
    'IoReader, and the serde impls of Compact<T>. A #[cfg(feature = ..)] or cfg!(feature = ..) anywhere else in '
    'codec code changes a body or makes an item appear/disappear and is reported with its key. R20.2 optional '
    'features only add: enabling bit-vec / bytes / generic-array / max-encoded-len / derive / serde adds impls and '
    'functions of the audited optional families and changes no existing body. R20.3 decoders never inspect an Error '
    '(no field access, comparison or match on codec::Error outside the error module), so only descriptions can differ. '
    'The same impl tables (trait, self type, overridden items) must exist in all configurations modulo the audited set.')
ASSUMPTIONS = ['effects of the std features forwarded to dependencies (byte-slice-cast/std, bitvec?/std, serde/std) on those crates\' internals',
               'target-dependent cfgs (target_endian, target_has_atomic) are outside the property']

STD_ONLY = [r'codec::IoReader', r'core::convert::From<std::io::error::Error>', r'^<W as Output>', r'^<alloc::vec::Vec<u8> as Output>',
            r'^impl codec::Output for W$', r'^impl codec::Output for alloc::vec::Vec<u8>$',
            r'^<compact::Compact<T> as (Des|S)erialize>', r'serde::', r'^error::', r'error::Error', r'std::error::Error', r'core::error::Error', r'core::fmt::Display']
OPTIONAL = [r'bitvec::', r'bit_vec::', r'generic_array::', r'bytes::', r'BytesCursor', r'decode_from_bytes', r'scale_internal_decode_bytes',
            r'MaxEncodedLen', r'ConstEncodedLen', r'max_encoded_len::', r'const_encoded_len::', r'serde::', r'feature_wrapper_bytes']


def norm_thir(n):
    if isinstance(n, dict):
        return {k: norm_thir(v) for k, v in n.items() if k not in ('loc', 'root_loc', 'floc')}
    if isinstance(n, list):
        return [norm_thir(x) for x in n]
    return n


def body_hash(f):
    d = {'thir': norm_thir(f.get('thir')), 'params': norm_thir(f.get('params')), 'inputs': f.get('inputs'), 'output': f.get('output'),
         'preds': f.get('preds'), 'unsafe_fn': f.get('unsafe_fn')}
    return hashlib.sha256(json.dumps(d, sort_keys=True).encode()).hexdigest()[:16]


def table(facts):
    t = {}
    for f in facts.fns:
        if not f.get('thir'):
            continue
        k = fkey(f) + ('' if f['kind'] not in ('AssocConst', 'Const') else ' (const)')
        n = 2
        k0 = k
        while k in t:
            k = '%s #%d' % (k0, n)
            n += 1
        t[k] = (body_hash(f), f['loc'])
    return t


def impl_table(facts):
    t = {}
    for i in facts.impls:
        k = 'impl %s%s for %s' % (i['trait'] or '(inherent)', ('<%s>' % ', '.join(i['trait_args'])) if i['trait_args'] else '', i['self'])
        t.setdefault(k, []).append((sorted((it['name'], it['kind']) for it in i['items']), sorted(i['preds'])))
    return t


def matches(k, pats):
    return any(re.search(p, k) for p in pats)


def compare(out, fa, fb, rule, allowed_diff, allowed_only_a, allowed_only_b, label):
    ta, tb = table(fa), table(fb)
    n = 0
    for k in sorted(set(ta) | set(tb)):
        if k in ta and k in tb:
            n += 1
            same = ta[k][0] == tb[k][0]
            out.ob(rule, '%s: body of %s' % (label, k), same or matches(k, allowed_diff),
                   'body differs between configurations %s and %s outside the audited configuration-dependent set' % (fa.cfg, fb.cfg), ta[k][1])
        elif k in ta:
            out.ob(rule, '%s: only in %s: %s' % (label, fa.cfg, k), matches(k, allowed_only_a),
                   'item exists only in configuration %s' % fa.cfg, ta[k][1])
        else:
            out.ob(rule, '%s: only in %s: %s' % (label, fb.cfg, k), matches(k, allowed_only_b),
                   'item exists only in configuration %s' % fb.cfg, tb[k][1])
    ia, ib = impl_table(fa), impl_table(fb)
    for k in sorted(set(ia) | set(ib)):
        if k in ia and k in ib:
            out.ob(rule, '%s: impl items of %s' % (label, k), ia[k] == ib[k] or matches(k, allowed_diff),
                   'overridden items or bounds of the impl differ between configurations', '-')
        elif k in ia:
            out.ob(rule, '%s: impl only in %s: %s' % (label, fa.cfg, k), matches(k, allowed_only_a), 'impl exists only in configuration %s' % fa.cfg, '-')
        else:
            out.ob(rule, '%s: impl only in %s: %s' % (label, fb.cfg, k), matches(k, allowed_only_b), 'impl exists only in configuration %s' % fb.cfg, '-')
    return n


def check_error_opaque(out, facts):
    cfg = facts.cfg
    from .c08 import _walk_thir
    bad = 0
    n = 0
    for f in facts.fns:
        if not f.get('thir') or f['loc'].startswith('src/error.rs'):
            continue
        for node, parents in _walk_thir(f['thir'], [], f):
            k = node.get('k')
            if k == 'field' and 'error::Error' in (node.get('lty') or '') and not (node.get('lty') or '').startswith('core::result::Result'):
                out.fail('R20.3', 'field access on Error in %s [%s]' % (fkey(f), cfg), 'codec code inspects an Error value', node.get('loc', f['loc']))
                bad += 1
            if k == 'match' and node.get('src') == 'Normal':
                st = (node.get('scrut') or {}).get('ty') or ''
                if st in ('error::Error', '&error::Error'):
                    out.fail('R20.3', 'match on Error in %s [%s]' % (fkey(f), cfg), 'codec code matches on an Error value', node.get('loc', f['loc']))
                    bad += 1
            if k == 'call' and (node.get('f') or '').startswith('error::Error::') and node['name'] not in ('chain',):
                out.fail('R20.3', 'call of Error::%s in %s [%s]' % (node['name'], fkey(f), cfg), 'codec code inspects an Error value', node.get('loc', f['loc']))
                bad += 1
            if k == 'bin' and node.get('op') in ('Eq', 'Ne'):
                lt = (node.get('l') or {}).get('ty') or ''
                if 'error::Error' in lt:
                    out.fail('R20.3', 'comparison of Errors in %s [%s]' % (fkey(f), cfg), 'codec code compares Error values (directly or inside a Result): '
                             'without chain-error every Error is equal to every other', node.get('loc', f['loc']))
                    bad += 1
            if k == 'call' and node.get('name') in ('eq', 'ne', 'partial_cmp', 'cmp', 'hash') and any('error::Error' in (a.get('ty') or '') for a in (node.get('args') or []) if isinstance(a, dict)):
                out.fail('R20.3', 'comparison of Errors in %s [%s]' % (fkey(f), cfg), 'codec code compares Error values through %s' % node.get('name'), node.get('loc', f['loc']))
                bad += 1
            n += 1
    out.ob('R20.3', 'no inspection of Error values outside the error module [%s]' % cfg, bad == 0, '%d site(s)' % bad, '-')
    out.count('THIR nodes scanned for Error inspection', n)


def run(cx, out):
    out.rule('R20.1', 'bodies present in two configurations are identical except for the audited configuration-dependent set')
    out.rule('R20.2', 'optional features only add items of the audited optional families')
    out.rule('R20.3', 'no code outside the error module inspects an Error value')
    cfgs = lib_cfgs(cx, quick=('A', 'B', 'D', 'E'), thorough=('A', 'B', 'C', 'D', 'E'))
    F = {c: cx.facts(c) for c in cfgs}
    for c in cfgs:
        unit(out, F[c])
    n = 0
    # std vs no_std (chain-error is implied by std, so A vs B also toggles it)
    n += compare(out, F['A'], F['B'], 'R20.1', STD_ONLY, STD_ONLY, STD_ONLY, 'A~B')
    n += compare(out, F['A'], F['D'], 'R20.2', [], [], OPTIONAL, 'A~D')
    if 'C' in F:
        n += compare(out, F['B'], F['C'], 'R20.1', [r'^error::', r'error::Error'], [r'^error::', r'error::Error'], [r'^error::', r'error::Error'], 'B~C')
    if 'E' in F:
        n += compare(out, F['B'], F['E'], 'R20.2', [], [], OPTIONAL, 'B~E')
        n += compare(out, F['D'], F['E'], 'R20.1', STD_ONLY, STD_ONLY + OPTIONAL, STD_ONLY, 'D~E')
    out.floor('R20.1', 'bodies compared across configurations', n, 900)
    for c in cfgs:
        check_error_opaque(out, F[c])
    # the audited configuration-dependent items may differ in spelling, not in effect: the Output sink of each configuration
    # (Vec<u8> without std, the blanket io::Write impl with it) appends exactly the bytes it is given (rule of C07)
    from . import c07
    out.rule('R07.3', 'Output impls append all given bytes; push_byte == write(&[b]) (rule of C07: the two configuration-dependent sinks have the same effect)')
    for c in cfgs:
        unit(out, F[c])
        c07.check_sinks(out, F[c])
    # likewise the std-only input (IoReader) must behave like every other Input implementation (C08: forwarding, overrides
    # equivalent to the defaults, a read that cannot be filled completely fails)
    from . import shared
    shared.premises(cx, out, {'c08': {'R08.1', 'R08.2', 'R08.4'}})
