"""R03.3 — panic-site census over the MIR of every function on a decoding path.

Sites: every `Assert` terminator (overflow, bounds, division, pointer checks) and every call of a panic-capable external
function (panicdocs: documented `# Panics`, or a panicking entry point) in a non-cleanup block of a function reachable
from the decoding entry points.  Each site must be discharged by one of the rules below; a site no rule discharges is a
violation.  The rules are generic predicates over the MIR (expressions through single definitions, dominating branch
facts with kill checks, intervals); the only per-function knowledge is the short AUDITED table, each row of which is
a (function role, site signature) with the invariant it relies on, and DELEGATED families that other rules own."""
import re

from .common import *
from .. import mirx, panicdocs
from ..mirx import strip_at, show

ENTRY_TRAITS = {'Decode', 'Input', 'DecodeAll', 'DecodeLimit', 'DecodeLength', 'DecodeWithMemLimit', 'WrapperTypeDecode',
                'DecodeFinished', 'DecodeWithMemTracking'}

# growth-by-one / node allocation: can only fail by exhausting memory (allocation failure is outside the claim); the
# *sized* requests (with_capacity, reserve*, resize, vec![x; n]) are C09 R09.1's obligations and are evaluated there
ALLOC_GROW = {'push', 'push_back', 'push_front', 'insert', 'extend', 'extend_from_slice', 'collect', 'from_iter', 'into_boxed_slice',
              'to_vec', 'to_owned', 'into', 'from', 'new', 'clone', 'push_str', 'append', 'entry', 'or_insert'}
ALLOC_SIZED = {'with_capacity', 'reserve', 'reserve_exact', 'try_reserve', 'resize', 'resize_with', 'from_elem', 'with_capacity_in'}


def _norm(n):
    if n and n.startswith('parity_scale_codec::'):
        return n[len('parity_scale_codec::'):]
    return n


def reachable(facts, extra_roots=()):
    by = facts.by_path
    seen = {}
    work = []
    for f in facts.fns:
        if not f.get('mir'):
            continue
        tr = f.get('trait')
        if tr and tname(tr) in ENTRY_TRAITS:
            seen[f['path']] = None
            work.append(f['path'])
        elif f['kind'] == 'Fn' and not tr and any(p.endswith(': codec::Input') or p.endswith(': Input') for p in f.get('preds', [])):
            seen[f['path']] = None
            work.append(f['path'])
    for p in extra_roots:
        if p in by and p not in seen:
            seen[p] = None
            work.append(p)
    while work:
        p = work.pop()
        f = by.get(p)
        if not f or not f.get('mir'):
            continue
        for b in f['mir']['blocks']:
            if b['cleanup']:
                continue
            t = b['term']
            if t['k'] == 'call' and 'f' in t['fn']:
                c = t['fn']
                for tgt in (_norm(c.get('resolved')), _norm(c['f'])):
                    if tgt in by:
                        if tgt not in seen:
                            seen[tgt] = p
                            work.append(tgt)
                        break
            for s in b['stmts']:
                # fn items / closures mentioned as values (callbacks)
                if s['k'] == 'assign':
                    for tgt in _mentioned_fns(s['r']):
                        tgt = _norm(tgt)
                        if tgt in by and tgt not in seen:
                            seen[tgt] = p
                            work.append(tgt)
            if t['k'] == 'call':
                for a in t['args']:
                    c = a.get('const')
                    if c and 'fn' in c:
                        tgt = _norm(c['fn'].get('resolved') or c['fn']['f'])
                        if tgt in by and tgt not in seen:
                            seen[tgt] = p
                            work.append(tgt)
        for g in facts.closures_of(f):
            if g['path'] not in seen:
                seen[g['path']] = p
                work.append(g['path'])
    return seen


def _mentioned_fns(r):
    out = []
    if r['k'] == 'use' and 'const' in r['o'] and 'fn' in r['o']['const']:
        out.append(r['o']['const']['fn'].get('resolved') or r['o']['const']['fn']['f'])
    if r['k'] == 'agg' and r['ak'] == 'closure':
        out.append(r['x'])
    if r['k'] == 'cast' and 'const' in r['o'] and 'fn' in r['o']['const']:
        out.append(r['o']['const']['fn'].get('resolved') or r['o']['const']['fn']['f'])
    return out


class Site:
    def __init__(self, fn, body, bi, kind, op, exprs, pts, loc, callee=None, doc=None, term=None):
        self.fn = fn
        self.body = body
        self.bi = bi
        self.kind = kind
        self.op = op
        self.exprs = exprs
        self.pts = pts
        self.loc = loc
        self.callee = callee
        self.doc = doc
        self.term = term

    def sig(self):
        what = self.kind if not self.op else '%s %s' % (self.kind, self.op)
        if self.callee:
            what = 'call ' + re.sub(r'<[^<>]*>', '', self.callee)
        return '%s(%s)' % (what, ', '.join(show(strip_at(e)) for e in self.exprs))


def callee_name(c):
    return _norm(c.get('resolved') or c['f'])


def trait_method_path(c):
    """for an impl method of an external trait: the trait's own method path (its documentation states the contract)"""
    if c.get('trait'):
        return '%s::%s' % (c['trait'], c['name'])
    return None


def classify_callee(c, repo_root):
    n = callee_name(c)
    if n.startswith('<'):
        # unresolved qualified call `<X as Trait>::m`: the trait's documentation decides
        tp = trait_method_path(c)
        if tp:
            return panicdocs.classify(tp, repo_root)
        return ('unknown', 'qualified path without a trait')
    r = panicdocs.classify(n, repo_root)
    if r[0] != 'panics':
        tp = trait_method_path(c)
        if tp and tp != n:
            r2 = panicdocs.classify(tp, repo_root)
            if r2[0] == 'panics':
                return r2
    return r


def sites_of(facts, f, repo_root):
    body = mirx.Body(f)
    out = []
    for bi, b in enumerate(body.blocks):
        if b['cleanup']:
            continue
        t = b['term']
        if t['k'] == 'assert':
            exprs, pts = [], set()
            for o in t['ops']:
                e, (p, rd) = body.expr_at(o, bi)
                exprs.append(e)
                pts |= rd
            st = Site(f, body, bi, t['msg'], t.get('op'), exprs, pts, t['loc'], term=t)
            st.tys = [body.operand_ty(o) for o in t['ops']]
            st.cond, (p, rd) = body.expr_at(t['cond'], bi)
            st.pts |= rd
            st.expected = t['expected']
            out.append(st)
        elif t['k'] == 'call' and 'f' in t['fn']:
            c = t['fn']
            if c['local'] or c.get('resolved_local') or c.get('crate') == 'parity_scale_codec':
                continue        # the crate's own functions are census units themselves
            n = callee_name(c)
            if n in facts.by_path:
                continue
            # calls on user-supplied types through traits (generic parameter receivers) are outside the claim
            if c.get('trait') and not c.get('resolved') and _generic_receiver(c):
                continue
            cl = classify_callee(c, repo_root)
            if cl[0] == 'total':
                continue
            exprs, pts = [], set()
            for o in t['args']:
                e, (p, rd) = body.expr_at(o, bi)
                exprs.append(e)
                pts |= rd
            st = Site(f, body, bi, 'call' if cl[0] == 'panics' else 'call-unknown', None, exprs, pts, t['loc'], callee=n, doc=cl[1], term=t)
            st.tys = list(t.get('aty') or [])
            out.append(st)
    return out


def _generic_receiver(c):
    ga = c.get('ga') or []
    return bool(ga) and bool(re.match(r'^[A-Z][A-Za-z0-9_]*$', ga[0]))


# ------------------------------------------------------------------------------------------ facts
def fold(e):
    """constant value of an expression, or None"""
    if not isinstance(e, tuple) or not e:
        return None
    k = e[0]
    if k == 'c':
        return e[1]
    if k == 'cast':
        v = fold(e[2])
        if v is None:
            return None
        r = mirx.ty_range(e[1])
        if r and r[0] <= v <= r[1]:
            return v
        if r and e[1] in mirx.INT_BITS and e[1].startswith('u'):
            return v & r[1]
        return None
    if k == 'bin':
        a, b = fold(e[2]), fold(e[3])
        if a is None or b is None:
            return None
        op = e[1]
        try:
            if op == 'Add':
                return a + b
            if op == 'Sub':
                return a - b
            if op == 'Mul':
                return a * b
            if op == 'Div':
                return a // b if b else None
            if op == 'Rem':
                return a % b if b else None
            if op == 'Shl':
                return a << b if 0 <= b < 256 else None
            if op == 'Shr':
                return a >> b if 0 <= b < 256 else None
            if op == 'BitAnd':
                return a & b
            if op == 'BitOr':
                return a | b
        except Exception:
            return None
    return None


def expr_ty(e):
    if not isinstance(e, tuple) or not e:
        return None
    if e[0] in ('c', 'cs', 'arg', 'mut'):
        return e[2]
    if e[0] == 'cast':
        return e[1]
    if e[0] == 'bin':
        return expr_ty(e[2]) or expr_ty(e[3])
    if e[0] == 'len':
        return 'usize'
    return None


NEG = {'Lt': 'Ge', 'Ge': 'Lt', 'Gt': 'Le', 'Le': 'Gt', 'Eq': 'Ne', 'Ne': 'Eq'}


def relations(body, b):
    """dominating branch facts as relations [(rel, lhs, rhs, pts)], rel in < <= == != nonempty empty"""
    out = []
    dom = body.dom()
    for d in sorted(dom[b]):
        if d == b:
            continue
        t = body.blocks[d]['term']
        if t['k'] != 'switch':
            continue
        e, (_p, pts) = body.expr_at(t['d'], d)
        targets = {}
        for v, s in t['ts']:
            targets.setdefault(s, []).append(v)
        truth = None
        for s, vs in targets.items():
            if s != t['otherwise'] and (s == b or s in dom[b]) and body.pred[s] == [d] and len(vs) == 1:
                truth = ('eq', vs[0])
        o = t['otherwise']
        if truth is None and (o == b or o in dom[b]) and body.pred[o] == [d] and o not in targets:
            truth = ('notin', tuple(sorted(v for v, _ in t['ts'])))
        if truth is None:
            continue
        out.extend([r + (d,) for r in _rels(e, truth, pts)])
    return out


def _rels(e, truth, pts):
    if not isinstance(e, tuple):
        return []
    val = None
    if truth[0] == 'eq':
        val = truth[1]
    elif truth[0] == 'notin' and truth[1] == (0,):
        val = 1
    elif truth[0] == 'notin' and truth[1] == (1,):
        val = 0
    if e[0] == 'un' and e[1] == 'Not' and val in (0, 1):
        return _rels(e[2], ('eq', 1 - val), pts)
    if e[0] == 'bin' and e[1] in NEG and val in (0, 1):
        op = e[1] if val == 1 else NEG[e[1]]
        a, b = e[2], e[3]
        return [{'Lt': ('<', a, b, pts), 'Le': ('<=', a, b, pts), 'Gt': ('<', b, a, pts), 'Ge': ('<=', b, a, pts),
                 'Eq': ('==', a, b, pts), 'Ne': ('!=', a, b, pts)}[op]]
    if e[0] == 'call' and val in (0, 1) and (e[1] or '').endswith('::is_empty') and len(e[2]) == 1:
        return [('nonempty' if val == 0 else 'empty', e[2][0], None, pts)]
    # checked slice access: `s.get(..n)` / `s.get(n..)` is Some exactly when n <= s.len()
    if e[0] == 'discr' and val == 1:
        c = _peel(e[1])
        if isinstance(c, tuple) and c and c[0] == 'call' and re.search(r'core::slice::<impl \[T\]>::get(_mut)?$', c[1] or '') and len(c[2]) == 2:
            rp = _range_parts(c[2][1])
            if rp and rp[0] in ('to', 'from'):
                return [('<=', rp[1], ('len', c[2][0]), pts)]
    out = []
    if truth[0] == 'eq':
        out.append(('==', e, ('c', truth[1], expr_ty(e) or '?'), pts))
    else:
        for v in truth[1]:
            out.append(('!=', e, ('c', v, expr_ty(e) or '?'), pts))
    return out


def same(a, b):
    return strip_at(_peel(a)) == strip_at(_peel(b))


def _peel(e):
    """look through reborrows: &*x == x for the purpose of comparing values"""
    while isinstance(e, tuple) and e and e[0] in ('ref', 'deref') and isinstance(e[1], tuple) and e[1] and e[1][0] in ('ref', 'deref') and e[1][0] != e[0]:
        e = e[1][1]
    if isinstance(e, tuple):
        return tuple(_peel(x) if isinstance(x, tuple) else x for x in e)
    return e


class Ctx:
    def __init__(self, site):
        self.site = site
        self.body = site.body
        self.rels = relations(site.body, site.bi)

    def stable(self, e, pts, d=None, len_only=False):
        """the values read by the guard (pts: its reads) and by the site are still the same at the site, and no
        effectful call whose result the compared expression contains is re-executed between guard and site"""
        if e is not None and d is not None:
            region = self.body.between(d, self.site.bi) | {self.site.bi}
            if mirx.call_points(e) & region:
                return False
        return self.body.reads_stable(set(pts) | set(self.site.pts), self.site.bi, len_only)

    def le(self, a, b, strict=False):
        """a <= b (a < b when strict) is established by a dominating branch on the same, unchanged values"""
        for rel, x, y, pts, gd in self.rels:
            if y is None:
                continue
            if rel == '<' or (rel == '<=' and not strict) or (rel == '==' and not strict):
                if same(x, a) and same(y, b) and self.stable(a, pts, gd) and self.stable(b, pts, gd):
                    return True
                if rel == '==' and same(x, b) and same(y, a) and self.stable(a, pts, gd) and self.stable(b, pts, gd):
                    return True
        return False

    def upper(self, a):
        """constant c with a <= c from a dominating branch, or from the expression itself"""
        best = None
        for rel, x, y, pts, gd in self.rels:
            if y is None or not same(x, a):
                continue
            c = fold(y)
            if c is None or not self.stable(a, pts, gd):
                continue
            if rel == '<':
                c -= 1
            elif rel not in ('<=', '=='):
                continue
            best = c if best is None else min(best, c)
        r = interval(a)
        if r is not None:
            best = r[1] if best is None else min(best, r[1])
        return best

    def bounds(self, e, depth=0):
        """(lo, hi) of an expression: its structure (types, masks, shifts, min, iteration over a Range) refined, at every
        node, by the dominating branch facts about that very node"""
        r = self._bounds0(e, depth)
        lo, hi = r if r else (None, None)
        for rel, x, y, pts, gd in self.rels:
            if y is None:
                continue
            if same(x, e):
                c = fold(y)
                if c is None and rel in ('<', '<=') and depth < 4 and self.stable(e, pts, gd):
                    # x < y with y itself bounded (a loop counter below a bounded count)
                    yb = self.bounds(y, depth + 2)
                    if yb and yb[1] is not None:
                        c = yb[1]
                if c is not None and self.stable(e, pts, gd):
                    if rel == '<':
                        hi = c - 1 if hi is None else min(hi, c - 1)
                    elif rel == '<=':
                        hi = c if hi is None else min(hi, c)
                    elif rel == '==':
                        lo, hi = c, c
                    elif rel == '!=':
                        if lo is not None and c == lo:
                            lo += 1
                        if hi is not None and c == hi:
                            hi -= 1
            if same(y, e):
                c = fold(x)
                if c is not None and self.stable(e, pts, gd):
                    if rel == '<':
                        lo = c + 1 if lo is None else max(lo, c + 1)
                    elif rel == '<=':
                        lo = c if lo is None else max(lo, c)
        if lo is None and hi is None:
            return None
        return (lo, hi)

    def _bounds0(self, e, depth):
        if not isinstance(e, tuple) or not e or depth > 16:
            return None
        e = _peel(e)
        v = fold(e)
        if v is not None:
            return (v, v)
        k = e[0]
        if k in ('arg', 'mut', 'c', 'cs'):
            return mirx.ty_range(e[2])
        if k == 'len':
            return (0, (1 << 63) - 1)
        if k == 'field':
            r = self._range_next(e)
            if r:
                return r
            return mirx.ty_range(e[3]) if len(e) > 3 and e[3] else None
        if k == 'cast':
            r = self.bounds(e[2], depth + 1)
            t = mirx.ty_range(e[1])
            if r and t and r[0] is not None and r[1] is not None and t[0] <= r[0] and r[1] <= t[1]:
                return r
            return t
        if k == 'bin':
            a, b = self.bounds(e[2], depth + 1), self.bounds(e[3], depth + 1)
            op = e[1]
            full = lambda r: r and r[0] is not None and r[1] is not None
            if op == 'Shr' and full(a) and full(b) and a[0] >= 0 and b[0] >= 0:
                return (a[0] >> b[1], a[1] >> b[0])
            if op == 'BitAnd':
                his = [x[1] for x in (a, b) if full(x) and x[0] >= 0]
                if his:
                    return (0, min(his))
            if op == 'Rem' and full(b) and b[0] > 0 and a and a[0] is not None and a[0] >= 0:
                return (0, b[1] - 1)
            if op == 'Add' and full(a) and full(b):
                return (a[0] + b[0], a[1] + b[1])
            if op == 'Mul' and full(a) and full(b) and a[0] >= 0 and b[0] >= 0:
                return (a[0] * b[0], a[1] * b[1])
            if op == 'Sub' and full(a) and full(b):
                return (a[0] - b[1], a[1] - b[0])
            if op == 'Div' and full(a) and full(b) and b[0] > 0 and a[0] >= 0:
                return (a[0] // b[1], a[1] // b[0])
            return None
        if k == 'call':
            nm = (e[1] or '').split('::')[-1]
            if nm == 'min' and len(e[2]) == 2:
                a, b = self.bounds(e[2][0], depth + 1), self.bounds(e[2][1], depth + 1)
                his = [x[1] for x in (a, b) if x and x[1] is not None]
                if his:
                    return (0, min(his))
            if nm == 'from' and len(e[2]) == 1 and 'convert::num' in (e[1] or ''):
                return self.bounds(e[2][0], depth + 1)
            if nm in ('len', 'size_of', 'align_of', 'count', 'to_usize'):
                return (0, (1 << 63) - 1)
            return None
        return None

    def _range_next(self, e):
        """`(Iterator::next(&mut it) as Some).0` where `it` is a local initialised once from `a..b` and otherwise only
        advanced by `next`: the value lies in [a, b-1]"""
        if not (e[0] == 'field' and isinstance(e[1], tuple) and e[1][0] == 'down' and str(e[1][2]) == 'Some'):
            return None
        c = _peel(e[1][1])
        if not (isinstance(c, tuple) and c[0] == 'call' and (c[1] or '').endswith('::next') and 'range' in (c[1] or '') and len(c[2]) == 1):
            return None
        it = c[2][0]
        while isinstance(it, tuple) and it and it[0] in ('ref', 'deref'):
            it = it[1]
        if not (isinstance(it, tuple) and it[0] == 'mut'):
            return None
        body = self.body
        ds = [d for d in body.defs.get(it[1], [])]
        if len(ds) != 1 or ds[0][2] is None:
            return None
        bi, si, r = ds[0]
        if si == 'term':
            src = ('call', (r['fn'].get('resolved') or r['fn'].get('f')), tuple(body.expr_operand(a, 0, (bi, 'term')) for a in r['args']))
        else:
            src = body.expr_rvalue(r, 0, (bi, si))
        for _ in range(3):
            src = _peel(src)
            if isinstance(src, tuple) and src and src[0] == 'call' and (src[1] or '').endswith('into_iter') and len(src[2]) == 1:
                src = src[2][0]
        rp = _range_parts(src)
        if not rp or rp[0] != 'range':
            return None
        # every other use of the iterator local is `&mut it` handed to Iterator::next
        for b2 in body.blocks:
            for st in b2['stmts']:
                if st['k'] == 'assign' and st['r']['k'] in ('ref', 'rawptr') and st['r']['p']['l'] == it[1]:
                    tgt = st['p']['l']
                    for b3 in body.blocks:
                        t3 = b3['term']
                        if t3['k'] == 'call':
                            for a in t3['args']:
                                pl = a.get('copy') or a.get('move')
                                if pl and pl['l'] == tgt and not (t3['fn'].get('f') or '').endswith('Iterator::next'):
                                    return None
        lo = self.bounds(rp[1], 1)
        hi = self.bounds(rp[2], 1)
        if not lo or lo[0] is None or not hi or hi[1] is None:
            return None
        return (lo[0], hi[1] - 1)

    def nonempty(self, s):
        for rel, x, y, pts, gd in self.rels:
            if rel == 'nonempty' and same(x, s) and self.stable(s, pts, gd, len_only=True):
                return True
        return False

    def stable_len(self, pts, gd=None, *exprs):
        for e in exprs:
            if not self.stable(e, pts, gd, len_only=True):
                return False
        return self.body.reads_stable(set(pts) | set(self.site.pts), self.site.bi, len_only=True)


def interval(e, depth=0):
    """[lo, hi] of an expression from its own structure (types, masks, shifts, min)"""
    if not isinstance(e, tuple) or not e or depth > 16:
        return None
    v = fold(e)
    if v is not None:
        return (v, v)
    k = e[0]
    if k in ('arg', 'mut', 'c', 'cs'):
        return mirx.ty_range(e[2])
    if k == 'len':
        return (0, (1 << 63) - 1)
    if k == 'cast':
        r = interval(e[2], depth + 1)
        t = mirx.ty_range(e[1])
        if r and t and t[0] <= r[0] and r[1] <= t[1]:
            return r
        return t
    if k == 'bin':
        a, b = interval(e[2], depth + 1), interval(e[3], depth + 1)
        op = e[1]
        if op == 'Shr' and a and b and b[0] == b[1] and a[0] >= 0:
            return (a[0] >> b[0], a[1] >> b[0])
        if op == 'BitAnd' and ((b and b[0] >= 0) or (a and a[0] >= 0)):
            hi = min([x[1] for x in (a, b) if x and x[0] >= 0])
            return (0, hi)
        if op == 'Rem' and b and b[0] > 0 and a and a[0] >= 0:
            return (0, b[1] - 1)
        if op == 'Add' and a and b:
            return (a[0] + b[0], a[1] + b[1])
        if op == 'Mul' and a and b and a[0] >= 0 and b[0] >= 0:
            return (a[0] * b[0], a[1] * b[1])
        if op == 'Sub' and a and b:
            return (a[0] - b[1], a[1] - b[0])
        if op == 'Div' and a and b and b[0] > 0 and a[0] >= 0:
            return (a[0] // b[1], a[1] // b[0])
        return None
    if k == 'call':
        nm = (e[1] or '').split('::')[-1]
        if nm == 'min' and len(e[2]) == 2:
            a, b = interval(e[2][0], depth + 1), interval(e[2][1], depth + 1)
            his = [x[1] for x in (a, b) if x]
            los = [x[0] for x in (a, b) if x]
            if his:
                return (min(los) if len(los) == 2 else 0, min(his))
        if nm in ('len', 'size_of', 'align_of', 'count', 'to_usize'):
            return (0, (1 << 63) - 1)
        return None
    return None


TYPE_LEVEL_CALLS = ('size_of', 'align_of', 'encoded_fixed_size', 'to_usize', 'needs_drop', 'max_encoded_len', 'size', 'align', 'new')


def type_level(e, depth=0, body=None):
    """built from constants, const generic parameters and type-level queries only (no input byte can influence it);
    with `body`, a re-assigned local counts when every assignment to it is such a value (`if size_of::<T>() > 0 {1} else {0}`)"""
    if not isinstance(e, tuple) or not e or depth > 20:
        return False
    k = e[0]
    tl = lambda x: type_level(x, depth + 1, body)
    if k in ('c', 'cs'):
        return True
    if k in ('bin',):
        return tl(e[2]) and tl(e[3])
    if k in ('un', 'cast'):
        return tl(e[2])
    if k in ('field', 'down', 'ref', 'deref'):
        return tl(e[1])
    if k == 'agg':
        return all(tl(a) for a in e[2])
    if k == 'mut' and body is not None:
        ds = body.defs.get(e[1], [])
        if not ds or e[1] in body.mut_borrowed or e[1] <= body.argc:
            return False
        for bi, si, r in ds:
            if r is None or si == 'term':
                return False
            if not tl(body.expr_rvalue(r, depth + 1, (bi, si))):
                return False
        return True
    if k == 'call':
        nm = (e[1] or '').split('::')[-1]
        if nm in TYPE_LEVEL_CALLS and all(tl(a) for a in e[2]):
            return True
        if nm in ('branch', 'unwrap_or', 'checked_mul', 'checked_div', 'checked_add', 'saturating_mul', 'saturating_add', 'min', 'max') and all(tl(a) for a in e[2]):
            return True
        # integer conversions of type-level values (`usize::from(size_of::<F>() > 0)`)
        if nm in ('from', 'into') and len(e[2]) == 1 and re.search(r'core::convert::(From|Into)', e[1] or '') and tl(e[2][0]):
            return True
        return False
    return False


_PURE_COMBINATORS = ('map', 'and_then', 'map_or', 'map_or_else', 'ok_or', 'ok_or_else', 'unwrap_or', 'unwrap_or_else', 'unwrap_or_default',
                     'branch', 'from_residual', 'from_output', 'filter', 'then', 'then_some', 'zip', 'or', 'or_else', 'is_some', 'is_none',
                     'checked_mul', 'checked_add', 'checked_div', 'saturating_mul', 'saturating_add', 'min', 'max', 'call_once', 'call_mut', 'call')


def closure_of_parameterless_fn(fn):
    """the closure belongs to a function without parameters whose body calls nothing but type-level queries, pure
    Option / Result / integer combinators and its own closures: no input byte exists anywhere in that function, so none
    reaches the closure's parameters either (`T::encoded_fixed_size().map(|size| size * N)`)"""
    facts = _CUR_FACTS[0]
    if facts is None or not fn.get('parent'):
        return False
    pf = facts.by_path.get(fn['parent'])
    if not pf or not pf.get('mir') or (pf.get('inputs') or []):
        return False
    for b in pf['mir'].get('blocks', []):
        t = b.get('term') or {}
        if t.get('k') == 'call':
            c = t.get('fn') or {}
            nm = (c.get('resolved') or c.get('f') or '').split('::')[-1]
            nm = re.sub(r'<.*$', '', nm)
            if nm not in TYPE_LEVEL_CALLS and nm not in _PURE_COMBINATORS:
                return False
    return True


def type_level_guard(site):
    """the site's block is entered only through a branch on a type-level condition (generated `assert_eq!(size_of::<A>(),
    size_of::<B>())` style checks): whether it fires does not depend on the input"""
    body = site.body
    b = site.bi
    seen = set()
    for _ in range(8):
        ps = body.pred[b]
        if len(ps) != 1 or b in seen:
            return False
        seen.add(b)
        d = ps[0]
        t = body.blocks[d]['term']
        if t['k'] == 'switch':
            return type_level(body.expr_operand(t['d']), 0, body)
        if t['k'] not in ('goto', 'call'):
            return False
        if t['k'] == 'call' and not ((t['fn'].get('f') or '').startswith('core::fmt::') or (t['fn'].get('f') or '').startswith('core::panicking::')):
            # only the formatting of the panic message may sit between the branch and the panic
            return False
        b = d
    return False


# ------------------------------------------------------------------------------------------ discharge rules
def _bits_of(e, ty=None):
    t = expr_ty(e)
    return mirx.INT_BITS.get(t) or mirx.INT_BITS.get(ty)


def _range_parts(e):
    """('to', end) ('from', start) ('range', a, b) ('full',) ('incl', a, b) for a Range* aggregate"""
    e = _peel(e)
    if not (isinstance(e, tuple) and e and e[0] == 'agg'):
        return None
    k = str(e[1])
    ops = e[2]
    if k.endswith('RangeTo::RangeTo') and len(ops) == 1:
        return ('to', ops[0])
    if k.endswith('RangeFrom::RangeFrom') and len(ops) == 1:
        return ('from', ops[0])
    if k.endswith('RangeFull::RangeFull'):
        return ('full',)
    if k.endswith('Range::Range') and len(ops) == 2:
        return ('range', ops[0], ops[1])
    return None


def _len_of(cx, s):
    """candidate spellings of the length of slice-like value `s`"""
    s = _peel(s)
    return [('len', s), ('len', ('ref', ('deref', s)))]


def _is_len_of(e, s):
    """`e` is the length of slice-like `s`: PtrMetadata / `len()` of the same value, or the inherent `len()` of the
    container that `s` is the `Deref::deref` of (Vec, String, Bytes: their len is the length of the slice they deref to)"""
    e = _peel(e)
    s = _peel(s)
    if not isinstance(e, tuple) or not e:
        return False
    arg = None
    if e[0] == 'len':
        arg = e[1]
    elif e[0] == 'call' and (e[1] or '').split('::')[-1] == 'len' and len(e[2]) == 1:
        arg = e[2][0]
    if arg is None:
        return False
    if same(arg, s):
        return True
    ss = s
    while isinstance(ss, tuple) and ss and ss[0] in ('ref', 'deref'):
        ss = ss[1]
    if isinstance(ss, tuple) and ss and ss[0] == 'call' and (ss[1] or '').endswith('::deref') and len(ss[2]) == 1 and same(ss[2][0], arg):
        return True
    return False


def _le_len(cx, x, s):
    """x <= len(s) by a dominating comparison of x with some spelling of len(s)"""
    for rel, a, b, pts, gd in cx.rels:
        if b is None:
            continue
        if rel in ('<', '<=', '==') and same(a, x) and _is_len_of(b, s) and cx.stable_len(pts, gd, x, s):
            return True
        if rel == '==' and same(b, x) and _is_len_of(a, s) and cx.stable_len(pts, gd, x, s):
            return True
    if _is_len_of(x, s):
        return True
    # s is a tail view s0[a..]: its length is len(s0) - a, so `x <= len(s0) - a` is the comparison to look for
    tv = _tail_view(s)
    if tv is not None:
        s0, a = tv
        for rel, p, q, pts, gd in cx.rels:
            if q is None or rel not in ('<', '<=') or not same(p, x):
                continue
            qq = _peel(q)
            if isinstance(qq, tuple) and qq[0] == 'bin' and qq[1] == 'Sub' and same(qq[3], a) and _is_len_of(qq[2], s0) and cx.stable_len(pts, gd, x, a) and cx.stable(a, pts, gd):
                return True
    return False


def _tail_view(s):
    """(s0, a) when s denotes s0[a..] (index / index_mut by RangeFrom, through reborrows and deref calls)"""
    s = _peel(s)
    while isinstance(s, tuple) and s and s[0] in ('ref', 'deref'):
        s = _peel(s[1])
    if isinstance(s, tuple) and s and s[0] == 'call' and (s[1] or '').split('::')[-1] in ('index', 'index_mut') and len(s[2]) == 2:
        rp = _range_parts(s[2][1])
        if rp and rp[0] == 'from':
            return s[2][0], rp[1]
    return None


def _sub_evaluated(cx, a, s):
    """a dominating comparison evaluated `len(s) - a` (a checked subtraction that did not fail): a <= len(s)"""
    for rel, p, q, pts, gd in cx.rels:
        for side in (p, q):
            if side is None:
                continue
            qq = _peel(side)
            if isinstance(qq, tuple) and qq[0] == 'bin' and qq[1] == 'Sub' and same(qq[3], a) and _is_len_of(qq[2], s) and cx.stable(a, pts, gd) and cx.stable_len(pts, gd, a):
                return True
    return False


def discharge(site, delegated):
    """(rule, reason) when a generic rule proves the site cannot fire, or names the rule family that owns it"""
    cx = Ctx(site)
    k, op, ex = site.kind, site.op, site.exprs
    name = (site.callee or '').split('::')[-1]
    name = re.sub(r'<.*$', '', name)
    # ---- compiler-inserted pointer validity checks of unsafe dereferences: C10's unsafe audit owns them
    if k in ('MisalignedPointerDereference', 'NullPointerDereference', 'InvalidEnumConstruction'):
        return ('delegated:C10', 'debug-build validity check of a raw-pointer dereference (unsafe block audited by R10.1/R10.3)')
    if k == 'Overflow' and op in ('Shl', 'Shr'):
        c = fold(ex[1])
        bits = _bits_of(ex[0], site.tys[0] if getattr(site, 'tys', None) else None)
        if c is not None and bits and 0 <= c < bits:
            return ('const-shift', 'shift by the constant %d < %d bits' % (c, bits))
        bb = cx.bounds(ex[1])
        if bb and bb[1] is not None and bits and bb[1] < bits and (bb[0] is None or bb[0] >= 0):
            return ('bounded-shift', 'shift amount <= %d < %d bits' % (bb[1], bits))
    if k == 'Overflow' and op in ('Add', 'Sub', 'Mul'):
        a, b = fold(ex[0]), fold(ex[1])
        t = mirx.ty_range(expr_ty(ex[0]) or expr_ty(ex[1]) or (site.tys[0] if getattr(site, 'tys', None) else '') or '')
        if a is not None and b is not None and t:
            v = {'Add': a + b, 'Sub': a - b, 'Mul': a * b}[op]
            if t[0] <= v <= t[1]:
                return ('const', 'constant operands, result %d in range' % v)
        if type_level(ex[0], 0, site.body) and type_level(ex[1], 0, site.body):
            return ('type-level', 'operands are constants / const generics / type-level queries: no input byte reaches them')
        if '{closure#' in (site.fn.get('path') or '') and closure_of_parameterless_fn(site.fn) and all(
                type_level(x, 0, site.body) or (isinstance(x, tuple) and x and x[0] == 'arg') for x in ex[:2]):
            return ('type-level', 'closure of a parameterless function that only makes type-level queries: its parameters are type-level too')
        ba, bb = cx.bounds(ex[0]), cx.bounds(ex[1])
        if t and ba and bb and None not in ba and None not in bb:
            if op == 'Add' and ba[1] + bb[1] <= t[1] and ba[0] + bb[0] >= t[0]:
                return ('interval', 'operands within [%d, %d] and [%d, %d]: the sum fits %s' % (ba + bb + (expr_ty(ex[0]) or site.tys[0],)))
            if op == 'Mul' and ba[0] >= 0 and bb[0] >= 0 and ba[1] * bb[1] <= t[1]:
                return ('interval', 'operands within [%d, %d] and [%d, %d]: the product fits %s' % (ba + bb + (expr_ty(ex[0]) or site.tys[0],)))
            if op == 'Sub' and ba[0] - bb[1] >= t[0] and ba[1] - bb[0] <= t[1]:
                return ('interval', 'operands within [%d, %d] and [%d, %d]: the difference fits %s' % (ba + bb + (expr_ty(ex[0]) or site.tys[0],)))
        if op == 'Add':
            # x + 1 after a dominating `x < y`
            for x, c in ((ex[0], ex[1]), (ex[1], ex[0])):
                cv = fold(c)
                if cv == 1:
                    for rel, p, q, pts, gd in cx.rels:
                        if rel == '<' and q is not None and same(p, x) and cx.stable(x, pts, gd):
                            return ('guard-lt', 'x + 1 under a dominating `x < y`: x is below the type maximum')
            # a + b after a dominating `b <= c - a` (or a <= c - b): the sum is at most c
            for x, y in ((ex[0], ex[1]), (ex[1], ex[0])):
                for rel, p, q, pts, gd in cx.rels:
                    if rel in ('<', '<=') and q is not None and same(p, y):
                        qq = _peel(q)
                        if isinstance(qq, tuple) and qq[0] == 'bin' and qq[1] == 'Sub' and same(qq[3], x) and cx.stable(x, pts, gd) and cx.stable(y, pts, gd):
                            return ('guard-sub', 'a + b under a dominating `b <= c - a`: the sum is at most c')
        if op == 'Sub':
            if cx.le(ex[1], ex[0]):
                return ('guard-ge', 'a - b under a dominating `b <= a`')
            # a - min(_, a)
            m = _peel(ex[1])
            if isinstance(m, tuple) and m[0] == 'call' and (m[1] or '').split('::')[-1] == 'min' and any(same(x, ex[0]) for x in m[2]):
                if cx.body.reads_stable(site.pts, site.bi):
                    return ('sub-min', 'a - min(_, a): the subtrahend never exceeds a')
            # a - b where b was assigned on each branch of a comparison: a copy of a on one side, a value known to be at
            # most a on the other (`let b = if a < c { a } else { c }`, i.e. min(a, c) written out)
            bl, al = _peel(ex[1]), _peel(ex[0])
            if isinstance(bl, tuple) and bl and bl[0] == 'mut' and isinstance(al, tuple) and al and al[0] == 'mut':
                ds = cx.body.defs.get(bl[1], [])
                if len(ds) == 2 and all(d[2] is not None and d[1] != 'term' and d[2].get('k') == 'use' for d in ds):
                    okd = True

                    def stable_until_first(local, frm, to):
                        # no write to `local` on any path from the end of `frm` to its FIRST arrival at `to`
                        body = cx.body
                        seen, work = set(), list(body.succ[frm])
                        while work:
                            x = work.pop()
                            if x in seen:
                                continue
                            seen.add(x)
                            if x != to:
                                work.extend(body.succ[x])
                        for bi_ in seen & body.reaching(to):
                            for s_ in body.blocks[bi_]['stmts']:
                                if s_['k'] == 'assign' and s_['p']['l'] == local:
                                    return False
                            t_ = body.blocks[bi_]['term']
                            if bi_ != to and t_['k'] == 'call' and t_['dest']['l'] == local:
                                return False
                        return local not in body.mut_borrowed
                    for dbi, dsi, r in ds:
                        ei, _x = cx.body.expr_at(r['o'], dbi)
                        if not stable_until_first(al[1], dbi, site.bi):
                            okd = False
                            break
                        if same(ei, ex[0]):
                            continue
                        rels_d = relations(cx.body, dbi)
                        if not any(rel in ('<', '<=') and q is not None and same(p_, ei) and same(q, ex[0]) and cx.body.leaf_stable(al[1], gd, dbi)
                                   for rel, p_, q, pts, gd in rels_d):
                            okd = False
                            break
                    if okd:
                        return ('sub-select', 'a - b with b assigned, on each branch of a comparison, a value that is at most a there (min written as an if)')
            lb = fold(ex[1])
            if lb is not None:
                for rel, p, q, pts, gd in cx.rels:
                    if q is None:
                        continue
                    c = fold(p)
                    if rel in ('<', '<=') and c is not None and same(q, ex[0]) and cx.stable(ex[0], pts, gd) and c + (1 if rel == '<' else 0) >= lb:
                        return ('guard-ge', 'a - %d under a dominating lower bound on a' % lb)
                    if rel == '!=' and lb == 1 and fold(q) == 0 and same(p, ex[0]) and cx.stable(ex[0], pts, gd) and (mirx.ty_range(expr_ty(ex[0]) or '') or (0,))[0] == 0:
                        return ('guard-ge', 'a - 1 under a dominating `a != 0` (unsigned)')
    if k in ('DivisionByZero', 'RemainderByZero'):
        # the message operand is the dividend; the divisor is in the asserted condition `divisor == 0` (expected false)
        cond = _peel(site.cond)
        dv = None
        if isinstance(cond, tuple) and cond[0] == 'bin' and cond[1] == 'Eq':
            dv = cond[2] if fold(cond[3]) == 0 else (cond[3] if fold(cond[2]) == 0 else None)
        ex = [dv] if dv is not None else [('opaque', 'divisor')]
        c = fold(ex[0])
        if c is not None and c != 0:
            return ('const', 'constant non-zero divisor %d' % c)
        if type_level(ex[0]):
            return ('type-level', 'divisor is type-level')
    if k == 'OverflowNeg':
        pass
    if k == 'BoundsCheck':
        ln, ix = ex[0], ex[1]
        cl, ci = fold(ln), fold(ix)
        if cl is not None and ci is not None and 0 <= ci < cl:
            return ('const', 'constant index %d into a length of %d' % (ci, cl))
        if cx.le(ix, ln, strict=True):
            return ('guard-lt', 'index under a dominating `index < len`')
        for rel, p, q, pts, gd in cx.rels:
            if rel == '<' and q is not None and same(p, ix) and cx.stable_len(pts, gd, ix):
                # `i < x.len()` against the length operand of the same container (array length N / PtrMetadata)
                if same(q, ln) or _same_container_len(_peel(q), ln):
                    return ('guard-lt', 'index under a dominating `index < len`')
        if ci == 0:
            s = _peel(ln)
            if isinstance(s, tuple) and s[0] == 'len' and cx.nonempty(s[1]):
                return ('nonempty', 'index 0 after a dominating `!is_empty()`')
    if site.callee:
        if delegated and name in ALLOC_SIZED:
            return ('delegated:R09.1', 'sized allocation request: its size argument is classified by C09 R09.1 (evaluated with this check)')
        if name in ALLOC_GROW and ('alloc::' in site.callee or 'bytes::' in site.callee):
            return ('alloc-grow', 'growth by one element / node allocation: fails only by exhausting memory (outside the claim)')
        if site.callee.startswith('alloc::alloc::handle_alloc_error'):
            return ('alloc-grow', 'allocation failure handler (outside the claim)')
        if site.callee == 'core::time::Duration::new':
            return ('delegated:R03.2', 'Duration::new is guarded by the nanos < 10^9 check that R03.2 decides')
        if name in ('index', 'index_mut') and len(ex) == 2:
            rp = _range_parts(ex[1])
            s = ex[0]
            if rp:
                if rp[0] == 'full':
                    return ('range-full', 'indexing by `..` cannot fail')
                if rp[0] == 'to' and _le_len(cx, rp[1], s):
                    return ('guard-len', '[..n] under a dominating `n <= len`')
                if rp[0] == 'from' and _le_len(cx, rp[1], s):
                    return ('guard-len', '[n..] under a dominating `n <= len`')
                if rp[0] == 'from' and fold(rp[1]) == 1 and cx.nonempty(s):
                    return ('nonempty', '[1..] after a dominating `!is_empty()`')
                if rp[0] == 'from' and fold(rp[1]) == 0:
                    return ('const', '[0..] cannot fail')
                if rp[0] == 'from' and _sub_evaluated(cx, rp[1], s):
                    return ('guard-sub', '[a..] after `len - a` was evaluated by a dominating guard without underflow')
                if rp[0] == 'range':
                    a, e2 = rp[1], _peel(rp[2])
                    if isinstance(e2, tuple) and e2[0] == 'bin' and e2[1] == 'Add' and same(e2[2], a):
                        b2 = e2[3]
                        for rel, p, q, pts, gd in cx.rels:
                            if rel in ('<', '<=') and q is not None and same(p, b2):
                                qq = _peel(q)
                                if isinstance(qq, tuple) and qq[0] == 'bin' and qq[1] == 'Sub' and same(qq[3], a) and _is_len_of(qq[2], s) and cx.stable_len(pts, gd, a, b2):
                                    if cx.stable(a, pts, gd):
                                        return ('guard-sub', '[a..a+b] under a dominating `b <= len - a`')
        if name in ('split_at', 'split_at_mut') and len(ex) == 2 and _le_len(cx, ex[1], ex[0]):
            return ('guard-len', 'split_at(n) under a dominating `n <= len`')
        if name == 'copy_from_slice' and len(ex) == 2:
            d0, s0 = _peel(ex[0]), _peel(ex[1])
            while isinstance(s0, tuple) and s0 and s0[0] in ('ref', 'deref'):
                s0 = _peel(s0[1])
            # source is s.split_at(dst.len()).0
            if isinstance(s0, tuple) and s0 and s0[0] == 'field' and s0[2] == 0 and isinstance(_peel(s0[1]), tuple) and _peel(s0[1])[0] == 'call' and \
                    (_peel(s0[1])[1] or '').split('::')[-1] in ('split_at', 'split_at_mut') and len(_peel(s0[1])[2]) == 2 and _is_len_of(_peel(s0[1])[2][1], d0):
                return ('equal-len', 'source is s.split_at(dst.len()).0: both slices have dst.len() elements')
            # source is the payload of `s.get(..dst.len())`: exactly dst.len() elements
            if isinstance(s0, tuple) and s0 and s0[0] == 'field' and s0[2] == 0:
                dn = _peel(s0[1])
                if isinstance(dn, tuple) and dn and dn[0] == 'down' and str(dn[2]).endswith('Some'):
                    gc = _peel(dn[1])
                    if isinstance(gc, tuple) and gc and gc[0] == 'call' and re.search(r'core::slice::<impl \[T\]>::get(_mut)?$', gc[1] or '') and len(gc[2]) == 2:
                        rp = _range_parts(gc[2][1])
                        if rp and rp[0] == 'to' and _is_len_of(rp[1], d0):
                            return ('equal-len', 'source is the payload of s.get(..dst.len()): both slices have dst.len() elements')
            dst, src = _peel(ex[0]), _peel(ex[1])
            # src = s[..len(dst)]  or  s[a..a+len(dst)]
            ss = src
            while isinstance(ss, tuple) and ss and ss[0] in ('ref', 'deref'):
                ss = ss[1]
            if isinstance(ss, tuple) and ss[0] == 'call' and (ss[1] or '').split('::')[-1] in ('index', 'index_mut') and len(ss[2]) == 2:
                rp = _range_parts(ss[2][1])
                if rp and rp[0] == 'to' and _is_len_of(rp[1], dst):
                    return ('equal-len', 'source is s[..dst.len()]: both slices have dst.len() elements')
                if rp and rp[0] == 'range':
                    b = _peel(rp[2])
                    if isinstance(b, tuple) and b[0] == 'bin' and b[1] == 'Add' and same(b[2], rp[1]) and _is_len_of(b[3], dst):
                        return ('equal-len', 'source is s[a..a + dst.len()]: both slices have dst.len() elements')
        if name == 'count' and len(ex) == 1:
            it = _peel(ex[0])
            if isinstance(it, tuple) and it[0] == 'call' and (it[1] or '').startswith('core::option::Option::') and (it[1] or '').split('::')[-1] in ('iter', 'iter_mut', 'into_iter'):
                return ('option-iter', 'count of an Option iterator is at most 1')
        if k == 'call' and site.callee.startswith('core::panicking::'):
            r = _unreachable_by_rem(site)
            if r:
                return r
            if type_level_guard(site):
                return ('type-level', 'assertion on a type-level condition (sizes / constants): independent of the input')
            r = _none_of_nonempty(site, cx)
            if r:
                return r
    return None


def _same_container_len(lq, ln):
    """`x.len()` (call / PtrMetadata) in the guard and the BoundsCheck length operand denote the same length: the
    bounds-check operand of a `[T; N]` is the constant N, and the length of `&[T; N]` unsized to a slice is N too"""
    ln = _peel(ln)
    if isinstance(lq, tuple) and lq[0] == 'len' and isinstance(ln, tuple) and ln[0] == 'len':
        return same(lq[1], ln[1])
    n = _array_len_of(lq)
    if n is not None and isinstance(ln, tuple):
        if ln[0] == 'cs' and str(ln[1]).split('::')[-1] == n:
            return True
        if ln[0] == 'c' and str(ln[1]) == n:
            return True
    return False


def _array_len_of(e):
    """N when `e` is len(x as &[T]) / x.len() with x: &[T; N] (taken from the type of the unsizing cast)"""
    e = _peel(e)
    if not (isinstance(e, tuple) and e):
        return None
    inner = None
    if e[0] == 'len':
        inner = e[1]
    elif e[0] == 'call' and (e[1] or '').split('::')[-1] == 'len' and len(e[2]) == 1:
        inner = e[2][0]
    while isinstance(inner, tuple) and inner and inner[0] in ('ref', 'deref'):
        inner = inner[1]
    if isinstance(inner, tuple) and inner and inner[0] == 'cast' and len(inner) > 3:
        m = re.search(r';\s*([A-Za-z_0-9]+)\]$', inner[3] or '')
        if m:
            return m.group(1)
    return None


def _none_of_nonempty(site, cx):
    """a panic in the `None` arm of `s.split_first()` / `first()` / `last()` (and _mut forms) after a dominating
    `!s.is_empty()`: the accessor returns Some for a non-empty slice, the arm is unreachable"""
    body = site.body
    b = site.bi
    seen = set()
    for _ in range(8):
        ps = body.pred[b]
        if len(ps) != 1 or b in seen:
            return None
        seen.add(b)
        d = ps[0]
        t = body.blocks[d]['term']
        if t['k'] == 'switch':
            vals = [v for v, tgt in t['ts'] if tgt == b]
            e = _peel(body.expr_operand(t['d']))
            if vals == [0] and isinstance(e, tuple) and e[0] == 'discr':
                c = _peel(e[1])
                if isinstance(c, tuple) and c[0] == 'call' and (c[1] or '').split('::')[-1] in ('split_first_mut', 'split_first', 'first', 'first_mut', 'last', 'last_mut', 'split_last', 'split_last_mut') and len(c[2]) == 1:
                    if cx.nonempty(c[2][0]):
                        return ('nonempty', 'None arm of %s() after a dominating `!is_empty()`' % (c[1] or '').split('::')[-1])
            return None
        if t['k'] not in ('goto', 'call'):
            return None
        if t['k'] == 'call' and not ((t['fn'].get('f') or '').startswith('core::fmt::') or (t['fn'].get('f') or '').startswith('core::panicking::')):
            return None
        b = d
    return None


def _unreachable_by_rem(site):
    """a panic in the catch-all arm of a switch on `x % k` whose arms 0..k-1 are all present"""
    body = site.body
    b = site.bi
    seen = set()
    # walk up through single-predecessor gotos
    for _ in range(6):
        ps = body.pred[b]
        if len(ps) != 1 or b in seen:
            return None
        seen.add(b)
        d = ps[0]
        t = body.blocks[d]['term']
        if t['k'] == 'switch' and t['otherwise'] == b:
            e = _peel(body.expr_operand(t['d']))
            vals = {v for v, _ in t['ts']}
            if isinstance(e, tuple) and e[0] == 'bin' and e[1] == 'Rem':
                kk = fold(e[3])
                if kk and vals >= set(range(kk)):
                    return ('exhaustive-rem', 'catch-all arm of a match on x %% %d whose arms 0..%d are present' % (kk, kk - 1))
            # any scrutinee whose value range (mask, shift, remainder, narrow type) is covered by the explicit arms
            rg = interval(e)
            if rg and rg[0] is not None and rg[1] is not None and 0 <= rg[1] - rg[0] <= 512 and vals >= set(range(rg[0], rg[1] + 1)):
                return ('exhaustive-range', 'catch-all arm of a match whose scrutinee lies in [%d, %d] and whose arms cover that range' % rg)
            return None
        if t['k'] != 'goto':
            return None
        b = d
    return None


# ------------------------------------------------------------------------------------------ audited sites
# (function by stable key, site kind) -> invariant the site relies on.  `max` bounds how many sites of that kind the
# function may contain; `requires` names a mechanical side condition that is re-checked on every run.
AUDITED = [
    # a struct invariant, so the row is keyed by the receiver type and the expression, not by the method: any method of
    # BytesCursor (also a private accessor factored out of `read` / `remaining_len`) may compute `bytes.len() - position`
    {'self_ty': 'codec::BytesCursor', 'kind': 'Overflow Sub', 'max': 1, 'requires': 'cursor-remaining',
     'why': 'bytes.len() - position: struct invariant position <= bytes.len() (decode_from_bytes starts at 0; read advances '
            'position only after the `into.len() > bytes.len() - position` rejection; scale_internal_decode_bytes resets it to 0; '
            'the writers of `position` are audited by R08.4)'},
    {'fn': '<codec::BytesCursor as Input>::scale_internal_decode_bytes', 'kind': 'call advance', 'max': 1,
     'why': 'Buf::advance(&mut bytes, position): position <= bytes.len() by the struct invariant'},
    {'fn': '<codec::BytesCursor as Input>::scale_internal_decode_bytes', 'kind': 'call split_to', 'max': 1, 'requires': 'arg1-le-len',
     'why': 'Bytes::split_to(length) after the `length > bytes.len()` rejection; only the on_before_alloc_mem hook runs in between'},
    {'fn': "<depth_limit::DepthTrackingInput<'_, I> as Input>::descend_ref", 'kind': 'Overflow Add', 'max': 1,
     'why': 'depth += 1: an Err from descend_ref ends the decode (R11.1 / R03.5: it is propagated), so depth <= max_depth + 1 <= u32::MAX '
            'unless max_depth == u32::MAX and the input nests 2^32 levels (the stack is exhausted long before)'},
    {'fn': "<depth_limit::DepthTrackingInput<'_, I> as Input>::ascend_ref", 'kind': 'Overflow Sub', 'max': 1,
     'why': 'depth -= 1: every ascend_ref is preceded by a successful descend_ref on the same path (C11 R11.1 balance, evaluated with this check)'},
    {'fn': '<bitvec::vec::BitVec<T, O> as Decode>::decode::{closure#0}', 'kind': 'call panic', 'max': 1,
     'why': 'assert!(bits <= result.len()): result is BitVec::try_from_vec(v) with v.len() == elts::<T>(bits) elements read in full, '
            'so result.len() == v.len() * T::BITS >= bits'},
    {'fn': 'helper:bulk::{closure#0}', 'kind': 'Overflow Mul', 'max': 1,
     'why': 'decoded_vec.len() * size_of::<T>() <= len * size_of::<T>(), which the caller computed with checked_mul before the first chunk (K2: chunks sum to len)'},
    {'fn': 'helper:bulk::{closure#0}', 'kind': 'Overflow Add', 'max': 1,
     'why': 'decoded_vec.len() + chunk_len <= len (K2: chunk lengths sum to the count the caller passed)'},
    {'fn': 'helper:bulk::{closure#0}', 'kind': 'call split_at_mut', 'max': 1,
     'why': 'bytes_slice.split_at_mut(old_len * size): the same view as bytes_slice[old_len * size..] below, same argument'},
    {'fn': 'helper:bulk::{closure#0}', 'kind': 'call index_mut', 'max': 1,
     'why': 'bytes_slice[old_len * size..]: bytes_slice is the byte view of the vector after set_len(old_len + chunk_len), i.e. (old_len + chunk_len) * size bytes long'},
    {'fn': 'helper:chunk', 'kind': 'Overflow Sub', 'max': 1, 'requires': 'callback-reports-chunk',
     'why': 'remaining -= <what the chunk callback reports>: every callback the crate passes reports exactly the chunk length it was '
            'given, which is min(allowance, remaining) <= remaining (C02 K1-K2, re-evaluated as the side condition)'},
]
_CUR_FACTS = [None]


def _base_fn(key):
    """a function and its closures are one unit for the audited table (a closure body may be inlined or split off)"""
    return re.sub(r'::\{closure#\d+\}', '', key)


def _short_kind(site):
    if site.callee:
        nm = re.sub(r'<.*$', '', site.callee.split('::')[-1])
        if site.callee.startswith('core::panicking::'):
            nm = 'panic'
        return 'call ' + nm
    return site.kind if not site.op else '%s %s' % (site.kind, site.op)


def _audit_requires(req, site):
    cx = Ctx(site)
    if req == 'arg1-le-len':
        x, s = site.exprs[1], site.exprs[0]
        for rel, a, b, pts, gd in cx.rels:
            if b is None or rel not in ('<', '<='):
                continue
            if same(a, x) and _is_len_of(b, s):
                if mirx.call_points(x) & (cx.body.between(gd, site.bi) | {site.bi}):
                    continue
                if cx.body.reads_stable(set(pts) | set(site.pts), site.bi, False, ignore_calls=('on_before_alloc_mem',)):
                    return True
        return False
    if req == 'cursor-remaining':
        # len(<one field of *self>) - <the other field of *self>
        if len(site.exprs) != 2:
            return False
        a, b = (mirx.show(strip_at(e)) for e in site.exprs)
        ma, mb = re.match(r'^len\(&\*arg1\.(\d)\)$', a), re.match(r'^\*arg1\.(\d)$', b)
        return bool(ma and mb and ma.group(1) != mb.group(1))
    if req == 'callback-reports-chunk':
        # the subtrahend is the result of calling the callback parameter, and K1-K2 hold (incl. "every callback reports the
        # chunk it was given", decided on the callers with their closures inlined)
        if not (len(site.exprs) > 1 and 'call_mut' in mirx.show(site.exprs[1])):
            return False
        facts = _CUR_FACTS[0]
        if facts is None:
            return False
        from ..report import Out
        from . import c02
        sub = Out('C02')
        c02.check_kernel(sub, facts)
        return sub.by_rule.get('K1-K2', [0, 0])[0] > 0 and not [f for f in sub.findings if f.rule in ('K1', 'K1-K2')]
    return False


def check_panics(out, facts, repo_root, label=None, delegated=True, floor=None, only_fns=None):
    """R03.3 over one fact set.  Returns (sites, discharged-by-rule counter)."""
    cfg = label or facts.cfg
    _CUR_FACTS[0] = facts
    mirx.FN_LOOKUP[0] = lambda n: facts.by_path.get(_norm(n))
    seen = reachable(facts)
    by_rule = {}
    n = 0
    used = {}
    for p in sorted(seen):
        f = facts.by_path.get(p)
        if not f or not f.get('mir'):
            continue
        if only_fns is not None and not only_fns(f):
            continue
        sk = stable_fkey(facts, f)
        per_kind = {}
        for site in sites_of(facts, f, repo_root):
            n += 1
            kind = _short_kind(site)
            per_kind[kind] = per_kind.get(kind, 0) + 1
            key = '%s / %s #%d [%s]' % (sk, kind, per_kind[kind], cfg)
            if site.kind == 'call-unknown':
                out.ob('R03.3', key, False, 'external callee %s cannot be classified (%s): its source was not found, so whether it can '
                       'panic is unknown' % (site.callee, site.doc), site.loc)
                continue
            r = discharge(site, delegated)
            if r:
                by_rule[r[0]] = by_rule.get(r[0], 0) + 1
                out.ob('R03.3', key, True, '', site.loc, sample={'site': site.sig()[:160], 'rule': r[0], 'reason': r[1]})
                continue
            base = _base_fn(sk)
            rows = [a for a in AUDITED if a['kind'] == kind and (_base_fn(a['fn']) == base if 'fn' in a else
                                                                  re.match(r'<%s( as [^>]+)?>::' % re.escape(a['self_ty']), base))]
            ok = False
            why = 'no discharge rule applies and the site is not in the audited table'
            if rows:
                row = rows[0]
                u = used.get((base, kind), 0) + 1
                used[(base, kind)] = u
                if u > row['max']:
                    why = 'more %s sites than the %d audited in this function' % (kind, row['max'])
                elif row.get('requires') and not _audit_requires(row['requires'], site):
                    why = 'audited site lost its side condition (%s): %s' % (row['requires'], row['why'][:120])
                else:
                    ok = True
                    by_rule['audited'] = by_rule.get('audited', 0) + 1
            out.ob('R03.3', key, ok, '%s can fire on a decoding path: %s [%s]' % (site.sig()[:200], why, site.doc or site.kind), site.loc,
                   sample={'site': site.sig()[:160], 'rule': 'audited' if ok else None})
    if floor is not None:
        out.floor('R03.3', 'panic-capable sites on decoding paths [%s]' % cfg, n, floor)
    out.count('R03.3 sites [%s]' % cfg, n)
    for k, v in sorted(by_rule.items()):
        out.count('R03.3 discharged by %s [%s]' % (k, cfg), v)
    return n, by_rule
