"""C07 — all encoding entry points and bulk fast paths agree (DESIGN §6 C07)."""
from .common import *
from .. import shape, types as T

LEVEL = 'other'
EXPLANATION = (
    'R07.1 override consistency: for every Encode impl the wire term is inferred independently from each overridden '
    'output method (encode_to: effects on the destination; encode: content of the returned vector; using_encoded: '
    'content of the slice handed to the callback). Methods that merely re-enter another method of the same value '
    '(`self.encode_to(&mut buf)`, `f(&self.encode())`) are not sources; at least one source must exist and all sources '
    'must have identical terms (same constants, same operands, same order); encoded_size is never overridden. R07.2: '
    'the trait defaults keep their mutual definition (encode_to = using_encoded + write, encode = fresh vector + '
    'encode_to, using_encoded = f(&self.encode()), encoded_size = encode_to into the counting sink, returning its '
    'counter). R07.3: every Output impl writes all bytes it is given in order and its push_byte is write(&[b]) by '
    'shape (SizeTracker adds len / 1; ArrayVecWrapper appends the slice at [old_len, old_len+len) / pushes; the std '
    'sink is write_all, the no_std sink extend_from_slice). R07.4 bulk = element-wise: the bulk arms cover the whole '
    'slice reinterpreted as the primitive named by TYPE_INFO (C01 R01.3), VecDeque applies the slice routine to both '
    'halves in order, and the Unknown arm iterates all items.')
ASSUMPTIONS = ['memory image of a primitive on a little-endian target equals its LE bytes', 'size_hint is only a hint (not compared)',
               'std::io::Write::write_all / Vec::extend_from_slice / ArrayVec::push append all bytes in order']


def method_terms(facts, S, impl):
    ms = S.methods_of(impl)
    out = {}
    for m in wire.ENC_METHODS:
        if m in ms:
            t, v, ev = wire.infer_encoder_method(facts, ms[m], S.ev)
            out[m] = (t, ms[m])
    return out, ms


def canon_term(t):
    """comparison form of an encoder term: drop cfg markers, panics (asserts) and helper wrappers"""
    its = []
    for e in items(t):
        if e[0] in ('CFG', 'ALLOC', 'OWN', 'SINKW'):
            continue
        its.append(e)
    return sym.tstr(cat(*its))


def _encoded_size_forward(facts, S, ms, mt):
    """an overridden encoded_size is accepted only as a pure forward: its value is `encoded_size` of exactly the value
    whose encoding the impl's byte-producing method emits (encode_to == enc<T>(x)  and  encoded_size == T::encoded_size(x))"""
    f = ms['encoded_size']
    ev = sym.Evaluator(facts)
    ctx = sym.Ctx(ev, f)
    if f['params']:
        ctx.env[f['params'][0]['v']] = ('self',)
    v, t = sym.fn_value(ev, f, ctx)
    sv = strip(v)
    if not (isinstance(sv, tuple) and sv[0] == 'encoded_size'):
        return 'its value is %s, not the encoded_size of the forwarded value' % sym.vstr(v)[:120]
    for m, (tm, fm) in mt.items():
        its = [e for e in items(tm) if e[0] not in ('CFG', 'ALLOC', 'OWN', 'SINKW')]
        if len(its) == 1 and its[0][0] == 'enc':
            if its[0][1] == sv[1] and sym.vstr(its[0][2]) == sym.vstr(sv[2]):
                return None
            return 'it measures %s of type %s but %s emits %s of type %s' % (sym.vstr(sv[2])[:60], sv[1], m, sym.vstr(its[0][2])[:60], its[0][1])
    return 'the impl does not forward its bytes to a single inner value, so a forwarded size cannot be justified'


def check_overrides(out, facts, S, impls=None, label=None):
    cfg = label or facts.cfg
    n = 0
    n_multi = 0
    for i in (impls if impls is not None else facts.impls_of('Encode')):
        n += 1
        key = 'impl Encode for %s [%s]' % (i['self'], cfg)
        mt, ms = method_terms(facts, S, i)
        why_es = _encoded_size_forward(facts, S, ms, mt) if 'encoded_size' in ms else None
        out.ob('R07.1', key + '/encoded_size', not why_es, 'encoded_size is overridden (its default is the streaming encoder into the counting sink) and is not a pure forward: %s' % why_es, i['loc'])
        if not mt:
            st = i.get('self_adt') or {}
            uninhabited = st.get('kind') == 'enum' and not st.get('variants')
            out.ob('R05.3', key + '/cycle', uninhabited,
                   'impl overrides none of encode_to / encode / using_encoded: the three mutually defined defaults recurse forever', i['loc'])
            continue
        opq = [(m, sym.has_opaque(t)) for m, (t, f) in mt.items() if sym.has_opaque(t)]
        if opq:
            out.fail('R07.1', key, 'unrecognised construct in %s: %s' % (opq[0][0], opq[0][1][0][1]), opq[0][1][0][2])
            continue
        sources = {m: (t, f) for m, (t, f) in mt.items() if not shape._is_self_forward(t)}
        if not sources:
            out.fail('R07.1', key, 'every overridden output method re-enters another one (%s): no method produces the bytes' % sorted(mt), i['loc'])
            continue
        if len(mt) > 1:
            n_multi += 1
        forms = {m: canon_term(t) for m, (t, f) in sources.items()}
        vals = sorted(set(forms.values()))
        good = len(vals) == 1
        msg = ''
        if not good:
            ms_ = sorted(forms)
            msg = 'entry points disagree: ' + ' | '.join('%s: %s' % (m, forms[m][:140]) for m in ms_)
        f0 = list(sources.values())[0][1]
        out.ob('R07.1', key, good, msg, f0['loc'], sample={'methods': sorted(mt), 'sources': sorted(sources), 'term': vals[0][:200]})
    return n, n_multi


def check_defaults(out, facts):
    cfg = facts.cfg
    exp = {'encode_to': None, 'encode': None, 'using_encoded': None}
    for m in ('encode_to', 'encode', 'using_encoded'):
        d = facts.trait_default('Encode', m)
        if not d:
            out.fail('R07.2', 'Encode::%s default [%s]' % (m, cfg), 'default method not found (anchor missing)', '-')
            continue
        t, v, ev = wire.infer_encoder_method(facts, d)
        its = [e for e in items(t) if e[0] not in ('CFG', 'ALLOC', 'OWN', 'SINKW')]
        ok = len(its) == 1 and its[0][0] == 'enc' and its[0][1] == 'Self' and strip(its[0][2]) == ('self',)
        out.ob('R07.2', 'Encode::%s default [%s]' % (m, cfg), ok, 'default %s is no longer defined through the other entry points: %s' % (m, sym.tstr(t)), d['loc'],
               sample={'term': sym.tstr(t)})
    # which method each default re-enters (mutual definition without a 2-cycle among defaults alone is impossible; the cycle
    # is broken by impls, R05.3).  encode_to -> using_encoded, encode -> encode_to, using_encoded -> encode
    from .c08 import _walk_thir
    want = {'encode_to': 'using_encoded', 'encode': 'encode_to', 'using_encoded': 'encode', 'encoded_size': 'encode_to'}
    for m, callee in want.items():
        d = facts.trait_default('Encode', m)
        if not d:
            continue
        calls = set()
        for fn in [d] + facts.closures_of(d):
            for node, _ in _walk_thir(fn['thir'], [], fn):
                if node.get('k') == 'call' and tname(node.get('trait') or '') == 'Encode' and node['name'] in wire.ENC_METHODS:
                    calls.add(node['name'])
        out.ob('R07.2', 'Encode::%s default re-enters %s [%s]' % (m, callee, cfg), calls == {callee}, 'default %s calls %s' % (m, sorted(calls)), d['loc'])
    d = facts.trait_default('Encode', 'encoded_size')
    if d:
        ev = sym.Evaluator(facts)
        ctx = sym.Ctx(ev, d)
        ctx.env[d['params'][0]['v']] = ('self',)
        v, t = sym.fn_value(ev, d, ctx)
        sv = strip(v)
        # the counter is the tracker's only field, read by name or by destructuring (field index 0)
        ok = isinstance(sv, tuple) and sv[0] == 'field' and (sv[3] == 'written' or sv[2] == 0) and strip(sv[1])[0] == 'sink'
        sink = strip(sv[1])[1] if ok else None
        evs = ctx.sinks.get(sink, []) if ok else []
        ok = ok and len(evs) == 1 and evs[0][0] == 'enc' and strip(evs[0][2]) == ('self',)
        kind = ctx.sink_kind.get(sink, (None, None)) if ok else (None, None)
        ok = ok and kind[0] == 'sizetracker' and sym.vstr(kind[1]) == 'SizeTracker::SizeTracker{0: 0:usize}'
        out.ob('R07.2', 'Encode::encoded_size default [%s]' % cfg, ok, 'encoded_size is not encode_to into SizeTracker{written: 0} returning its counter: %s' % sym.vstr(v), d['loc'])
    else:
        out.fail('R07.2', 'Encode::encoded_size default [%s]' % cfg, 'not found', '-')
    d = facts.trait_default('Output', 'push_byte')
    if d:
        ev = sym.Evaluator(facts)
        ctx = sym.Ctx(ev, d)
        ctx.env[d['params'][0]['v']] = ('dest',)
        ctx.env[d['params'][1]['v']] = ('param', 'byte', 'u8')
        v, t = ev.ev(d['thir'], ctx)
        out.ob('R07.3', 'Output::push_byte default [%s]' % cfg, sym.tstr(t) == 'write([byte])', 'default push_byte is not write(&[byte]): ' + sym.tstr(t), d['loc'])


def check_sinks(out, facts):
    cfg = facts.cfg
    impls = {i['self']: i for i in facts.impls_of('Output')}
    audited = {'W', 'alloc::vec::Vec<u8>', 'codec::SizeTracker', 'compact::ArrayVecWrapper<N>'}
    for s in impls:
        out.ob('R07.3', 'Output impl census: %s [%s]' % (s, cfg), s in audited, 'unaudited Output impl', impls[s]['loc'])
    out.floor('R07.3', 'Output impls [%s]' % cfg, len(impls), 3)
    for f in facts.methods('Output'):
        if f['kind'] != 'AssocFn':
            continue
        ev = sym.Evaluator(facts)
        ctx = sym.Ctx(ev, f)
        ctx.env[f['params'][0]['v']] = ('self',)
        for p in f['params'][1:]:
            ctx.env[p['v']] = ('param', p['name'], p.get('ty'))
        v, t = ev.ev(f['thir'], ctx)
        s = sym.tstr(t)
        key = '%s [%s]' % (fkey(f), cfg)
        evs = [e for e in events(t) if e[0] in ('SET', 'MUTCALL')]
        ok = False
        if f['self'] == 'codec::SizeTracker':
            ok = len(evs) == 1 and evs[0][0] == 'SET' and is_self_field(evs[0][1], 'written') and evs[0][3] == 'AddAssign' and \
                sym.vstr(evs[0][2]) == ('len(bytes)' if f['method'] == 'write' else '1:usize')
        elif f['self'] == 'W':
            ok = f['method'] == 'write' and len(evs) == 1 and evs[0][1] == 'write_all' and sym.vstr(evs[0][3][1]) == 'bytes'
        elif f['self'] == 'alloc::vec::Vec<u8>':
            ok = f['method'] == 'write' and len(evs) == 1 and evs[0][1] == 'extend_from_slice' and sym.vstr(evs[0][3][1]) == 'bytes' and strip(evs[0][3][0]) == ('self',)
        elif f['self'].startswith('compact::ArrayVecWrapper'):
            if f['method'] == 'push_byte':
                ok = len(evs) == 1 and evs[0][1] == 'push' and sym.vstr(evs[0][3][1]) == 'byte' and sym.vstr(evs[0][3][0]) == 'self.0'
            else:
                cp = [e for e in evs if e[1] == 'copy_from_slice']
                sl = [e for e in evs if e[1] == 'set_len']
                ok = len(cp) == 1 and len(sl) == 1 and sym.vstr(cp[0][3][1]) == 'bytes' and \
                    'Range::Range{0: len(self.0), 1: (len(self.0) Add len(bytes))}' in sym.vstr(cp[0][3][0]) and \
                    sym.vstr(sl[0][3][1]) == '(len(self.0) Add len(bytes))'
                # the capacity assert guards the unsafe set_len (C04 R04.4 / C10)
                alts = [x for x in sym.walk(t) if x[0] == 'alt']
                ok = ok and len(alts) == 1 and sym.vstr(alts[0][1][1]) == 'Not(((len(self.0) Add len(bytes)) Le capacity(self.0)))'
        out.ob('R07.3', key, ok, 'sink does not append exactly the bytes it is given: ' + s[:200], f['loc'], sample={'term': s[:200]})


def check_aux_entry_points(out, facts):
    """R07.5: the convenience entry points built on using_encoded — Joiner::and (append the encoding to self) and
    KeyedVec::to_keyed_vec (key ++ encoding) — pass on the whole encoding on every path"""
    cfg = facts.cfg
    want = {'joiner::Joiner': 'and', 'keyedvec::KeyedVec': 'to_keyed_vec'}
    seen = set()
    for f in facts.fns:
        tr = f.get('trait')
        if not f.get('thir') or f['kind'] != 'AssocFn' or tr not in want or f.get('method') != want[tr] or f['ctx'] != 'trait_impl':
            continue
        seen.add(tr)
        ev = sym.Evaluator(facts)
        ctx = sym.Ctx(ev, f)
        for p in f['params']:
            ctx.env[p['v']] = ('param', p['name'], p.get('ty'))
        v, t = ev.ev(f['thir'], ctx)
        key = '%s [%s]' % (fkey(f), cfg)
        if sym.has_opaque(t):
            out.fail('R07.5', key, 'unrecognised construct: ' + sym.has_opaque(t)[0][1], sym.has_opaque(t)[0][2])
            continue
        why = []
        value_param = f['params'][1]['name'] if tr == 'joiner::Joiner' else f['params'][0]['name']
        for p in paths(t):
            if p and p[-1][0] in ('PANIC', 'ERR'):
                why.append('a path ends in %s' % p[-1][0])
                continue
            app = [e for e in p if e[0] == 'MUTCALL' and e[1] in ('extend', 'extend_from_slice', 'write', 'append')]
            def whole_slice(a):
                # the callback's slice itself, or an iterator over all of it
                a = strip(a)
                for _ in range(6):
                    if isinstance(a, tuple) and a and a[0] == 'call' and a[1] in ('iter', 'into_iter', 'copied', 'cloned', 'as_ref', 'deref', 'as_slice', 'borrow') and a[3]:
                        a = strip(a[3][0])
                    elif isinstance(a, tuple) and a and a[0] in ('ref', 'deref'):
                        a = strip(a[1])
                    else:
                        break
                return isinstance(a, tuple) and a and a[0] == 'cbarg' and sym.vstr(strip(a[2])).lstrip('&*') == value_param
            enc = [e for e in app if any(whole_slice(a) for a in e[3][1:])]
            if len(enc) != 1:
                why.append('a path appends the encoding of `%s` %d time(s)' % (value_param, len(enc)))
                continue
            dst = strip(enc[0][3][0])
            if tr == 'joiner::Joiner':
                if sym.vstr(dst) != 'self' or sym.vstr(v) != 'self':
                    why.append('the encoding is not appended to self / self is not returned')
                if len(app) != 1:
                    why.append('something else is appended as well')
            else:
                # the destination starts as a copy of the key and is the result
                init = strip(dst[3]) if dst[0] == 'mutvar' else None
                if not (isinstance(init, tuple) and init[0] == 'call' and init[1] in ('to_vec', 'to_owned', 'from', 'into') and 'prepend_key' in sym.vstr(init)):
                    why.append('the buffer the encoding is appended to does not start as a copy of the key')
                if dst[0] != 'mutvar' or ('mut ' + dst[2]) not in sym.vstr(v):
                    why.append('the buffer is not the result')
                if len(app) != 1:
                    why.append('something else is appended as well')
        out.ob('R07.5', key, not why, '; '.join(sorted(set(why))), f['loc'], sample={'term': sym.tstr(t)[:200], 'value': sym.vstr(v)[:80]})
    out.floor('R07.5', 'auxiliary entry points [%s]' % cfg, len(seen), 2)


def _iterates_all(unk):
    """the arm is exactly one loop that encodes every element of `slice` once, front to back: a `for` over
    slice.iter() / slice, or an index loop over 0..slice.len() (while-counter spelling included)"""
    from .. import shape as sh
    its = sym.items(unk) if unk else []
    if len(its) != 1 or its[0][0] != 'star':
        return False
    y = its[0]
    outs = [z for z in sym.walk(y[2]) if z[0] in ('enc', 'byte', 'write', 'star', 'prim_le', 'opaque', 'alt')]
    if len(outs) != 1 or outs[0][0] != 'enc':
        return False
    idx = sh._indexed_loop(y)
    if idx is not None:
        return sym.vstr(idx) == 'slice'
    src = strip(y[1])
    if src == ('loop',):
        return False
    base = sh._iter_src(src)
    op = strip(outs[0][2])
    fwd = sym.vstr(src) == 'slice' or (sh._is_forward_iter(src) and sym.vstr(strip(src[3][0])) == 'slice')
    return fwd and sym.vstr(base) == 'slice' and isinstance(op, tuple) and op[0] == 'elem' and sym.vstr(op[1]) == sym.vstr(src)


def check_bulk(out, facts):
    cfg = facts.cfg
    f = roles(facts).get('slice_no_len')
    if not f:
        out.fail('R07.4', 'encode_slice_no_len [%s]' % cfg, 'not found', '-')
        return
    ev = sym.Evaluator(facts)
    ctx = sym.Ctx(ev, f)
    bind_slice_dest(f, ctx)
    v, t = ev.ev(f['thir'], ctx)
    alts = [x for x in sym.walk(t) if x[0] == 'alt' and isinstance(strip(x[1]), tuple) and strip(x[1])[0] == 'const' and strip(x[1])[1].endswith('TYPE_INFO')]
    ok = len(alts) == 1
    if ok:
        arms = {d[1]: x for d, x in alts[0][2]}
        unk = arms.get('Unknown')
        s = sym.tstr(unk) if unk else ''
        ok = _iterates_all(unk)
        out.ob('R07.4', 'encode_slice_no_len Unknown arm iterates all items [%s]' % cfg, ok, 'element-wise fallback is ' + s, f['loc'])
        for var, x in arms.items():
            if var == 'Unknown':
                continue
            wr = [e for e in events(x) if e[0] == 'write']
            enc = [e for e in events(x) if e[0] in ('enc', 'byte', 'star')]
            out.ob('R07.4', 'encode_slice_no_len arm %s writes once [%s]' % (var, cfg), len(wr) == 1 and not enc,
                   'bulk arm performs %d writes and %d other output events' % (len(wr), len(enc)), f['loc'])
    else:
        out.fail('R07.4', 'encode_slice_no_len dispatch [%s]' % cfg, 'no single TYPE_INFO dispatch', f['loc'])


def run(cx, out):
    out.rule('R07.1', 'all overridden output methods of an impl that produce bytes themselves have identical terms; >= 1 such source; encoded_size not overridden')
    out.rule('R07.2', 'trait defaults keep their mutual definition')
    out.rule('R07.3', 'Output impls append all given bytes; push_byte == write(&[b])')
    out.rule('R07.5', 'Joiner::and and KeyedVec::to_keyed_vec pass on the whole using_encoded slice on every path')
    out.rule('R07.4', 'bulk arms = one write of the whole reinterpreted slice; fallback iterates all items (with C01 R01.3)')
    out.rule('R01.3', 'TYPE_INFO is overridden by exactly the 12 primitives with matching variants (which types may take the bulk path)')
    out.rule('R05.3', 'no Encode impl leaves all three mutually defined default methods in place')
    for cfg in lib_cfgs(cx):
        facts = cx.facts(cfg)
        unit(out, facts)
        S = shape.Shapes(facts)
        n, n_multi = check_overrides(out, facts, S)
        want = {'A': 66, 'B': 66, 'C': 66, 'D': 70, 'E': 70}.get(cfg, 66)
        out.floor('R07.1', 'Encode impls [%s]' % cfg, n, want)
        out.floor('R07.1', 'impls overriding more than one output method [%s]' % cfg, n_multi, 21)
        check_defaults(out, facts)
        check_sinks(out, facts)
        check_aux_entry_points(out, facts)
        check_bulk(out, facts)
        # the fake-specialisation table decides which types take the bulk path (shared with C01 R01.3)
        from . import c01
        c01.check_type_info(out, facts)
    if cx.tier == 'quick':
        # the sink of the configuration without std (`impl Output for Vec<u8>`) exists only there
        cx.need(['B'])
        fb = cx.facts('B')
        unit(out, fb)
        check_defaults(out, fb)
        check_sinks(out, fb)
    # derived impls: the entry points the derive macros generate (single-field forwarding fast path, enum encoders)
    from . import c05 as _c05
    from .. import facts as _fm
    if not getattr(cx, 'nested', 0):
        try:
            fx, _defs = _c05.corpus_facts(cx)
            libD = cx.facts('D')
            lib_impls = {(i['path'], i['self']) for i in libD.impls}
            own = [i for i in fx.impls_of('Encode') if (i['path'], i['self']) not in lib_impls]
            Sx = shape.Shapes(fx)
            nx, _ = check_overrides(out, fx, Sx, impls=own, label='derive corpus')
            out.floor('R07.1', 'derived Encode impls of the corpus', nx, 80)
        except _fm.BuildError as e:
            out.fail('R07.1', 'derive corpus', 'corpus does not compile: %s' % str(e)[:300], '-')
    from . import positive
    positive.check(cx, out, 'C07')
