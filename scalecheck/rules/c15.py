"""C15 — appending to an encoded sequence equals re-encoding the whole (DESIGN §6 C15)."""
from .common import *
from .. import shape, types as T

LEVEL = 'other'
EXPLANATION = (
    'R15.1 lossy count casts: in every encoder and in append_or_new_impl, a narrowing `as` cast of a value derived '
    'from a length (len()) that flows into a count prefix lies only on paths whose branch conditions exclude values '
    'above the target range (the guard is evaluated at 0, u32::MAX, u32::MAX+1, 2^40; any spelling is accepted), or '
    'the conversion is a checked try_from. R15.2 same prefix codec: append_or_new_impl reads the old count with '
    'Compact<u32>::decode (failure propagated), sizes both prefixes with Compact<u32>::compact_len, adds with '
    'checked_add (None -> Err) and writes the new count as Compact<u32> — the count representation of '
    'W(Vec<T>) = W(VecDeque<T>) = Seq(T). R15.3 rewrite shape: the in-place branch is taken iff the two prefix '
    'lengths are equal and overwrites exactly vec[..old_prefix_len] with the encoding of the new count; otherwise the '
    'new buffer is the new prefix followed by exactly vec[old_prefix_len..]; empty input writes the prefix of the item '
    'count alone. R15.4 items: each iterator item is encoded, in iteration order, into the same buffer, and both '
    'EncodeAppend impls call the same routine with their arguments unchanged.')
ASSUMPTIONS = ['C04 (the compact length table is right) gives the behaviour at the 2^6 / 2^14 / 2^30 boundaries',
               'C16 (EncodeLike items encode like Item)']


def narrowing_len_casts(v, acc, depth=0):
    v = strip(v)
    if depth > 16 or not isinstance(v, tuple) or not v:
        return
    if v[0] == 'cast' and v[1] in ('u32', 'u16', 'u8', 'i32', 'i16', 'i8') and (v[3] in ('usize', 'u64', 'u128', 'isize') or v[3] is None):
        if contains(v[2], lambda x: isinstance(x, tuple) and len(x) > 2 and x[0] == 'call' and x[1] == 'len'):
            acc.append(v)
    for x in v[1:]:
        if isinstance(x, tuple):
            narrowing_len_casts(x, acc, depth + 1)
        elif isinstance(x, list):
            for y in x:
                if isinstance(y, tuple):
                    narrowing_len_casts(y, acc, depth + 1)
                    if len(y) == 2 and isinstance(y[1], tuple):
                        narrowing_len_casts(y[1], acc, depth + 1)


def event_values(e):
    k = e[0]
    if k in ('byte', 'write', 'HOOK', 'read', 'RET'):
        return [e[1]]
    if k in ('enc', 'prim_le'):
        return [e[2] if k == 'enc' else e[1]]
    if k == 'SET':
        return [e[1], e[2]]
    if k == 'MUTCALL':
        return list(e[3])
    if k == 'CHECK':
        return [e[2]]
    if k == 'SINKW':
        return event_values(e[2])
    if k == 'ARM' and isinstance(e[1], tuple):
        return [e[1]] if e[1] and e[1][0] != 'if' else [e[1][1]]
    return []


def check_casts_on_term(out, key, t, extra_sinks, loc):
    """R15.1 for one function term"""
    n = 0
    pool = paths(t)
    # events written into local sinks (buffers) are effects too: attach them to every path
    for p in pool:
        for idx, e in enumerate(list(p)):
            casts = []
            for val in event_values(e):
                narrowing_len_casts(val, casts)
            for c in casts:
                n += 1
                inner = strip(c[2])
                lens = []
                contains(inner, lambda x: (lens.append(x) or False) if (isinstance(x, tuple) and len(x) > 2 and x[0] == 'call' and x[1] == 'len') else False)
                lim = {'u32': 2 ** 32 - 1, 'u16': 65535, 'u8': 255, 'i32': 2 ** 31 - 1, 'i16': 32767, 'i8': 127}[c[1]]
                arms = [a for a in (p[:idx] if idx < len(p) else p) if a[0] == 'ARM' and isinstance(a[1], tuple) and a[1] and a[1][0] == 'if']
                guarded = False
                for a in arms:
                    vals = {}
                    for ln in (0, lim, lim + 1, 2 ** 40):
                        try:
                            r = eval_expr(a[1][1], lambda x, ln=ln: ln if (x == inner or (isinstance(x, tuple) and len(x) > 2 and x[0] == 'call' and x[1] == 'len')) else None)
                        except ArithPanic:
                            r = None
                        vals[ln] = r
                    if any(v is None for v in vals.values()):
                        continue
                    taken = a[2] == 'true'
                    on_path = {ln: (bool(v) == taken) for ln, v in vals.items()}
                    if on_path[0] and not on_path[lim + 1] and not on_path[2 ** 40]:
                        guarded = True
                out.ob('R15.1', '%s / `%s`' % (key, sym.vstr(c)[:70]), guarded,
                       'a length is narrowed with `as %s` on a path that does not exclude values above %d: the count written would be truncated' % (c[1], lim), loc)
    return n


def run(cx, out):
    out.rule('R15.1', 'narrowing casts of length-derived values are guarded by a range check (or replaced by try_from)')
    out.rule('R15.2', 'append reads / sizes / writes the count with the Compact<u32> codec; decode failure and overflow -> Err')
    out.rule('R15.3', 'in-place rewrite iff equal prefix lengths, exactly vec[..old]; otherwise new prefix + vec[old..]; empty -> prefix alone')
    out.rule('R15.4', 'items encoded in iteration order into the same buffer; both EncodeAppend impls call the routine unchanged')
    for cfg in lib_cfgs(cx, quick=('D',), thorough=('A', 'B', 'D')):
        facts = cx.facts(cfg)
        unit(out, facts)
        S = shape.Shapes(facts)
        n_casts = 0
        n_terms = 0
        # ---- R15.1 over all encoders
        for i in facts.impls_of('Encode'):
            src = S.source_term(i)
            if not src or src[0] == 'none':
                continue
            n_terms += 1
            m, term, fn = src
            n_casts += check_casts_on_term(out, 'cast in %s [%s]' % (fkey(fn), cfg), term, {}, fn['loc'])
        f = facts.by_path.get('encode_append::append_or_new_impl')
        if not f:
            out.fail('R15.2', 'append_or_new_impl [%s]' % cfg, 'function not found (anchor missing)', '-')
            continue
        ev = sym.Evaluator(facts)
        ev.emit_sinkw = True
        ctx = sym.Ctx(ev, f)
        ctx.env[f['params'][0]['v']] = ('sink', 'vec')
        ctx.sinks['vec'] = []
        ctx.sink_kind['vec'] = ('vec', None)
        ctx.env[f['params'][1]['v']] = ('param', 'iter', None)
        v, t = ev.ev(f['thir'], ctx)
        key = 'append_or_new_impl [%s]' % cfg
        if sym.has_opaque(t):
            out.fail('R15.2', key, 'unrecognised construct: ' + sym.has_opaque(t)[0][1], sym.has_opaque(t)[0][2])
            continue
        n_casts += check_casts_on_term(out, 'cast in append_or_new_impl [%s]' % cfg, t, ctx.sinks, f['loc'])
        out.count('narrowing length casts examined [%s]' % cfg, n_casts)
        out.floor('R15.1', 'encoder terms scanned for narrowing casts [%s]' % cfg, n_terms, 60)
        s = sym.tstr(t)
        its = items(t)
        why2, why3, why4 = [], [], []
        top = [x for x in its if x[0] == 'alt']
        if not top or sym.vstr(top[0][1][1]) != 'is_empty(sinkvec)':
            why3.append('no branch on the input being empty')
        else:
            arms = dict(top[0][2])
            # empty input: the prefix of the item count alone
            e_arm = arms['true']
            okp = [x for x in sym.walk(e_arm) if shape._is_count_helper(x)]
            first_sink = ctx.sinks['vec'][0] if ctx.sinks['vec'] else None
            # the count helper (any spelling of the range check: `as u32` under a guard, `u32::try_from`) applied to the
            # number of items of the iterator
            cnt = shape._count_of_helper(okp[0][2]) if okp else None
            if not okp or not first_sink or first_sink[0] != 'enc' or first_sink[1] != 'compact::Compact<u32>' or \
                    cnt is None or sym.vstr(cnt) not in ('into_iter(iter)', 'len(into_iter(iter))'):
                why3.append('empty input does not write Compact(item count) alone')
            ne = arms['false']
            nes = sym.tstr(ne)
            old = 'conv(try(decode(index(sinkvec, RangeFull::RangeFull{}))))'
            decs = []
            contains(('scrutinees',) + tuple([(x[1][1] if (isinstance(x[1], tuple) and x[1] and x[1][0] == 'if') else x[1]) for x in sym.walk(ne) if x[0] == 'alt']),
                     lambda y: (decs.append(y) or False) if (isinstance(y, tuple) and len(y) > 5 and y[0] == 'call' and y[1] == 'decode' and y[5] == 'Decode') else False)
            if not any(d[4] and d[4][0] == 'compact::Compact<u32>' for d in decs):
                why2.append('old count is not read with Compact<u32>::decode')
            # ... on EVERY path over non-empty input: a path that neither fails nor rewrites the prefix (in place or into the
            # new buffer) has accepted the input without validating or updating its count
            for p_ in paths(ne):
                if p_ and p_[-1][0] in ('ERR', '?ERR', 'PANIC'):
                    continue
                if not any(e[0] == 'MUTCALL' and e[1] in ('copy_from_slice', 'extend_from_slice') for e in p_):
                    why2.append('a path over non-empty input neither fails nor rewrites the count prefix (the old count is not validated there)')
                    break
            if 'try(decode(' not in nes:
                why2.append('failure to decode the old count is not propagated')
            # sum: checked_add(old, try_from(len)) -> ok_or -> ?
            chk = [e for e in events(ne) if e[0] == 'CHECK']
            sums = [e for e in chk if 'checked_add(' in sym.vstr(e[2])]
            if not sums:
                # the same propagation spelled as a match: `match old.checked_add(n) { Some(c) => c, None => return Err(..) }`
                for x in sym.walk(ne):
                    if x[0] == 'alt' and not (isinstance(x[1], tuple) and x[1] and x[1][0] == 'if') and 'checked_add(' in sym.vstr(x[1]):
                        arms_ = {(d[1] if isinstance(d, tuple) and len(d) > 1 else str(d)): a for d, a in x[2]}
                        none_arm = arms_.get('None')
                        some_arm = arms_.get('Some')
                        if none_arm is not None and some_arm is not None:
                            ne_ev = events(none_arm)
                            if ne_ev and ne_ev[-1][0] == 'ERR' and not (events(some_arm) and events(some_arm)[-1][0] == 'ERR'):
                                sums.append(['CHECK', 'match', x[1]])
            if not sums:
                why2.append('new count is not computed with checked_add(..).ok_or(..)?')
            else:
                sv = sym.vstr(sums[0][2])
                if 'wrapping_add' in sv or 'saturating_add' in sv:
                    why2.append('count addition is not checked')
                # the number of items enters the sum through a conversion whose failure propagates: a fallback value
                # (`try_from(n).unwrap_or(u32::MAX)`), a clamp or a cast would add a wrong number for n > u32::MAX
                if any(w in sv for w in ('unwrap_or', 'saturating_', 'wrapping_', 'min(', 'clamp(', ' as u32')):
                    why2.append('the number of appended items enters the sum through a saturating / defaulting conversion instead of a checked one')
                if not ('try_from(len(into_iter(iter)))' in sv or 'len(into_iter(iter))' in sv):
                    why2.append('added count is not the number of items of the iterator')
            inner = [x for x in sym.walk(ne) if x[0] == 'alt']
            br = [x for x in inner if 'compact_len(' in sym.vstr(x[1][1])]
            if not br:
                why3.append('no comparison of the two prefix lengths')
            else:
                c = strip(br[0][1][1])
                okc = isinstance(c, tuple) and c[0] == 'bin' and c[1] == 'Eq'
                if okc:
                    l, r = sym.vstr(c[2]), sym.vstr(c[3])
                    oldl = 'compact_len(%s)' % old
                    okc = {l.startswith('compact_len('), r.startswith('compact_len(')} == {True} and (l == oldl or r == oldl) and l != r
                    # both through CompactLen<u32> for Compact<u32>
                    for side in (strip(c[2]), strip(c[3])):
                        if not (side[0] == 'call' and side[5] == 'CompactLen' and side[4] and side[4][0] == 'compact::Compact<u32>'):
                            okc = False
                if not okc:
                    why3.append('in-place branch condition is not `old prefix length == new prefix length`: ' + sym.vstr(c)[:160])
                ba = dict(br[0][2])
                inpl = [e for e in events(ba.get('true', ['eps'])) if e[0] == 'MUTCALL' and e[1] == 'copy_from_slice']
                if len(inpl) != 1:
                    why3.append('in-place branch does not overwrite the prefix once')
                else:
                    dst, srcv = sym.vstr(inpl[0][3][0]), strip(inpl[0][3][1])
                    sv_ = slice_view(inpl[0][3][0])
                    if dst != 'index_mut(sinkvec, RangeTo::RangeTo{0: compact_len(%s)})' % old and \
                            not (sv_ is not None and view_str(sv_) in ('sinkvec[0..compact_len(%s)]' % old, 'sinkvec[0:usize..compact_len(%s)]' % old)):
                        why3.append('in-place branch does not overwrite exactly vec[..old_prefix_len]: ' + dst[:120])
                    if not (isinstance(srcv, tuple) and srcv[0] == 'cbarg' and srcv[1] == 'compact::Compact<u32>' and 'checked_add' in sym.vstr(srcv[2])):
                        why3.append('in-place branch does not write the encoding of Compact(new count)')
                other = ba.get('false', ['eps'])
                ext = [e for e in events(other) if e[0] == 'MUTCALL' and e[1] == 'extend_from_slice']
                if len(ext) != 1 or sym.vstr(ext[0][3][1]) != 'index(sinkvec, RangeFrom::RangeFrom{0: compact_len(%s)})' % old:
                    why3.append('reallocating branch does not copy exactly vec[old_prefix_len..]')
                else:
                    nsink = strip(ext[0][3][0])
                    evs = ctx.sinks.get(nsink[1], []) if nsink[0] == 'sink' else []
                    if not (evs and evs[0][0] == 'enc' and evs[0][1] == 'compact::Compact<u32>' and 'checked_add' in sym.vstr(evs[0][2])):
                        why3.append('reallocating branch does not start the new buffer with Compact(new count)')
                    sets = [e for e in events(other) if e[0] == 'SET']
        # R15.4
        stars = [x for x in its if x[0] == 'star']
        sink_items = [e for e in ctx.sinks['vec'] if e[0] == 'enc' and e[1] == 'Item']
        if len(stars) != 1 or sym.vstr(stars[0][1]) != 'into_iter(iter)' or len(sink_items) != 1 or sym.vstr(sink_items[0][2]) != 'elem(into_iter(iter))':
            why4.append('items are not encoded one by one, in iteration order, into the buffer')
        if sym.vstr(v) != 'Ok(sinkvec)':
            why4.append('does not return the buffer: ' + sym.vstr(v))
        out.ob('R15.2', key, not why2, '; '.join(why2), f['loc'], sample={'term': s[:400]})
        out.ob('R15.3', key, not why3, '; '.join(why3), f['loc'])
        out.ob('R15.4', key, not why4, '; '.join(why4), f['loc'])
        n = 0
        for g in facts.methods('EncodeAppend', 'append_or_new'):
            n += 1
            ev2 = sym.Evaluator(facts)
            ev2.inline_effectful = False     # the forwarding call itself is what is checked here
            c2 = sym.Ctx(ev2, g)
            for p in g['params']:
                c2.env[p['v']] = ('param', p['name'], None)
            v2, t2 = ev2.ev(g['thir'], c2)
            ok = sym.vstr(v2) == 'append_or_new_impl(self_encoded, iter)' and t2 == ['eps']
            out.ob('R15.4', '%s [%s]' % (fkey(g), cfg), ok, 'does not call append_or_new_impl(self_encoded, iter): ' + sym.vstr(v2), g['loc'])
        out.floor('R15.4', 'EncodeAppend impls [%s]' % cfg, n, 2)
    # premises: the in-place rewrite takes the new prefix from Compact<u32>::using_encoded over the fixed-buffer sink
    # (C07 R07.1 all entry points agree, R07.3 sinks append exactly what they are given); "input that does not begin with a
    # valid count is rejected" and the prefix widths are the compact reader / writer tables (C04 R04.1, R04.2)
    from . import shared
    # "any item type (including alias forms)": the appended items are written by the encoders of types declared
    # EncodeLike<T>; that each such declaration joins two types with the same wire shape is C16 R16.1
    shared.premises(cx, out, {'c07': {'R07.1', 'R07.3'}, 'c04': {'R04.1', 'R04.2'}, 'c16': {'R16.1'}})
    from . import positive
    positive.check(cx, out, 'C15')
