"""C04 — compact integers: canonical, minimal, width-compatible bijection (DESIGN §6 C04)."""
from .common import *
from .. import shape, types as T

LEVEL = 'other'
EXPLANATION = (
    'The tables that define the compact format must agree wherever they are written down. R04.1 (writer): from the '
    'range patterns of the five CompactRef<uN> encoders and the five compact_len functions (typed THIR, first-match '
    'semantics): mode k is used exactly on I_k = [0,2^6-1], [2^6,2^14-1], [2^14,2^30-1], rest, clipped to the width '
    'and identical across widths; the value written in mode k is (x << 2) | k as u8/u16/u32 (structure of the arm '
    'expression), big-integer mode writes 0b11 + ((n-4) << 2) then n little-endian bytes with n = W/8 - '
    'leading_zeros/8; the length function returns 1/2/4/(5 | n+1) on the same intervals. R04.2 (reader): the '
    'decoder dispatches on prefix % 4; abstractly executing each decoder term at the boundary values of every '
    'threshold (and at every first byte for the big-integer mode) the accepted set is exactly I_k intersected with '
    'the width — lower bound = previous mode\'s upper bound (canonical), upper bound = the width (not over-wide), '
    'byte counts outside 4..=W/8 rejected, no-leading-zero threshold 2^(8(n-1))-1 for every n. R04.4 ArrayVec '
    'capacities 2/4/5/9/17 = maxima of the length table = MaxEncodedLen constants. R04.5 PrefixInput hands out the '
    'prefix byte first exactly once, then forwards; empty reads change nothing.')
ASSUMPTIONS = ['shift / or / little-endian conversion semantics inside a mode (arithmetic identity, not decided)',
               'leading_zeros lemma: W/8 - lz/8 is the minimal byte length of a non-zero value']

WIDTHS = {'u8': 8, 'u16': 16, 'u32': 32, 'u64': 64, 'u128': 128}
BOUNDS = [63, 16383, (1 << 30) - 1]


def arm_intervals(arms, wmax):
    """first-match semantics over integer patterns; returns [(lo, hi)] per arm"""
    out = []
    covered_to = -1
    for d, x in arms:
        if not (isinstance(d, tuple) and d[0] == 'pat'):
            return None
        if d[2] is None:
            out.append((covered_to + 1, wmax))
            covered_to = wmax
            continue
        lo, hi = d[2][0]
        if len(d[2]) != 1:
            return None
        elo = max(lo, covered_to + 1)
        out.append((elo, min(hi, wmax)))
        covered_to = max(covered_to, hi)
    return out


def expected_intervals(wmax):
    exp = []
    lo = 0
    for b in BOUNDS:
        if lo > wmax:
            break
        exp.append((lo, min(b, wmax)))
        lo = b + 1
    if lo <= wmax:
        exp.append((lo, wmax))
    return exp


def _mode_value_ok(v, mode, prim, self_ty):
    """arm expression is ((x [as P]) << 2) [| mode] with x = *self.0"""
    v = strip(v)
    want_ty = {0: 'u8', 1: 'u16', 2: 'u32'}[mode]

    def is_x(a):
        a = strip(a)
        if isinstance(a, tuple) and a[0] == 'cast':
            return a[1] == want_ty and is_x(a[2])
        if isinstance(a, tuple) and a[0] == 'conv':
            return is_x(a[1])
        return isinstance(a, tuple) and a[0] == 'field' and strip(a[1]) == ('self',)

    def is_shl2(a):
        a = strip(a)
        if isinstance(a, tuple) and a[0] == 'bin' and a[1] == 'Shl':
            r = strip(a[3])
            return is_x(a[2]) and isinstance(r, tuple) and r[0] == 'lit' and r[1] == 2
        if isinstance(a, tuple) and a[0] == 'call' and a[1] == 'shl':
            r = strip(a[3][1])
            return is_x(a[3][0]) and isinstance(r, tuple) and r[0] == 'lit' and r[1] == 2
        return False

    if mode == 0:
        return is_shl2(v)
    if isinstance(v, tuple) and v[0] == 'bin' and v[1] == 'BitOr':
        r = strip(v[3])
        return is_shl2(v[2]) and isinstance(r, tuple) and r[0] == 'lit' and r[1] == mode
    return False


def ref_mode(x):
    return 0 if x <= 63 else 1 if x <= 16383 else 2 if x <= (1 << 30) - 1 else 3


def ref_len(x):
    if x <= 63:
        return 1
    if x <= 16383:
        return 2
    if x <= (1 << 30) - 1:
        return 4
    return 1 + max(4, (x.bit_length() + 7) // 8)


def _is_counter_star(e, nval_of):
    """loop running exactly n times: `for _ in 0..n` or `while i < n { ..; i += 1 }`; returns the bound value"""
    src = strip(e[1])
    if isinstance(src, tuple) and src[0] == 'adt' and src[1].endswith('ops::range::Range'):
        lo = strip([v for i_, v in src[3] if i_ == 0][0])
        hi = strip([v for i_, v in src[3] if i_ == 1][0])
        if isinstance(lo, tuple) and lo[0] == 'lit' and lo[1] == 0:
            return hi, e[2]
        return None, None
    if src == ('loop',):
        its = items(e[2])
        alts = [x for x in its if x[0] == 'alt']
        if len(alts) == 1 and len(its) == 1 and isinstance(alts[0][1], tuple) and alts[0][1][0] == 'if':
            c = strip(alts[0][1][1])
            arms = dict(alts[0][2])
            if isinstance(c, tuple) and c[0] == 'bin' and c[1] == 'Lt' and strip(c[2])[0] == 'mutvar' and arms.get('false') in (['eps'], None):
                ctr = strip(c[2])
                init = strip(ctr[3])
                sets = [x for x in events(arms['true']) if x[0] == 'SET' and strip(x[1])[:2] == ctr[:2]]
                if isinstance(init, tuple) and init[0] == 'lit' and init[1] == 0 and len(sets) == 1 and sets[0][3] == 'AddAssign' and sym.vstr(sets[0][2]).startswith('1:'):
                    body = cat(*[x for x in items(arms['true']) if not (x[0] == 'SET' and strip(x[1])[:2] == ctr[:2])])
                    return c[3], body
    return None, None


def check_encoders(out, facts, S):
    cfg = facts.cfg
    caps = {}
    for prim, bits in WIDTHS.items():
        wmax = (1 << bits) - 1
        i = [i for i in facts.impls_of('Encode') if i['self'] == "compact::CompactRef<'_, %s>" % prim]
        key = 'CompactRef<%s>::encode_to [%s]' % (prim, cfg)
        if not i:
            out.fail('R04.1', key, 'impl not found (anchor missing)', '-')
            continue
        i = i[0]
        ms = S.methods_of(i)
        f = ms.get('encode_to')
        if not f:
            out.fail('R04.1', key, 'encode_to not overridden', i['loc'])
            continue
        t, v, ev = wire.infer_encoder_method(facts, f, S.ev)
        why = []
        n_eval = 0
        for x in probes_for(bits):
            if x > wmax:
                continue

            def leaf(val, x=x):
                val = strip(val)
                if isinstance(val, tuple) and val[0] == 'field' and strip(val[1]) == ('self',):
                    return x
                return None
            evs, st = trace(t, leaf)
            n_eval += 1
            mode = ref_mode(x)
            outs = [e for e in evs if e[0] in ('byte', 'enc', 'write', 'star', 'prim_le')]
            if st == 'AMBIG':
                why.append('value %d: the encoder\'s branch conditions cannot be decided' % x)
                continue
            if st == 'PANIC':
                why.append('value %d: a panic is reachable' % x)
                continue
            if mode <= 2:
                okm = len(outs) == 1
                # the value written is (x << 2) | mode, however it is computed (shift, multiplication, named constants)
                def _val(expr):
                    try:
                        return eval_expr(expr, leaf)
                    except ArithPanic:
                        return None
                if okm and mode == 0:
                    okm = outs[0][0] == 'byte' and _val(outs[0][1]) == (x << 2)
                elif okm:
                    okm = outs[0][0] == 'enc' and outs[0][1] == {1: 'u16', 2: 'u32'}[mode] and _val(outs[0][2]) == ((x << 2) | mode)
                if not okm:
                    why.append('value %d (mode %d) is not written as ((x << 2) | %d) in %s: %s' % (x, mode, mode, {0: 'one byte', 1: 'a u16', 2: 'a u32'}[mode], ' · '.join(sym.tstr(e) for e in outs)[:120]))
            elif prim == 'u32':
                okm = [e[0] for e in outs] == ['byte', 'enc'] and outs[1][1] == 'u32' and strip(outs[1][2])[0] == 'field'
                if okm:
                    try:
                        okm = eval_expr(outs[0][1], leaf) == 3      # a literal, a named constant, an expression: its value
                    except ArithPanic:
                        okm = False
                if not okm:
                    why.append('value %d: big-integer mode of u32 is not byte 0b11 followed by the 4 LE bytes' % x)
            else:
                n_ref = max(4, (x.bit_length() + 7) // 8)
                okm = len(outs) == 2 and outs[0][0] == 'byte' and outs[1][0] == 'star'
                if okm:
                    tag = None
                    try:
                        tag = eval_expr(outs[0][1], leaf)
                    except ArithPanic:
                        tag = None
                    bound, body = _is_counter_star(outs[1], None)
                    le_prefix = False
                    if bound is None:
                        # `x.to_le_bytes().iter().take(n).for_each(|b| dest.push_byte(*b))`: the first n little-endian bytes
                        src_ = strip(outs[1][1])
                        if isinstance(src_, tuple) and src_ and src_[0] == 'call' and src_[1] == 'take' and len(src_[3]) == 2:
                            inner_ = strip(src_[3][0])
                            for _ in range(4):
                                if isinstance(inner_, tuple) and inner_ and inner_[0] == 'call' and inner_[1] in ('iter', 'into_iter', 'copied') and inner_[3]:
                                    inner_ = strip(inner_[3][0])
                                elif isinstance(inner_, tuple) and inner_ and inner_[0] == 'mutvar':
                                    inner_ = strip(inner_[3])
                                else:
                                    break
                            bevs_ = [e for e in events(outs[1][2]) if e[0] in ('byte', 'SET', 'enc', 'write')]
                            if isinstance(inner_, tuple) and inner_ and inner_[0] == 'call' and inner_[1] == 'to_le_bytes' and inner_[3] and \
                                    isinstance(strip(inner_[3][0]), tuple) and strip(inner_[3][0])[0] == 'field' and strip(strip(inner_[3][0])[1]) == ('self',) and \
                                    len(bevs_) == 1 and bevs_[0][0] == 'byte' and strip(bevs_[0][1])[0] == 'elem':
                                bound, body, le_prefix = src_[3][1], outs[1][2], True
                    nval = None
                    if bound is not None:
                        try:
                            nval = eval_expr(bound, leaf)
                        except ArithPanic:
                            nval = None
                    okm = tag == 3 + ((n_ref - 4) << 2) and nval == n_ref
                    if okm and not le_prefix:
                        bevs = [e for e in events(body) if e[0] in ('byte', 'SET', 'enc', 'write')]
                        okm = len(bevs) == 2 and bevs[0][0] == 'byte' and sym.vstr(bevs[0][1]) == '(mut v as u8)' and bevs[1][0] == 'SET' and \
                            bevs[1][3] == 'ShrAssign' and sym.vstr(bevs[1][2]).startswith('8:') and sym.vstr(bevs[1][1]) == 'mut v'
                        mv = strip(bevs[1][1]) if okm else None
                        okm = okm and isinstance(strip(mv[3]), tuple) and strip(mv[3])[0] == 'field'
                if not okm:
                    why.append('value 0x%x: big-integer mode is not tag 0b11 + ((n-4) << 2) with n = %d followed by n bytes `v as u8; v >>= 8`' % (x, n_ref))
        out.ob('R04.1', key, not why, '; '.join(sorted(set(why))[:3]), f['loc'], sample={'evaluations': n_eval, 'term': sym.tstr(t)[:300]})
        out.count('encoder mode evaluations', n_eval)
        # using_encoded buffer capacity (R04.4)
        ue = ms.get('using_encoded')
        if ue:
            t2, v2, _ = wire.infer_encoder_method(facts, ue, S.ev)
            cap = None
            from .c08 import _walk_thir
            for node, _p in _walk_thir(ue['thir'], [], ue):
                if node.get('k') == 'call' and node.get('name') == 'new' and 'ArrayVec' in node.get('fa', ''):
                    import re
                    # the arrayvec itself, or the crate's wrapper of it through a private constructor
                    m = re.search(r'ArrayVec::<u8, (\d+)', node['fa']) or re.search(r'ArrayVecWrapper::<(\d+)>', node['fa'])
                    if m:
                        cap = int(m.group(1))
            caps[prim] = cap
            need = {'u8': 2, 'u16': 4, 'u32': 5, 'u64': 9, 'u128': 17}[prim]
            out.ob('R04.4', 'CompactRef<%s>::using_encoded buffer [%s]' % (prim, cfg), cap is not None and cap >= need and shape._is_self_forward(t2),
                   'fixed buffer of %s bytes cannot hold the %d-byte maximum (or using_encoded no longer re-enters encode_to)' % (cap, need), ue['loc'])
        else:
            out.fail('R04.4', 'CompactRef<%s>::using_encoded [%s]' % (prim, cfg), 'not overridden', '-')
    return caps


def check_lengths(out, facts):
    cfg = facts.cfg
    for prim, bits in WIDTHS.items():
        wmax = (1 << bits) - 1
        fl = [f for f in facts.methods('CompactLen', 'compact_len') if f['self'] == 'compact::Compact<%s>' % prim]
        key = 'Compact<%s>::compact_len [%s]' % (prim, cfg)
        if not fl:
            out.fail('R04.1', key, 'not found (anchor missing)', '-')
            continue
        f = fl[0]
        ev = sym.Evaluator(facts)
        ctx = sym.Ctx(ev, f)
        ctx.env[f['params'][0]['v']] = ('param', 'val', None)
        v, t = sym.fn_value(ev, f, ctx)
        why = []
        if sym.has_opaque(t) or [e for e in events(t) if e[0] in ('PANIC', 'ERR')]:
            why.append('length function has effects / unrecognised constructs')
        ps = [x for x in probes_for(bits) if x <= wmax] + [x for x in ((1 << 40) - 1, 1 << 40, (1 << 44), (1 << 48) - 1, 1 << 48, (1 << 56) - 1, 1 << 56,
                                                                    (1 << 64) - 1, 1 << 64, (1 << 72) + 5, (1 << 120) - 1, 1 << 120, (1 << 128) - 1) if x <= wmax]
        for x in ps:
            try:
                r = eval_expr(v, lambda val, x=x: x if (isinstance(val, tuple) and val[:2] == ('param', 'val')) else None)
            except ArithPanic as ex:
                why.append('value %d: %s' % (x, ex))
                continue
            if r is None:
                why.append('length of value %d cannot be evaluated: %s' % (x, sym.vstr(v)[:80]))
                break
            if r != ref_len(x):
                why.append('compact_len(0x%x) is %s but the encoder emits %d bytes' % (x, r, ref_len(x)))
        out.ob('R04.1', key, not why, '; '.join(why[:3]), f['loc'], sample={'probes': len(ps)})


def probes_for(bits):
    wmax = (1 << bits) - 1
    ps = set()
    for b in BOUNDS + [wmax, 255, 65535, 65536, (1 << 32) - 1, 0x14000, 0x13fff, 0x1ffff]:
        for d in (-1, 0, 1, 2):
            ps.add(b + d)
    ps |= {0, 1, 2}
    return sorted(p for p in ps if p >= 0)


def check_decoders(out, facts, D):
    cfg = facts.cfg
    for prim, bits in WIDTHS.items():
        wmax = (1 << bits) - 1
        nbytes = bits // 8
        f = facts.impl_method('Decode', 'compact::Compact<%s>' % prim, 'decode')
        key = 'Compact<%s>::decode [%s]' % (prim, cfg)
        if not f:
            out.fail('R04.2', key, 'not found (anchor missing)', '-')
            continue
        t, v, ev = wire.infer_decoder_fn(facts, f)
        if sym.has_opaque(t):
            out.fail('R04.2', key, 'unrecognised construct: ' + sym.has_opaque(t)[0][1], sym.has_opaque(t)[0][2])
            continue
        its = items(t)
        why = []
        if not (len(its) >= 2 and its[0][0] == 'rb'):
            out.fail('R04.2', key, 'decoder does not start by reading the prefix byte', f['loc'])
            continue
        rb_uid = its[0][1]
        # everything after the prefix read is evaluated as a whole: how the mode dispatch is spelled (`% 4`, `& 0b11`,
        # a match, an if-chain) does not matter, only which inputs end in Ok / Err / a panic
        alt = cat(*its[1:])
        mode_alt = its[2] if len(its) >= 3 and its[2][0] == 'alt' else None
        n_eval = 0
        # ---- modes 0..2 and 4-byte / fixed big-integer forms: value probes
        for mode in (0, 1, 2, 3):
            lo = 0 if mode == 0 else BOUNDS[mode - 1] + 1
            hi = BOUNDS[mode] if mode < 3 else wmax
            for x in probes_for(bits):
                if mode == 0:
                    if x > 63:
                        continue
                    prefix = (x << 2) & 0xff
                    raw = None
                    exp_ok = True
                elif mode in (1, 2):
                    carrier = {1: 16, 2: 32}[mode]
                    if x > ((1 << carrier) - 1) >> 2:
                        continue
                    raw = (x << 2) | mode
                    prefix = raw & 0xff
                    exp_ok = lo <= x <= min(hi, wmax)
                else:
                    continue

                def leaf(val, prefix=prefix, raw=raw):
                    s = sym.vstr(val)
                    if s == 'byte#%s' % rb_uid:
                        return prefix
                    if isinstance(val, tuple) and val[0] == 'decoded' and len(val) > 3 and val[3] == 'prefixed':
                        return raw
                    return None
                r = outcomes(alt, leaf)
                n_eval += 1
                got_ok = 'OK' in r and 'ERR' not in r and 'PANIC' not in r
                if 'PANIC' in r:
                    why.append('mode %d, value %d: a panic is reachable' % (mode, x))
                elif ('OK' in r) and ('ERR' in r):
                    why.append('mode %d, value %d: acceptance could not be decided (%s)' % (mode, x, sorted(r)))
                elif got_ok != exp_ok:
                    why.append('mode %d form of value %d (0x%x) is %s by Compact<%s> but %s' % (mode, x, x, 'accepted' if got_ok else 'rejected', prim,
                               'is not the canonical form of a value of this width' if not exp_ok else 'is canonical'))
        # ---- big-integer mode: every first byte 4k+3
        for k in range(64):
            prefix = 4 * k + 3
            n = k + 4
            # candidate payload values: thresholds for this byte count
            cands = []
            if n <= 16:
                top = (1 << (8 * n)) - 1
                for x in (0, 1, (1 << (8 * (n - 1))) - 1, 1 << (8 * (n - 1)), top, (1 << 30) - 1, 1 << 30, (1 << 32) - 1, 1 << 32, (1 << 56) - 1, 1 << 56,
                          (1 << 64) - 1, (1 << 120) - 1, 1 << 120):
                    if 0 <= x <= top:
                        cands.append(x)
            else:
                cands = [0, (1 << 127)]
            for x in sorted(set(cands)):
                lo_can = max((1 << 30), (1 << (8 * (n - 1))))
                exp_ok = 4 <= n <= nbytes and x >= lo_can and x <= wmax and x < (1 << (8 * n))

                def leaf(val, prefix=prefix, x=x, n=n):
                    s = sym.vstr(val)
                    if s == 'byte#%s' % rb_uid:
                        return prefix
                    if isinstance(val, tuple) and val[0] == 'decoded' and len(val) > 3 and val[3] == 'decode':
                        return x
                    if isinstance(val, tuple) and val[0] == 'mutvar' and val[2] == 'res':
                        return x
                    return None
                r = outcomes(alt, leaf)
                n_eval += 1
                if 'PANIC' in r:
                    why.append('first byte 0x%02x (byte count %d): a panic is reachable' % (prefix, n))
                    continue
                if 'OK' in r and 'ERR' in r:
                    why.append('first byte 0x%02x, payload 0x%x: acceptance could not be decided' % (prefix, x))
                    continue
                got_ok = 'OK' in r
                if got_ok != exp_ok:
                    why.append('first byte 0x%02x (byte count %d), payload 0x%x is %s by Compact<%s> but %s' % (
                        prefix, n, x, 'accepted' if got_ok else 'rejected', prim, 'must be rejected' if not exp_ok else 'is canonical'))
        # ---- which decoder each mode uses
        modes = {}
        for d, x in (mode_alt[2] if mode_alt is not None else []):
            if isinstance(d, tuple) and d[0] == 'pat' and d[2] and len(d[2]) == 1:
                decs = [e for e in events(x) if e[0] == 'dec']
                modes[d[2][0][0]] = [(e[1], e[3]) for e in decs]
        exp_dec = {1: [('u16', 'prefixed')], 2: [('u32', 'prefixed')]}
        for m_, want in exp_dec.items():
            if m_ in modes and modes[m_] and modes[m_] != want:
                why.append('mode %d reads %s instead of a prefix-reinjected %s' % (m_, modes[m_], want[0][0]))
        # ---- result values: mode k returns x >> 2 widened without arithmetic other than the shift
        out.ob('R04.2', key, not why, '; '.join(sorted(set(why))[:4]), f['loc'], sample={'evaluations': n_eval, 'term': sym.tstr(t)[:200]})
        out.count('decoder acceptance evaluations', n_eval)


def check_prefix_input(out, facts):
    cfg = facts.cfg
    f = facts.impl_method('Input', "compact::PrefixInput<'a, T>", 'read')
    key = 'PrefixInput::read [%s]' % cfg
    if not f:
        out.fail('R04.5', key, 'not found (anchor missing)', '-')
        return
    t, v, ev = input_method_term(facts, f)
    why = []
    ps = paths(t)
    for p in ps:
        p = norm_arms(p)
        arms = [e for e in p if e[0] == 'ARM']
        empty = [a for a in arms if isinstance(a[1], tuple) and a[1][0] == 'if' and sym.vstr(a[1][1]) == 'is_empty(into)']
        # `into.split_first_mut()` is None exactly when `into` is empty: that arm is infeasible after the empty test
        if empty and empty[0][2] == 'false' and any(
                isinstance(a[1], tuple) and a[1] and a[1][0] == 'call' and a[1][1] in ('split_first_mut', 'split_first', 'first_mut', 'first') and
                sym.vstr(a[1][3][0]) == 'into' and isinstance(a[2], tuple) and a[2][1] == 'None' for a in arms):
            continue
        if not empty:
            why.append('no empty-buffer test')
            continue
        if empty[0][2] == 'true':
            if any(e[0] in ('MUTCALL', 'SET', 'read', 'rb') for e in p):
                why.append('an empty read changes state')
            continue
        take = [e for e in p if e[0] == 'MUTCALL' and e[1] == 'take']
        pset = [e for e in p if e[0] == 'SET' and sym.vstr(e[1]) == 'self.prefix']
        some = [a for a in arms if not (isinstance(a[1], tuple) and a[1][0] == 'if')]
        on_some = bool(some and isinstance(some[0][2], tuple) and some[0][2][1] == 'Some')
        # the pending byte is consumed exactly once on the path that delivers it: `take()`, or reading the field and
        # assigning None; the path without a pending byte leaves the field alone (a take() of None is a no-op)
        by_take = len(take) == 1 and sym.vstr(take[0][3][0]) == 'self.prefix' and not pset
        by_assign = not take and len(pset) == 1 and pset[0][3] is None and sym.vstr(pset[0][2]) in ('Option::None{}', 'None')
        if on_some and not (by_take or by_assign):
            why.append('prefix is not consumed exactly once (take(), or read + `= None`)')
        if not on_some and (pset or len(take) > 1 or (take and sym.vstr(take[0][3][0]) != 'self.prefix')):
            why.append('the path without a pending prefix byte modifies the prefix')
        reads = [e for e in p if e[0] == 'read']
        if len(reads) != 1:
            why.append('a path forwards %d reads' % len(reads))
            continue
        if some and isinstance(some[0][2], tuple) and some[0][2][1] == 'Some':
            sets = [e for e in p if e[0] == 'SET' and sym.vstr(e[1]) != 'self.prefix']
            first_ok = len(sets) == 1 and sym.vstr(sets[0][1]) in ('into[0:usize]', 'split_first_mut(into).Some.0.0') and (
                'take(self.prefix).Some.0' in sym.vstr(sets[0][2]) or 'self.prefix.Some.0' in sym.vstr(sets[0][2]))
            if not first_ok:
                why.append('prefix byte is not written to buffer[0]')
            rest_ok = view_str(slice_view(reads[0][1])) == 'into[1:usize..]' or sym.vstr(reads[0][1]) == 'split_first_mut(into).Some.0.1'
            if not rest_ok:
                why.append('rest of the buffer is not buffer[1..]: ' + sym.vstr(reads[0][1]))
        else:
            if sym.vstr(reads[0][1]) != 'into':
                why.append('without a pending prefix the whole buffer must be forwarded')
    out.ob('R04.5', key, not why, '; '.join(sorted(set(why))), f['loc'], sample={'term': sym.tstr(t)})
    g = facts.impl_method('Input', "compact::PrefixInput<'a, T>", 'remaining_len')
    if g:
        t, v, ev = input_method_term(facts, g)
        rem = [e for e in events(t) if e[0] == 'REMLEN']
        ok = False
        if len(rem) == 1:
            # meaning, not spelling: Some(n) of the wrapped input becomes Some(n saturating+ pending prefix bytes), None stays
            # None; the remaining length is used nowhere else
            rv = sym.vstr(v)
            summed = 'saturating_add(remaining#%s.Some.0, count(iter(self.prefix)))' % rem[0][1]
            uses = rv.count('remaining#%s' % rem[0][1])
            tests = rv.count('= remaining#%s' % rem[0][1]) + rv.count('match remaining#%s' % rem[0][1])
            ok = rv.count(summed) == 1 and ('Some(' + summed + ')') in rv and 'None' in rv and uses == 1 + tests and rv.startswith(('Ok(', 'match', 'if'))
            if not ok:
                # other spellings (`Option::map`, `usize::from(prefix.is_some())`): the value is a function of the wrapped
                # input's answer applied through map / a match, adding 1 exactly when a prefix byte is pending
                import re as _re
                u_ = rem[0][1]
                pend = r'(count\(iter\(self\.prefix\)\)|conv\(is_some\(self\.prefix\)\)|\(is_some\(self\.prefix\) as usize\))'
                pat_ = r'^Ok\((Ok\()?(Some\()?saturating_add\((unwrap\(remaining#%s\)|remaining#%s\.Some\.0), %s\)\)*$' % (u_, u_, pend)
                mapped = contains(v, lambda x: isinstance(x, tuple) and x and x[0] == 'call' and x[1] == 'map') or 'unwrap(remaining#' in rv
                ok = bool(_re.match(pat_, rv)) and uses == 1 and (mapped or 'None' in rv)
        out.ob('R04.5', 'PrefixInput::remaining_len [%s]' % cfg, ok, 'remaining_len does not add the pending prefix byte: ' + sym.vstr(v), g['loc'])


def check_mel_constants(out, facts, caps):
    cfg = facts.cfg
    for prim, need in (('u8', 2), ('u16', 4), ('u32', 5), ('u64', 9), ('u128', 17)):
        fl = [f for f in facts.methods('MaxEncodedLen', 'max_encoded_len') if f['self'] == 'compact::Compact<%s>' % prim]
        if not fl:
            continue
        ev = sym.Evaluator(facts)
        v, t = ev.ev(fl[0]['thir'], sym.Ctx(ev, fl[0]))
        v = strip(v)
        val = eval_expr(v, lambda a: None) if t == ['eps'] else None       # the value of a constant expression, however spelled
        if isinstance(val, bool):
            val = None
        out.ob('R04.4', 'MaxEncodedLen of Compact<%s> [%s]' % (prim, cfg), val == need and (caps.get(prim) is None or caps[prim] >= need),
               'declared maximum %s, length table maximum %d, buffer %s' % (val, need, caps.get(prim)), fl[0]['loc'])


def run(cx, out):
    out.rule('R04.1', 'writer and length tables: mode intervals, per-mode value structure and lengths, identical across widths')
    out.rule('R04.2', 'reader acceptance = writer emission: canonical lower bounds, width upper bounds, byte-count range, no-leading-zero thresholds (abstract execution at boundary values / every first byte)')
    out.rule('R04.4', 'fixed buffers and MaxEncodedLen constants >= table maxima')
    out.rule('R03.3', 'panic-site census over the MIR of the compact module (rule of C03)')
    out.rule('R04.5', 'PrefixInput: prefix first exactly once, then forward; empty reads are no-ops')
    from .. import decshape
    for cfg in lib_cfgs(cx):
        facts = cx.facts(cfg)
        unit(out, facts)
        S = shape.Shapes(facts)
        caps = check_encoders(out, facts, S)
        check_lengths(out, facts)
        check_decoders(out, facts, None)
        check_prefix_input(out, facts)
        check_mel_constants(out, facts, caps)
        # no arithmetic / shift / bounds panic is reachable in the compact decoders and PrefixInput (C03 R03.3, restricted
        # to the compact module): the abstract execution of R04.2 follows the values that are used, this covers the rest
        from . import panics
        from .. import facts as _fm
        panics.check_panics(out, facts, _fm.repo_root(), only_fns=lambda f: f['path'].startswith('compact::') or '<compact::' in f['path'] or ' compact::' in f['path'])
    # premises: everything that reads a compact through another entry point uses the same acceptance: the length peek
    # (C18 R18.1 reads exactly the Compact<u32> count) and any skip override (C18 R18.2 mirrors decode)
    from . import shared
    # ... and the advertised maximum lengths of the compact types (incl. the blanket impl for CompactAs wrappers) are at
    # least the table maxima (C13 R13.1, the general form of R04.4)
    # ... and the fixed buffer behind using_encoded appends exactly what it is given (C07 R07.3), so all entry points of the
    # compact encoders produce the bytes the tables describe (R07.1)
    # "accepts a byte string iff ..." is decided from the bytes an input delivers: every provided input delivers exactly its
    # bytes or fails, without panicking (C08 R08.2 read_byte overrides forward or are audited, R08.3 refusal decisions)
    shared.premises(cx, out, {'c18': {'R18.1', 'R18.2'}, 'c13': {'R13.1'}, 'c07': {'R07.1', 'R07.3'}, 'c08': {'R08.2', 'R08.3'}})

