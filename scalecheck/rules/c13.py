"""C13 — declared maximum / constant / fixed encoded lengths are true (DESIGN §6 C13)."""
from .common import *
from .. import shape, types as T

LEVEL = 'other'
EXPLANATION = (
    'The length of an encoding is a function of its wire shape. R13.1: for each MaxEncodedLen impl the declared bound '
    '(its body, interpreted abstractly as a max-plus expression over the symbols MEL(P) of the impl\'s type parameters, '
    'size_of of primitives, literals, saturating sums/products/max) is compared with maxlen(W(Self)) computed from the '
    'wire shape of the type\'s own Encode impl, at several generic valuations of the symbols (so that every arm of '
    'every max is the larger one at some point); the declared bound must be >= the shape bound (they are equal on '
    'the pinned tree); no impl may exist for a type whose shape contains Seq/BitSeq. R13.3: the shape of every '
    'ConstEncodedLen type has no alternatives, sequences or compact integers and every type parameter it depends on '
    'is itself bounded by ConstEncodedLen. R13.4: encoded_fixed_size is overridden exactly by the multi-byte '
    'primitives, bool and [T; N]; each Some(k) equals the (constant) length of the type\'s shape.')
ASSUMPTIONS = ['C01: the inferred wire shape is the real encoding', 'size_of of primitive types', 'derived impls are covered by C05/R13.2 on the corpus']

SIZE = {'u8': 1, 'i8': 1, 'bool': 1, 'u16': 2, 'i16': 2, 'u32': 4, 'i32': 4, 'f32': 4, 'u64': 8, 'i64': 8, 'f64': 8, 'u128': 16, 'i128': 16,
        'usize': 8, 'isize': 8}
COMPACT_MAX = {'u8': 2, 'u16': 4, 'u32': 5, 'u64': 9, 'u128': 17}
INF = float('inf')


def size_of(ts):
    t = T.parse(ts)
    if t[0] == 'prim':
        return SIZE.get(t[1])
    if t[0] == 'adt' and t[1] == 'core::num::nonzero::NonZero' and t[2] and t[2][0][0] == 'prim':
        return SIZE.get(t[2][0][1])
    return None


class Num:
    """abstract interpreter of a length expression at one valuation"""

    def __init__(self, facts, shapes, val, cparams):
        self.facts = facts
        self.S = shapes
        self.val = val          # symbol name -> int   (MEL of type parameters)
        self.cparams = cparams  # const generic name -> int
        self.menv = {}
        self.depth = 0

    def mel_of_type(self, ts, fn_name='max_encoded_len'):
        t = self.S.normalize(T.parse(ts))
        if t[0] in ('param', 'proj'):
            nm = T.show(t)
            return self.val.get(nm)
        if t[0] == 'adt' and t[1] in ('compact::Compact', 'compact::CompactRef') and t[2] and t[2][0][0] in ('param', 'proj'):
            return self.val.get('compact ' + T.show(t[2][0]))
        # concrete type: its own impl
        for i in self.facts.impls_of('MaxEncodedLen'):
            pat = T.from_json(i['self_ty'])
            env = T.unify(pat, t, {g['name'] for g in i['generics']})
            if env is not None:
                f = [f for f in self.facts.methods('MaxEncodedLen', 'max_encoded_len') if f.get('impl') == i['path'] and f['self'] == i['self']]
                if not f or self.depth > 6:
                    return None
                sub = Num(self.facts, self.S, {k: self.mel_of_type(T.show(v)) for k, v in env.items() if v[0] != 'const'},
                          {k: int(v[1]) for k, v in env.items() if v[0] == 'const' and str(v[1]).isdigit()})
                sub.depth = self.depth + 1
                return sub.run_fn(f[0])
        return None

    def run_fn(self, f):
        self.cur_fn = f
        ev = sym.Evaluator(self.facts)
        ctx = sym.Ctx(ev, f)
        v, t = ev.ev(f['thir'], ctx)
        if sym.has_opaque(t):
            return None
        for e in items(t):
            if e[0] == 'SET' and strip(e[1])[0] == 'mutvar':
                mv = strip(e[1])
                cur = self.num(e[2])
                if e[3] == 'AddAssign':
                    cur = self.num(mv) + cur if cur is not None and self.num(mv) is not None else None
                elif e[3]:
                    return None
                self.menv[mv[1]] = cur
            elif e[0] in ('CFG',):
                continue
            elif e[0] in ('PANIC', 'ERR', 'alt', 'star'):
                return None
        return self.num(v)

    def num(self, v):
        v = strip(v)
        if not isinstance(v, tuple):
            return None
        k = v[0]
        if k == 'lit' and isinstance(v[1], int) and not isinstance(v[1], bool):
            return v[1]
        if k == 'const' and v[2] is not None:
            return v[2]
        if k == 'cparam':
            return self.cparams.get(v[1])
        if k == 'mutvar':
            if v[1] in self.menv:
                return self.menv[v[1]]
            return self.num(v[3])
        if k == 'cast':
            return self.num(v[2])
        if k == 'bin':
            a, b = self.num(v[2]), self.num(v[3])
            if a is None or b is None:
                return None
            # constant expressions evaluate exactly (the compiler rejects overflow in them)
            return {'Add': lambda: a + b, 'Mul': lambda: a * b, 'Sub': lambda: a - b,
                    'Shl': lambda: a << b if 0 <= b < 64 else None, 'Shr': lambda: a >> b if 0 <= b < 64 else None,
                    'Div': lambda: a // b if b > 0 and a >= 0 else None, 'Rem': lambda: a % b if b > 0 and a >= 0 else None,
                    'BitOr': lambda: a | b, 'BitAnd': lambda: a & b, 'BitXor': lambda: a ^ b}.get(v[1], lambda: None)()
        if k == 'call':
            nm = v[1]
            # a crate-private free function without value parameters that computes a length (a fragment factored out of
            # several impls): its body, with the type arguments of the call
            hf_ = self.facts.by_path.get(v[2]) if len(v) > 2 and isinstance(v[2], str) else None
            if hf_ is not None and hf_.get('thir') and hf_.get('kind') == 'Fn' and not hf_.get('params') and not v[3] and getattr(self, '_fn_depth', 0) < 4:
                ev_ = sym.Evaluator(self.facts)
                vv, tt = ev_.ev(hf_['thir'], sym.Ctx(ev_, hf_))
                if tt == ['eps']:
                    gens = [g_ if isinstance(g_, str) else g_.get('name') for g_ in (hf_.get('generics') or [])]
                    gens = [g_ for g_ in gens if g_ and not g_.startswith("'")]
                    m_ = {g: a for g, a in zip(gens, v[4] or ())}
                    if m_:
                        vv = sym.subst_types(vv, m_)
                    self._fn_depth = getattr(self, '_fn_depth', 0) + 1
                    try:
                        return self.num(vv)
                    finally:
                        self._fn_depth -= 1
            if nm == 'size_of':
                return size_of(v[4][0]) if v[4] else None
            if nm == 'max_encoded_len' and v[5] == 'MaxEncodedLen':
                return self.mel_of_type(v[4][0])
            if nm in ('saturating_add', 'saturating_mul', 'max', 'min') and len(v[3]) == 2:
                a, b = self.num(v[3][0]), self.num(v[3][1])
                if a is None or b is None:
                    return None
                return {'saturating_add': a + b, 'saturating_mul': a * b, 'max': max(a, b), 'min': min(a, b)}[nm]
            if nm in ('fold', 'sum', 'max', 'min') and v[3] and len(v[3]) in (1, 3):
                # a reduction over an array literal of lengths: `[a, b].iter().sum()`, `.fold(0, |acc, x| acc + x)`
                src = strip(v[3][0])
                for _ in range(6):
                    if isinstance(src, tuple) and src and src[0] == 'call' and src[1] in ('iter', 'into_iter', 'copied', 'cloned') and src[3]:
                        src = strip(src[3][0])
                    elif isinstance(src, tuple) and src and src[0] in ('ref', 'deref', 'coerce'):
                        src = strip(src[1])
                    else:
                        break
                if isinstance(src, tuple) and src and src[0] == 'array':
                    xs = [self.num(x) for x in src[1]]
                    if any(x is None for x in xs):
                        return None
                    if nm == 'sum':
                        return sum(xs)
                    if nm in ('max', 'min') and len(v[3]) == 1:
                        return None     # Option-valued
                    acc = self.num(v[3][1])
                    clo = strip(v[3][2])
                    if acc is None or not (isinstance(clo, tuple) and clo and clo[0] == 'closure') or getattr(self, 'cur_fn', None) is None:
                        return None
                    ev = sym.Evaluator(self.facts)
                    for x in xs:
                        r = ev.apply_closure(clo, [('lit', acc, 'usize', ()), ('lit', x, 'usize', ())], sym.Ctx(ev, self.cur_fn))
                        if not r or r[1] != ['eps']:
                            return None
                        acc = self.num(r[0])
                        if acc is None:
                            return None
                    return acc
        if k in ('ref', 'deref', 'coerce') and len(v) > 1:
            return self.num(v[1])
        return None


def wmax(w, val, cparams, S):
    k = w[0]
    if k == 'eps':
        return 0
    if k in ('byte', 'bytex'):
        return 1
    if k == 'prim':
        return SIZE.get(w[1], INF)
    if k == 'compact':
        return COMPACT_MAX[w[1]]
    if k == 'cat':
        return sum(wmax(x, val, cparams, S) for x in w[1])
    if k == 'alt':
        return max(wmax(x, val, cparams, S) for _, x in w[1])
    if k == 'var':
        return val.get(w[1], INF)
    if k == 'cvar':
        return val.get('compact ' + w[1], INF)
    if k == 'rep':
        n = cparams.get(w[2])
        if n is None and str(w[2]).isdigit():
            n = int(w[2])
        return INF if n is None else n * wmax(w[1], val, cparams, S)
    return INF


def wmin(w, val, cparams):
    k = w[0]
    if k == 'alt':
        return min(wmin(x, val, cparams) for _, x in w[1])
    if k == 'cat':
        return sum(wmin(x, val, cparams) for x in w[1])
    if k in ('seq', 'bitseq', 'compact', 'cvar'):
        return 1 if k != 'cvar' else 0
    if k == 'rep':
        n = cparams.get(w[2], 0)
        return n * wmin(w[1], val, cparams)
    return wmax(w, val, cparams, None)


def vars_of(w, acc=None):
    acc = set() if acc is None else acc
    if w[0] in ('var', 'cvar'):
        acc.add((w[0], w[1]))
    elif w[0] == 'cat':
        for x in w[1]:
            vars_of(x, acc)
    elif w[0] == 'alt':
        for _, x in w[1]:
            vars_of(x, acc)
    elif w[0] in ('seq', 'rep'):
        vars_of(w[1], acc)
    return acc


def kinds_of(w, acc=None):
    acc = set() if acc is None else acc
    acc.add(w[0])
    if w[0] == 'cat':
        for x in w[1]:
            kinds_of(x, acc)
    elif w[0] == 'alt':
        for _, x in w[1]:
            kinds_of(x, acc)
    elif w[0] in ('seq', 'rep'):
        kinds_of(w[1], acc)
    return acc


VALUATIONS = [lambda i: 3 + 7 * i, lambda i: 101 - 11 * i, lambda i: (i * i * 5 + 2) % 37 + 1]


def check_mel(out, facts, S, rule='R13.1'):
    cfg = facts.cfg
    n = 0
    for i in facts.impls_of('MaxEncodedLen'):
        key = 'impl MaxEncodedLen for %s [%s]' % (i['self'], cfg)
        fl = [f for f in facts.methods('MaxEncodedLen', 'max_encoded_len') if f.get('impl') == i['path'] and f['self'] == i['self']]
        if not fl:
            out.fail(rule, key, 'max_encoded_len not found', i['loc'])
            continue
        f = fl[0]
        st = T.from_json(i['self_ty'])
        w = S.wire_type(st)
        n += 1
        ks = kinds_of(w)
        if 'opaque' in ks:
            out.fail(rule, key, 'cannot compute the wire shape of the type: %s' % shape.wshow(w), i['loc'])
            continue
        if ks & {'seq', 'bitseq'}:
            out.fail(rule, key, 'a maximum length is declared for a type with an unbounded shape %s' % shape.wshow(w), i['loc'])
            continue
        params = [g['name'] for g in i['generics'] if g['kind'] == 'type']
        cps = [g['name'] for g in i['generics'] if g['kind'] == 'const']
        vs = sorted(vars_of(w))
        bad = None
        sample = None
        for vi, fval in enumerate(VALUATIONS):
            val = {}
            for j, p in enumerate(params):
                val[p] = fval(j)
            for j, (kd, nm) in enumerate(vs):
                if kd == 'cvar':
                    val['compact ' + nm] = fval(j + 5)
                    val['Compact<%s>' % nm] = val['compact ' + nm]
                elif nm not in val:
                    val[nm] = fval(j + 9)
            # T: CompactAs encodes compactly as T::As (the forwarding CompactRef<T: CompactAs> impl, C01/C07)
            for tp in i['tpreds']:
                if tname(tp['trait']) == 'CompactAs':
                    a, b = 'compact ' + tp['self'], 'compact <%s as CompactAs>::As' % tp['self']
                    if a in val or b in val:
                        val[a] = val[b] = val.get(a, val.get(b))
                    else:
                        val[a] = val[b] = fval(17)
            cparams = {c: 3 + vi for c in cps}
            num = Num(facts, S, val, cparams)
            declared = num.run_fn(f)
            shaped = wmax(w, val, cparams, S)
            sample = {'valuation': {k: v for k, v in val.items()}, 'declared': declared, 'maxlen(shape)': shaped, 'shape': shape.wshow(w)}
            if declared is None:
                bad = 'declared bound is not a recognised length expression'
                break
            if shaped == INF:
                bad = 'shape bound is infinite (%s)' % shape.wshow(w)
                break
            if declared < shaped:
                bad = 'declared bound %d is below the maximum length %d of the shape %s at MEL valuation %s' % (declared, shaped, shape.wshow(w), val)
                break
        out.ob(rule, key, bad is None, bad or '', f['loc'], sample=sample)
    return n


def check_cel(out, facts, S):
    cfg = facts.cfg
    n = 0
    for i in facts.impls_of('ConstEncodedLen'):
        n += 1
        key = 'impl ConstEncodedLen for %s [%s]' % (i['self'], cfg)
        w = S.wire_type(T.from_json(i['self_ty']))
        ks = kinds_of(w)
        why = []
        if 'opaque' in ks:
            why.append('cannot compute the wire shape: ' + shape.wshow(w))
        if ks & {'seq', 'bitseq', 'compact', 'cvar'}:
            why.append('shape %s has a variable-length component' % shape.wshow(w))
        if 'alt' in ks:
            # allowed only if all arms have the same constant length
            val = {nm: 5 for _, nm in vars_of(w)}
            if wmin(w, val, {}) != wmax(w, val, {}, S):
                why.append('shape %s has alternatives of different length' % shape.wshow(w))
        have = {(tp['self'], tname(tp['trait'])) for tp in i['tpreds']}
        for kd, nm in vars_of(w):
            if (nm, 'ConstEncodedLen') not in have:
                why.append('length depends on %s, which is not bounded by ConstEncodedLen' % nm)
        out.ob('R13.3', key, not why, '; '.join(why), i['loc'], sample={'shape': shape.wshow(w)})
    return n


def check_fixed_size(out, facts, S):
    cfg = facts.cfg
    ov = [f for f in facts.methods('Decode', 'encoded_fixed_size')]
    selfs = sorted(f['self'] for f in ov)
    want = sorted(['u16', 'u32', 'u64', 'u128', 'i16', 'i32', 'i64', 'i128', 'f32', 'f64', 'bool', '[T; N]'])
    out.ob('R13.4', 'encoded_fixed_size overrides [%s]' % cfg, set(selfs) <= set(want) | {'u8', 'i8'},
           'encoded_fixed_size is overridden for %s (audited: %s)' % (sorted(set(selfs) - set(want)), want), '-')
    out.floor('R13.4', 'encoded_fixed_size overrides [%s]' % cfg, len(selfs), 12)
    for f in ov:
        key = '%s [%s]' % (fkey(f), cfg)
        ev = sym.Evaluator(facts)
        ctx = sym.Ctx(ev, f)
        v, t = sym.fn_value(ev, f, ctx)
        v = strip(v)
        st = T.from_json(f['self_ty'])
        w = S.wire_type(st)
        if st[0] == 'array':
            # None when the element has no fixed size, else Some(element size * N) — decided by evaluating the returned
            # value under both answers of `T::encoded_fixed_size()`, however the Option is taken apart (`?`, match, if let)
            def is_item_call(x):
                x = strip(x)
                return isinstance(x, tuple) and len(x) > 4 and x[0] == 'call' and x[1] == 'encoded_fixed_size' and x[4] and x[4][0] == 'T'

            def opt_eval(x, item, n):
                """'none' / ('some', k) / None (unknown) for the value x when T::encoded_fixed_size() == item and N == n"""
                x = strip(x)
                if not isinstance(x, tuple) or not x:
                    return None

                def leaf(y):
                    y = strip(y)
                    if isinstance(y, tuple) and y and y[0] in ('tried', 'unwrapped') and is_item_call(y[1]):
                        return item
                    if isinstance(y, tuple) and len(y) > 3 and y[0] == 'field' and is_item_call(y[1]) and y[3] == 'Some':
                        return item
                    if isinstance(y, tuple) and y and y[0] == 'cparam':
                        return n
                    return None
                if is_item_call(x):
                    return 'none' if item is None else ('some', item)
                if x[0] == 'adt' and x[1].endswith('Option') and x[2] == 'None':
                    return 'none'
                if x[0] == 'res' and contains(x[1], lambda y: isinstance(y, tuple) and y and y[0] == 'unwrapped' and is_item_call(y[1])) and \
                        not contains(x[1], lambda y: isinstance(y, tuple) and y and y[0] == 'tried'):
                    # `T::encoded_fixed_size().map(|size| ..)`: None stays None, Some(size) becomes Some(closure(size))
                    if item is None:
                        return 'none'
                    try:
                        k_ = eval_expr(x[1], leaf)
                    except ArithPanic:
                        return None
                    return ('some', k_) if isinstance(k_, int) else None
                if x[0] == 'opt':
                    if item is None and contains(x[1], lambda y: isinstance(y, tuple) and y and y[0] == 'tried' and is_item_call(y[1])):
                        return 'none'       # `?` on None leaves the function with None
                    try:
                        k_ = eval_expr(x[1], leaf)
                    except ArithPanic:
                        return None
                    return ('some', k_) if isinstance(k_, int) else None
                if x[0] == 'matchval' and is_item_call(x[1]):
                    for d_, arm in x[2]:
                        nm = d_[1] if isinstance(d_, tuple) and len(d_) > 1 else str(d_)
                        if (item is None and str(nm).startswith('None')) or (item is not None and str(nm).startswith('Some')) or str(nm) == '_':
                            return opt_eval(arm, item, n)
                    return None
                if x[0] == 'ifval':
                    c = strip(x[1])
                    some = None
                    if isinstance(c, tuple) and c and c[0] == 'call' and c[1] in ('is_some', 'is_none') and is_item_call(c[3][0]):
                        some = (item is not None) == (c[1] == 'is_some')
                    elif isinstance(c, tuple) and c and c[0] == 'letcond' and is_item_call(c[2]):
                        some = (item is not None) == (c[1] == 'Some')
                    if some is None:
                        return None
                    return opt_eval(x[2] if some else x[3], item, n)
                return None
            ok = True
            for item in (None, 0, 1, 4, 16):
                for n_ in (0, 1, 3, 7):
                    got = opt_eval(v, item, n_)
                    wantv = 'none' if item is None else ('some', item * n_)
                    if got != wantv:
                        ok = False
            out.ob('R13.4', key, bool(ok), 'array fixed size is not None / Some(element size * N) according to T::encoded_fixed_size(): ' + sym.vstr(v)[:200], f['loc'])
            continue
        num = Num(facts, S, {}, {})
        declared = num.num(v[1]) if isinstance(v, tuple) and v[0] == 'opt' else None
        shaped = wmax(w, {}, {}, S)
        okk = declared is not None and declared == shaped and wmin(w, {}, {}) == shaped
        out.ob('R13.4', key, okk, 'encoded_fixed_size returns %s but every value encodes to %s byte(s) (shape %s)' % (sym.vstr(v), shaped, shape.wshow(w)), f['loc'],
               sample={'declared': declared, 'shape': shape.wshow(w)})
    d = facts.trait_default('Decode', 'encoded_fixed_size')
    if d:
        ev = sym.Evaluator(facts)
        v, t = ev.ev(d['thir'], sym.Ctx(ev, d))
        out.ob('R13.4', 'Decode::encoded_fixed_size default [%s]' % cfg, sym.vstr(v) == 'Option::None{}' and t == ['eps'],
               'default is not unconditionally None: %s -> %s' % (sym.tstr(t)[:120], sym.vstr(v)), d['loc'])


def run(cx, out):
    out.rule('R13.1', 'declared max_encoded_len >= maxlen(wire shape) at generic valuations; no bound for unbounded shapes')
    out.rule('R13.3', 'ConstEncodedLen types have constant-length shapes and ConstEncodedLen-bounded parameters')
    out.rule('R13.4', 'encoded_fixed_size overrides are the audited set and return the constant length of the shape')
    for cfg in lib_cfgs(cx, quick=('D',), thorough=('D', 'E')):
        facts = cx.facts(cfg)
        unit(out, facts)
        S = shape.Shapes(facts)
        n = check_mel(out, facts, S)
        out.floor('R13.1', 'MaxEncodedLen impls [%s]' % cfg, n, 55)
        n = check_cel(out, facts, S)
        out.floor('R13.3', 'ConstEncodedLen impls [%s]' % cfg, n, 46)
        check_fixed_size(out, facts, S)
    # derived impls: the corpus of C05 (R13.2)
    from . import shared
    out.rule('R13.2', 'derived max_encoded_len >= maxlen of the layout declared by the definition (derive corpus of C05)')
    shared.premises(cx, out, {'c05': {'R13.2'}})
    from . import positive
    positive.check(cx, out, 'C13')
