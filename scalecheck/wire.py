"""Per-impl encoder / decoder term inference on top of sym.Evaluator (DESIGN 3.2)."""
from . import sym
from .sym import cat, strip, items
from .facts import tname, fkey

ENC_METHODS = ('encode_to', 'encode', 'using_encoded')


def infer_encoder_method(facts, fn, ev=None):
    """term written by one Encode method body; (term, value, evaluator)"""
    ev = ev or sym.Evaluator(facts)
    ctx = sym.Ctx(ev, fn)
    ps = fn['params']
    m = fn['method']
    if ps and ps[0] and ps[0]['k'] == 'bind':
        ctx.env[ps[0]['v']] = ('self',)
    if m == 'encode_to' and len(ps) > 1 and ps[1] and ps[1]['k'] == 'bind':
        ctx.env[ps[1]['v']] = ('dest',)
    if m == 'using_encoded' and len(ps) > 1 and ps[1] and ps[1]['k'] == 'bind':
        ctx.env[ps[1]['v']] = ('cb',)
    v, t = ev.ev(fn['thir'], ctx)
    if m == 'encode':
        sv = strip(v)
        if isinstance(sv, tuple) and sv[0] == 'encoded':
            t = cat(t, ['enc', sv[1], sv[2]])
        elif isinstance(sv, tuple) and sv[0] == 'call' and sv[1] == 'new' and 'vec::Vec' in sv[2]:
            pass
        elif isinstance(sv, tuple) and sv[0] == 'sink' and sv[1] in ctx.sinks:
            t = cat(t, *ctx.sinks[sv[1]])
        else:
            t = cat(t, ['opaque', 'encode returns a value of unrecognised form: ' + sym.vstr(sv)[:80], fn.get('loc')])
    return t, v, ev


def infer_decoder_fn(facts, fn, ev=None, roles=None):
    ev = ev or sym.Evaluator(facts)
    ctx = sym.Ctx(ev, fn)
    ps = fn['params']
    inputs = fn.get('inputs') or []
    for i, p in enumerate(ps):
        if not p or p['k'] != 'bind':
            continue
        role = None
        if roles and i in roles:
            role = roles[i]
        elif i == 0 and fn.get('method') in ('decode', 'decode_into', 'skip', 'decode_wrapped', 'len', 'decode_all',
                                             'scale_internal_decode_bytes'):
            role = ('input',)
        elif i < len(inputs) and inputs[i].startswith('&mut ') and any(
                pr == inputs[i][5:] + ': codec::Input' for pr in fn.get('preds', [])):
            role = ('input',)
        elif i < len(inputs) and inputs[i] in ('&mut &[u8]',):
            role = ('input',)
        if role is None and i < len(inputs) and any(
                (' %s: Fn' % inputs[i].replace('&mut ', '')) in (' ' + pr) for pr in fn.get('preds', [])):
            role = ('param_fn', p['name'])
        if role is None:
            role = ('param', p['name'], p.get('ty'))
        ctx.env[p['v']] = role
    v, t = ev.ev(fn['thir'], ctx)
    return t, v, ev


def show(t):
    return sym.tstr(t)
