"""Deterministic generator of the derive corpus (DESIGN 2.3): a fixture crate of type definitions
covering the accepted attribute grammar, plus a sidecar describing each definition, from which
the expected layout is computed independently of the macros."""
import json
import os
import random

# field type pool: (rust type, shape key, supports MaxEncodedLen, compactable)
POOL = [
    ('u8', ('prim', 'u8'), True, True),
    ('u16', ('prim', 'u16'), True, True),
    ('u32', ('prim', 'u32'), True, True),
    ('u64', ('prim', 'u64'), True, True),
    ('u128', ('prim', 'u128'), True, True),
    ('i32', ('prim', 'i32'), True, False),
    ('bool', ('prim', 'bool'), True, False),
    ('Vec<u8>', ('seq', ('prim', 'u8')), False, False),
    ('String', ('seq', ('prim', 'u8')), False, False),
    ('Option<u16>', ('alt', [('Some', ('cat', [('byte', 1), ('prim', 'u16')])), ('None', ('byte', 0))]), True, False),
    ('(u8, u32)', ('cat', [('prim', 'u8'), ('prim', 'u32')]), True, False),
    ('[u16; 3]', ('rep', ('prim', 'u16'), '3'), True, False),
    ('Box<u32>', ('prim', 'u32'), True, False),
    ('PhantomData<u8>', ('eps',), True, False),
]
NEEDS_DROP = {'Vec<u8>', 'String', 'Box<u32>'}
COMPACT_OF = {'u8': ('compact', 'u8'), 'u16': ('compact', 'u16'), 'u32': ('compact', 'u32'), 'u64': ('compact', 'u64'), 'u128': ('compact', 'u128')}


def field_shape(f):
    """expected wire shape of one field from the sidecar (independent layout oracle)"""
    if f['attr'] == 'skip':
        return ('eps',)
    if f['attr'] == 'encoded_as' and f.get('rep_shape'):
        return f['rep_shape']       # a representation type of the corpus' own (not the compact one)
    if f['attr'] in ('compact', 'encoded_as'):
        if f['ty'] in COMPACT_OF:
            return COMPACT_OF[f['ty']]
        return ('cvar', f['ty'])    # generic compact field
    if f.get('generic'):
        return ('var', f['ty'])
    return f['shape']


def expected_shape(d):
    def cat(ws):
        out = [w for w in ws if w != ('eps',)]
        flat = []
        for w in out:
            if w[0] == 'cat':
                flat.extend(w[1])
            else:
                flat.append(w)
        if not flat:
            return ('eps',)
        return flat[0] if len(flat) == 1 else ('cat', flat)
    if d['kind'] == 'struct':
        return cat([field_shape(f) for f in d['fields']])
    arms = []
    for v in d['variants']:
        if v['skip']:
            continue
        body = cat([field_shape(f) for f in v['fields']])
        arms.append((v['name'], cat([('byte', v['index']), body])))
    if not arms:
        return ('eps',)
    return ('alt', arms)


def expected_tags(d):
    return sorted(v['index'] for v in d['variants'] if not v['skip'])


class Gen:
    def __init__(self, seed, n_struct, n_enum):
        self.rng = random.Random(seed)
        self.defs = []
        self.n_struct = n_struct
        self.n_enum = n_enum

    def fld(self, i, ty_idx, attr, named):
        ty, shp, mel, compactable = POOL[ty_idx % len(POOL)]
        if attr in ('compact', 'encoded_as') and not compactable:
            ty, shp, mel, compactable = POOL[(ty_idx % 5)]
        return {'name': ('f%d' % i) if named else str(i), 'ty': ty, 'shape': shp, 'attr': attr, 'mel': mel}

    def structs(self):
        attrs = ['none', 'skip', 'compact', 'encoded_as']
        k = 0
        # systematic part: shape x arity x attribute pattern
        for named in (True, False):
            for n in range(0, 5):
                pats = set()
                for a0 in attrs:
                    for shift in range(3):
                        pat = tuple(attrs[(attrs.index(a0) + j * shift) % 4] if j else a0 for j in range(n))
                        pats.add(pat)
                for pat in sorted(pats):
                    fields = [self.fld(i, k + 3 * i, pat[i], named) for i in range(n)]
                    self.defs.append({'kind': 'struct', 'name': 'S%d' % len(self.defs), 'named': named, 'fields': fields, 'generics': [], 'transparent': False})
                    k += 1
                    if len([d for d in self.defs if d['kind'] == 'struct']) >= self.n_struct:
                        return
        while len([d for d in self.defs if d['kind'] == 'struct']) < self.n_struct:
            n = self.rng.randint(1, 4)
            named = self.rng.random() < 0.5
            fields = [self.fld(i, self.rng.randrange(len(POOL)), self.rng.choice(attrs), named) for i in range(n)]
            self.defs.append({'kind': 'struct', 'name': 'S%d' % len(self.defs), 'named': named, 'fields': fields, 'generics': [], 'transparent': False})

    def special(self):
        D = self.defs
        # field type with decoy inherent items (see the preamble of the generated file)
        sh = lambda i, named: {'name': ('f%d' % i) if named else str(i), 'ty': 'Shadow', 'shape': ('prim', 'u32'), 'attr': 'none', 'mel': True}
        D.append({'kind': 'struct', 'name': 'S%d' % len(D), 'named': True, 'fields': [sh(0, True), self.fld(1, 0, 'none', True)], 'generics': [], 'transparent': False})
        D.append({'kind': 'struct', 'name': 'S%d' % len(D), 'named': False, 'fields': [sh(0, False)], 'generics': [], 'transparent': False})
        D.append({'kind': 'struct', 'name': 'S%d' % len(D), 'named': False, 'fields': [sh(0, False)], 'generics': [], 'transparent': True})
        vs = [{'name': 'A', 'fields': [sh(0, False)], 'skip': False, 'src': 'implicit', 'kind': 'tuple'},
              {'name': 'B', 'fields': [sh(0, True), self.fld(1, 1, 'none', True)], 'skip': False, 'src': 'implicit', 'kind': 'named'},
              {'name': 'C', 'fields': [], 'skip': False, 'src': 'implicit', 'kind': 'unit'}]
        self.assign_indices(vs)
        D.append({'kind': 'enum', 'name': 'E%d' % len(D), 'variants': vs, 'generics': []})
        # other representations than `transparent` never get the in-place entry point
        D.append({'kind': 'struct', 'name': 'S%d' % len(D), 'named': False, 'fields': [self.fld(0, 2, 'none', False), self.fld(1, 2, 'none', False)], 'generics': [], 'transparent': False, 'repr': 'C'})
        D.append({'kind': 'struct', 'name': 'S%d' % len(D), 'named': True, 'fields': [self.fld(0, 3, 'none', True)], 'generics': [], 'transparent': False, 'repr': 'C'})
        # attributes written with a trailing comma
        for named in (True, False):
            for attr in ('compact', 'skip', 'encoded_as'):
                f0 = self.fld(0, 3, attr, named)
                f0['trail'] = True
                D.append({'kind': 'struct', 'name': 'S%d' % len(D), 'named': named, 'fields': [f0, self.fld(1, 0, 'none', named)], 'generics': [], 'transparent': False})
        f0 = self.fld(0, 3, 'compact', False)
        f0['trail'] = True
        D.append({'kind': 'struct', 'name': 'S%d' % len(D), 'named': False, 'fields': [f0], 'generics': [], 'transparent': False})
        fc = self.fld(0, 3, 'compact', False)
        fc['trail'] = True
        vs = [{'name': 'A', 'fields': [], 'skip': False, 'src': 'attr', 'attr_index': 7, 'kind': 'unit', 'trail': True},
              {'name': 'B', 'fields': [self.fld(0, 0, 'none', False)], 'skip': True, 'src': 'implicit', 'kind': 'tuple', 'trail': True},
              {'name': 'C', 'fields': [fc, self.fld(1, 1, 'none', False)], 'skip': False, 'src': 'implicit', 'kind': 'tuple'},
              {'name': 'D', 'fields': [], 'skip': False, 'src': 'attr', 'attr_index': 200, 'kind': 'unit', 'trail': True}]
        self.assign_indices(vs)
        D.append({'kind': 'enum', 'name': 'E%d' % len(D), 'variants': vs, 'generics': []})
        # unit struct
        D.append({'kind': 'struct', 'name': 'S%d' % len(D), 'named': None, 'fields': [], 'generics': [], 'transparent': False})
        # generics: plain, compact, used only in a skipped field
        D.append({'kind': 'struct', 'name': 'S%d' % len(D), 'named': False, 'generics': ['T'], 'transparent': False,
                  'fields': [{'name': '0', 'ty': 'T', 'shape': None, 'attr': 'none', 'generic': True, 'mel': True}, self.fld(1, 2, 'none', False)]})
        D.append({'kind': 'struct', 'name': 'S%d' % len(D), 'named': True, 'generics': ['T'], 'transparent': False, 'bounds': 'T: HasCompact',
                  'fields': [{'name': 'f0', 'ty': 'T', 'shape': None, 'attr': 'compact', 'generic': True, 'mel': True}, self.fld(1, 0, 'none', True)]})
        D.append({'kind': 'struct', 'name': 'S%d' % len(D), 'named': False, 'generics': ['T'], 'transparent': False,
                  'fields': [self.fld(0, 3, 'none', False), {'name': '1', 'ty': 'PhantomData<T>', 'shape': ('eps',), 'attr': 'skip', 'mel': True}]})
        # single non-skipped field among several (forwarding optimisation), in different positions
        for pos in range(3):
            fs = [self.fld(i, 1 + i, 'skip', True) for i in range(3)]
            fs[pos] = self.fld(pos, 7 + pos, 'none', True)
            D.append({'kind': 'struct', 'name': 'S%d' % len(D), 'named': True, 'fields': fs, 'generics': [], 'transparent': False})
        fs = [self.fld(0, 1, 'skip', False), self.fld(1, 2, 'compact', False)]
        D.append({'kind': 'struct', 'name': 'S%d' % len(D), 'named': False, 'fields': fs, 'generics': [], 'transparent': False})
        # repr(transparent)
        for attr in ('none', 'compact', 'encoded_as'):
            D.append({'kind': 'struct', 'name': 'S%d' % len(D), 'named': False, 'generics': [], 'transparent': True,
                      'fields': [self.fld(0, 2 if attr != 'none' else 7, attr, False)]})
            D.append({'kind': 'struct', 'name': 'S%d' % len(D), 'named': True, 'generics': [], 'transparent': True,
                      'fields': [self.fld(0, 3 if attr != 'none' else 11, attr, True), {'name': 'f1', 'ty': 'PhantomData<u8>', 'shape': ('eps',), 'attr': 'none', 'mel': True}]})
        D.append({'kind': 'struct', 'name': 'S%d' % len(D), 'named': False, 'generics': [], 'transparent': True,
                  'fields': [self.fld(0, 7, 'none', False), {'name': '1', 'ty': 'PhantomData<u8>', 'shape': ('eps',), 'attr': 'skip', 'mel': True}]})
        D.append({'kind': 'struct', 'name': 'S%d' % len(D), 'named': False, 'generics': [], 'transparent': True,
                  'fields': [{'name': '0', 'ty': 'PhantomData<u8>', 'shape': ('eps',), 'attr': 'none', 'mel': True}, self.fld(1, 8, 'none', False)]})
        # encoded_as with a representation type that is NOT the compact one (AsFixed: a u32 field goes over the wire
        # fixed-width instead of compact): alone, among other fields (the multi-field code path), in a transparent struct
        def rep_field(i, named):
            return {'name': ('f%d' % i) if named else str(i), 'ty': 'u32', 'shape': ('prim', 'u32'), 'attr': 'encoded_as', 'mel': True,
                    'rep': 'AsFixed', 'rep_shape': ('prim', 'u32')}
        D.append({'kind': 'struct', 'name': 'S%d' % len(D), 'named': False, 'generics': [], 'transparent': False, 'fields': [rep_field(0, False)]})
        D.append({'kind': 'struct', 'name': 'S%d' % len(D), 'named': True, 'generics': [], 'transparent': False,
                  'fields': [self.fld(0, 0, 'none', True), rep_field(1, True), self.fld(2, 7, 'none', True)]})
        D.append({'kind': 'struct', 'name': 'S%d' % len(D), 'named': False, 'generics': [], 'transparent': False,
                  'fields': [rep_field(0, False), self.fld(1, 2, 'compact', False)]})
        D.append({'kind': 'struct', 'name': 'S%d' % len(D), 'named': False, 'generics': [], 'transparent': True, 'fields': [rep_field(0, False)]})
        # a one-variant unit enum is zero-sized but its decoder reads (and can reject) a byte: the companion of a transparent struct
        zname = 'E%d' % len(D)
        zv = [{'name': 'Only', 'fields': [], 'skip': False, 'src': 'implicit', 'kind': 'unit'}]
        self.assign_indices(zv)
        D.append({'kind': 'enum', 'name': zname, 'variants': zv, 'generics': []})
        zf = {'name': '1', 'ty': zname, 'shape': ('alt', [('Only', ('byte', 0))]), 'attr': 'none', 'mel': True}
        D.append({'kind': 'struct', 'name': 'S%d' % len(D), 'named': False, 'generics': [], 'transparent': True,
                  'fields': [self.fld(0, 7, 'none', False), zf]})
        D.append({'kind': 'struct', 'name': 'S%d' % len(D), 'named': False, 'generics': [], 'transparent': True,
                  'fields': [self.fld(0, 4, 'none', False), dict(zf)]})

    def enums(self):
        D = self.defs
        srcs = ['implicit', 'attr', 'discr', 'both']
        k = 0
        count = 0
        # fieldless enums: all index sources incl. both an attribute and a different discriminant
        for nv in range(0, 7):
            for base in range(4):
                vs = []
                used = set()
                for i in range(nv):
                    src = srcs[(base + i) % 4]
                    skip = (i + base) % 5 == 3
                    v = {'name': 'V%d' % i, 'fields': [], 'skip': skip, 'src': src, 'kind': 'unit'}
                    if src in ('attr', 'both'):
                        v['attr_index'] = 20 + 7 * i + base
                    if src in ('discr', 'both'):
                        v['discr'] = 100 + 3 * i + base
                    vs.append(v)
                self.assign_indices(vs)
                D.append({'kind': 'enum', 'name': 'E%d' % len(D), 'variants': vs, 'generics': []})
                count += 1
        # explicit discriminants that are not integer literals: byte literals, parenthesised and computed expressions
        # (the value of the expression is the index, whatever its syntax)
        vs = []
        for i, (val, src) in enumerate([(80, "b'P'"), (7, '(7)'), (2, '1 + 1'), (None, None), (10, "b'\\n'"), (0x41, "b'\\x41'")]):
            v = {'name': 'V%d' % i, 'fields': [], 'skip': False, 'src': 'discr' if src else 'implicit', 'kind': 'unit'}
            if src:
                v['discr'] = val
                v['discr_src'] = src
            vs.append(v)
        self.assign_indices(vs)
        D.append({'kind': 'enum', 'name': 'E%d' % len(D), 'variants': vs, 'generics': [], 'repr': 'u8'})
        count += 1
        # enums with fields (no discriminants): unit / tuple / named variants, attribute indices, skips
        for nv in range(1, 7):
            for base in range(3):
                vs = []
                for i in range(nv):
                    kind = ['unit', 'tuple', 'named'][(i + base) % 3]
                    nf = 0 if kind == 'unit' else 1 + (i + base) % 3
                    fields = [self.fld(j, k + j + i, ['none', 'compact', 'skip', 'none', 'encoded_as'][(i + j + base) % 5], kind == 'named') for j in range(nf)]
                    v = {'name': 'V%d' % i, 'fields': fields, 'skip': (i * 2 + base) % 7 == 4, 'src': 'attr' if (i + base) % 4 == 1 else 'implicit', 'kind': kind}
                    if v['src'] == 'attr':
                        v['attr_index'] = 40 + 5 * i + base
                    vs.append(v)
                    k += 1
                self.assign_indices(vs)
                D.append({'kind': 'enum', 'name': 'E%d' % len(D), 'variants': vs, 'generics': []})
                count += 1
        # a variant field with the non-compact representation type; a skipped variant whose index attribute comes first
        vs = [{'name': 'A', 'fields': [{'name': '0', 'ty': 'u32', 'shape': ('prim', 'u32'), 'attr': 'encoded_as', 'mel': True, 'rep': 'AsFixed', 'rep_shape': ('prim', 'u32')},
                                        self.fld(1, 1, 'none', False)], 'skip': False, 'src': 'implicit', 'kind': 'tuple'},
              {'name': 'B', 'fields': [self.fld(0, 0, 'none', False)], 'skip': True, 'src': 'attr', 'attr_index': 9, 'kind': 'tuple', 'index_first': True},
              {'name': 'C', 'fields': [], 'skip': False, 'src': 'implicit', 'kind': 'unit'},
              {'name': 'D', 'fields': [], 'skip': True, 'src': 'attr', 'attr_index': 0, 'kind': 'unit', 'index_first': True},
              {'name': 'E', 'fields': [], 'skip': False, 'src': 'attr', 'attr_index': 77, 'kind': 'unit'}]
        self.assign_indices(vs)
        D.append({'kind': 'enum', 'name': 'E%d' % len(D), 'variants': vs, 'generics': []})
        count += 1
        # neighbouring variants with the SAME field types but different attributes (skip / compact / plain): the lengths differ
        for attrs_ in (('skip', 'none'), ('none', 'compact'), ('compact', 'none', 'skip'), ('encoded_as', 'none')):
            vs = []
            for i, a_ in enumerate(attrs_):
                kind = 'named' if i % 2 == 0 else 'tuple'
                vs.append({'name': 'V%d' % i, 'fields': [self.fld(0, 3, a_, kind == 'named')], 'skip': False, 'src': 'implicit', 'kind': kind})
            self.assign_indices(vs)
            D.append({'kind': 'enum', 'name': 'E%d' % len(D), 'variants': vs, 'generics': []})
            count += 1
        # the largest enum the format allows: 256 encodable variants (implicit indices 0..=255), the last ones with fields
        vs = []
        for i in range(256):
            if i in (254, 255):
                vs.append({'name': 'V%d' % i, 'fields': [self.fld(0, i % 5, 'none', False), self.fld(1, 2, 'compact' if i == 255 else 'none', False)],
                           'skip': False, 'src': 'implicit', 'kind': 'tuple'})
            else:
                vs.append({'name': 'V%d' % i, 'fields': [], 'skip': False, 'src': 'implicit', 'kind': 'unit'})
        self.assign_indices(vs)
        D.append({'kind': 'enum', 'name': 'E%d' % len(D), 'variants': vs, 'generics': []})
        count += 1
        # all variants skipped (with and without fields), generic enum
        D.append({'kind': 'enum', 'name': 'E%d' % len(D), 'generics': [], 'variants': [
            {'name': 'A', 'fields': [], 'skip': True, 'src': 'implicit', 'kind': 'unit', 'index': None},
            {'name': 'B', 'fields': [self.fld(0, 2, 'none', False)], 'skip': True, 'src': 'implicit', 'kind': 'tuple', 'index': None}]})
        vs = [{'name': 'A', 'fields': [{'name': '0', 'ty': 'T', 'shape': None, 'attr': 'none', 'generic': True, 'mel': True}], 'skip': False, 'src': 'implicit', 'kind': 'tuple'},
              {'name': 'B', 'fields': [], 'skip': False, 'src': 'implicit', 'kind': 'unit'}]
        self.assign_indices(vs)
        D.append({'kind': 'enum', 'name': 'E%d' % len(D), 'generics': ['T'], 'variants': vs})
        while count < self.n_enum:
            nv = self.rng.randint(1, 6)
            vs = []
            for i in range(nv):
                kind = self.rng.choice(['unit', 'tuple', 'named'])
                nf = 0 if kind == 'unit' else self.rng.randint(1, 3)
                fields = [self.fld(j, self.rng.randrange(len(POOL)), self.rng.choice(['none', 'none', 'compact', 'skip', 'encoded_as']), kind == 'named') for j in range(nf)]
                v = {'name': 'V%d' % i, 'fields': fields, 'skip': self.rng.random() < 0.15, 'src': self.rng.choice(['implicit', 'implicit', 'attr']), 'kind': kind}
                if v['src'] == 'attr':
                    v['attr_index'] = 60 + 9 * i
                vs.append(v)
            self.assign_indices(vs)
            D.append({'kind': 'enum', 'name': 'E%d' % len(D), 'variants': vs, 'generics': []})
            count += 1

    @staticmethod
    def assign_indices(vs):
        """the documented rule: attribute index > explicit discriminant > position among the non-skipped variants"""
        pos = 0
        for v in vs:
            if v['skip']:
                v['index'] = None
                continue
            if 'attr_index' in v:
                v['index'] = v['attr_index']
            elif 'discr' in v:
                v['index'] = v['discr']
            else:
                v['index'] = pos
            pos += 1

    def generate(self):
        self.structs()
        self.special()
        self.enums()
        # derive sets
        for d in self.defs:
            fs = d['fields'] if d['kind'] == 'struct' else [f for v in d['variants'] for f in v['fields']]
            d['derive_mel'] = all(f['mel'] or f['attr'] == 'skip' for f in fs) and not any(f.get('generic') and f['attr'] == 'skip' for f in fs)
            d['derive_mt'] = True
        return self.defs


def render(defs):
    out = ['#![allow(dead_code, unused_imports, clippy::all)]',
           '// generated by /verif/scalecheck/corpusgen.py — do not edit',
           'pub mod m {',
           'use parity_scale_codec::{Decode, DecodeWithMemTracking, Encode, MaxEncodedLen, CompactAs, HasCompact, EncodeAsRef, Input, Output, Error};',
           'use core::marker::PhantomData;', '',
           '// a representation type for #[codec(encoded_as = "AsFixed")] on u32 fields: the field goes over the wire as a plain fixed-width u32 instead of a compact',
           'pub struct AsFixed(pub u32);',
           "pub struct AsFixedRef<'a>(pub &'a u32);",
           "impl<'a> EncodeAsRef<'a, u32> for AsFixed { type RefType = AsFixedRef<'a>; }",
           "impl<'a> From<&'a u32> for AsFixedRef<'a> { fn from(x: &'a u32) -> Self { AsFixedRef(x) } }",
           "impl<'a> Encode for AsFixedRef<'a> { fn encode_to<W: Output + ?Sized>(&self, dest: &mut W) { self.0.encode_to(dest) } }",
           "impl<'a> parity_scale_codec::EncodeLike for AsFixedRef<'a> {}",
           'impl Decode for AsFixed { fn decode<I: Input>(input: &mut I) -> Result<Self, Error> { Ok(AsFixed(u32::decode(input)?)) } }',
           'impl Encode for AsFixed { fn encode_to<W: Output + ?Sized>(&self, dest: &mut W) { self.0.encode_to(dest) } }',
           'impl DecodeWithMemTracking for AsFixed {}',
           'impl From<AsFixed> for u32 { fn from(x: AsFixed) -> u32 { x.0 } }',
           'impl MaxEncodedLen for AsFixed { fn max_encoded_len() -> usize { 4 } }', '',
           '// a field type with inherent items named like the trait items generated code calls: generated code must name the trait',
           'pub struct Shadow(pub u32);',
           'impl Encode for Shadow { fn encode_to<W: Output + ?Sized>(&self, dest: &mut W) { Encode::encode_to(&self.0, dest) } }',
           'impl parity_scale_codec::EncodeLike for Shadow {}',
           'impl Decode for Shadow { fn decode<I: Input>(input: &mut I) -> Result<Self, Error> { Ok(Shadow(<u32 as Decode>::decode(input)?)) } }',
           'impl DecodeWithMemTracking for Shadow {}',
           'impl MaxEncodedLen for Shadow { fn max_encoded_len() -> usize { 4 } }',
           'impl Shadow {',
           '    pub fn max_encoded_len() -> usize { 0 }',
           '    pub fn size_hint(&self) -> usize { 1000 }',
           '    pub fn encode_to(&self, _dest: &mut Vec<u8>) {}',
           '    pub fn encode(&self) -> u8 { 0 }',
           '    pub fn encoded_size(&self) -> usize { 0 }',
           '    pub fn decode(_input: &mut &[u8]) -> Result<u8, ()> { Err(()) }',
           '    pub fn decode_into(_a: u8) {}',
           '}', '']

    def fattr(f):
        # `trail`: the same attribute written with a trailing comma inside the parentheses (accepted by the attribute
        # grammar, so it must mean the same)
        tc = ',' if f.get('trail') else ''
        if f['attr'] == 'skip':
            return '#[codec(skip%s)] ' % tc
        if f['attr'] == 'compact':
            return '#[codec(compact%s)] ' % tc
        if f['attr'] == 'encoded_as' and f.get('rep'):
            return '#[codec(encoded_as = "%s"%s)] ' % (f['rep'], tc)
        if f['attr'] == 'encoded_as':
            return '#[codec(encoded_as = "<%s as HasCompact>::Type"%s)] ' % (f['ty'], tc)
        return ''

    def fields_src(fs, named):
        if named:
            return '{ ' + ', '.join('%spub %s: %s' % (fattr(f), f['name'], f['ty']) for f in fs) + ' }'
        return '(' + ', '.join('%spub %s' % (fattr(f), f['ty']) for f in fs) + ')'

    def vfields_src(fs, kind):
        if kind == 'named':
            return ' { ' + ', '.join('%s%s: %s' % (fattr(f), f['name'], f['ty']) for f in fs) + ' }'
        if kind == 'tuple':
            return '(' + ', '.join('%s%s' % (fattr(f), f['ty']) for f in fs) + ')'
        return ''
    for d in defs:
        ders = ['Encode', 'Decode']
        if d.get('derive_mt'):
            ders.append('DecodeWithMemTracking')
        if d.get('derive_mel'):
            ders.append('MaxEncodedLen')
        gen = ''
        if d['generics']:
            gen = '<%s>' % ', '.join((d.get('bounds') if d.get('bounds') and d['bounds'].startswith(g + ':') else g) for g in d['generics'])
        out.append('#[derive(%s)]' % ', '.join(ders))
        if d['kind'] == 'struct':
            if d.get('transparent'):
                out.append('#[repr(transparent)]')
            if d.get('repr'):
                out.append('#[repr(%s)]' % d['repr'])
            if d['named'] is None:
                out.append('pub struct %s;' % d['name'])
            elif d['named']:
                out.append('pub struct %s%s %s' % (d['name'], gen, fields_src(d['fields'], True)))
            else:
                out.append('pub struct %s%s%s;' % (d['name'], gen, fields_src(d['fields'], False)))
        else:
            if d.get('repr'):
                out.append('#[repr(%s)]' % d['repr'])
            out.append('pub enum %s%s {' % (d['name'], gen))
            for v in d['variants']:
                line = '    '
                if v['skip'] and 'attr_index' in v and v.get('index_first'):
                    # two separate attributes, the index first: both must be seen
                    line += '#[codec(index = %s)] #[codec(skip)] ' % _lit(v['attr_index'])
                else:
                    vtc = ',' if v.get('trail') else ''
                    if v['skip']:
                        line += '#[codec(skip%s)] ' % vtc
                    if 'attr_index' in v:
                        line += '#[codec(index = %s%s)] ' % (_lit(v['attr_index']), vtc)
                line += v['name'] + vfields_src(v['fields'], v['kind'])
                if 'discr' in v:
                    line += ' = %s' % (v.get('discr_src') or _lit(v['discr'], suffix=False))
                out.append(line + ',')
            out.append('}')
        out.append('')
    out.append('}')
    return '\n'.join(out) + '\n'


def _lit(n, suffix=True):
    """every spelling of an integer literal the attribute grammar admits: the value, not the token text, is the index"""
    k = n % 6
    if k == 1:
        return '0x%x' % n
    if k == 2:
        return '0b%s' % bin(n)[2:]
    if k == 3 and suffix:
        return '%du8' % n
    if k == 4 and n >= 10:
        s = str(n)
        return s[0] + '_' + s[1:]
    if k == 5:
        return '0o%o' % n
    return str(n)


def _put(path, text):
    try:
        with open(path) as f:
            if f.read() == text:
                return
    except OSError:
        pass
    tmp = '%s.%d.tmp' % (path, os.getpid())
    with open(tmp, 'w') as f:
        f.write(text)
    os.replace(tmp, path)


def write_fixture(dirpath, tier, seed):
    n_struct, n_enum = (46, 46) if tier == 'quick' else (260, 200)
    g = Gen(seed, n_struct, n_enum)
    defs = g.generate()
    os.makedirs(os.path.join(dirpath, 'src'), exist_ok=True)
    # the content is a function of (tier, seed): write only what differs, atomically, so that a concurrent check
    # staging the same corpus never sees a half-written file
    _put(os.path.join(dirpath, 'Cargo.toml'),
         '[package]\nname = "vf_corpus"\nversion = "0.1.0"\nedition = "2021"\n\n[lib]\npath = "src/lib.rs"\n\n[dependencies]\n'
         'parity-scale-codec = { path = "@REPO@", features = ["derive", "max-encoded-len"] }\n\n[workspace]\n')
    _put(os.path.join(dirpath, 'src', 'lib.rs'), render(defs))
    _put(os.path.join(dirpath, 'sidecar.json'), json.dumps(defs))
    return defs
