"""Self-test of the checker, both ways (python3 -m scalecheck selftest [seeded|benign|all] [-j N] [ids..]):

  seeded/Cxx-k/patch.diff   property-breaking changes (written by sub-agents that saw only the property text; each compiles,
                            keeps the pinned suite green and has a demonstration): the quick check of the property the
                            change was written against must exit 1 with a VIOLATION line;
  seeded/benign/Bn-k.diff   behaviour-preserving rewrites of the same code: every one of the 20 quick checks must stay
                            silent (exit 0, no VIOLATION line).

Every patch is applied to a scratch copy of the repository outside /repo and /verif (VERIF_REPO points the checks at it);
the copy is removed afterwards.  Nothing here is part of a registered check: it tests the checks."""
import concurrent.futures
import glob
import json
import os
import shutil
import subprocess
import sys

from .report import VERIF

REPO = '/repo'


def scratch(slot):
    return '/tmp/vscratch/selftest-%s' % slot


def prepare(slot, patch):
    d = scratch(slot)
    shutil.rmtree(d, ignore_errors=True)
    os.makedirs(os.path.dirname(d), exist_ok=True)
    subprocess.check_call(['rsync', '-a', '--exclude', 'target', '--exclude', '.git', REPO + '/', d + '/'])
    subprocess.check_call('find %s -type f -exec touch {} +' % d, shell=True)
    r = subprocess.run(['git', 'apply', '--unsafe-paths', '--directory', d, os.path.abspath(patch)], cwd='/', capture_output=True, text=True)
    if r.returncode != 0:
        r = subprocess.run(['patch', '-p1', '-d', d, '-i', os.path.abspath(patch)], capture_output=True, text=True)
        if r.returncode != 0:
            return None
    return d


def run_checks(d, props, tier):
    env = dict(os.environ, VERIF_REPO=d, VERIF_NO_EVIDENCE='1')
    r = subprocess.run([os.path.join(VERIF, 'check')] + props + ['--tier', tier], env=env, capture_output=True, text=True)
    return r.returncode, r.stdout


def one(job):
    kind, name, patch, props, slot, tier = job
    d = prepare(slot, patch)
    if d is None:
        return (kind, name, 'PATCH-FAILED', [])
    try:
        res = []
        for p in props:
            rc, out = run_checks(d, [p], tier)
            viol = [l for l in out.splitlines() if l.startswith('VIOLATION')]
            rules = sorted({l.split()[1] for l in out.splitlines() if l.startswith(('src/', 'derive/', '-  ', 'witness', 'fuzzer/')) and len(l.split()) > 1})
            lines_ = [l[:260] for l in out.splitlines() if l.startswith(('src/', 'derive/', '-  ', 'witness', 'BUILD', 'INTERNAL'))][:6]
            if 'BUILD-ERROR' in out or 'INTERNAL' in out:
                # keep the compiler's / interpreter's message: a build error on a patch that compiles is a harness problem
                ol = out.splitlines()
                k0 = next((i for i, l in enumerate(ol) if 'BUILD-ERROR' in l or 'INTERNAL' in l), 0)
                lines_ = [l[:300] for l in ol[k0:k0 + 25]]
            res.append((p, rc, bool(viol), rules, lines_))
        return (kind, name, 'ran', res)
    finally:
        shutil.rmtree(d, ignore_errors=True)


def main(args, tier):
    what = 'all'
    jobs_n = 3
    ids = []
    i = 0
    while i < len(args):
        if args[i] == '-j':
            jobs_n = int(args[i + 1])
            i += 2
            continue
        if args[i] in ('seeded', 'benign', 'all'):
            what = args[i]
        else:
            ids.append(args[i])
        i += 1
    allp = ['C%02d' % k for k in range(1, 21)]
    jobs = []
    if what in ('seeded', 'all'):
        for d in sorted(glob.glob(os.path.join(VERIF, 'seeded', 'C*-*'))):
            name = os.path.basename(d)
            if ids and name not in ids:
                continue
            jobs.append(['seeded', name, os.path.join(d, 'patch.diff'), [name.split('-')[0]]])
    if what in ('benign', 'all'):
        for pth in sorted(glob.glob(os.path.join(VERIF, 'seeded', 'benign', '*.diff'))):
            name = os.path.basename(pth)[:-5]
            if ids and name not in ids:
                continue
            jobs.append(['benign', name, pth, allp])
    for k, j in enumerate(jobs):
        j.extend(['%d-%d' % (os.getpid(), k % jobs_n), tier])
    # a slot is a scratch path: jobs sharing a slot run one after another
    by_slot = {}
    for j in jobs:
        by_slot.setdefault(j[4], []).append(j)

    import threading
    plock = threading.Lock()
    stats = {'n': 0, 'bad': 0}

    def report(kind, name, st, res):
        with plock:
            stats['n'] += 1
            if st != 'ran':
                print('%-8s %-8s %s' % (kind, name, st))
                stats['bad'] += 1
            elif kind == 'seeded':
                p, rc, viol, rules, lines = res[0]
                ok = rc == 1 and viol
                print('%-8s %-8s %s  %s' % (kind, name, 'caught' if ok else 'MISSED (exit %d)' % rc, ','.join(rules)))
                if not ok:
                    stats['bad'] += 1
                    for l in lines:
                        print('      ' + l)
            else:
                alarms = [(p, rules, lines) for p, rc, viol, rules, lines in res if rc != 0 or viol]
                print('%-8s %-8s %s' % (kind, name, 'silent' if not alarms else 'FALSE ALARM in ' + ','.join(a[0] for a in alarms)))
                for p, rules, lines in alarms:
                    for l in lines:
                        print('      %s: %s' % (p, l))
                if alarms:
                    stats['bad'] += 1
            sys.stdout.flush()

    def run_slot(js):
        # the warm cargo target directory kept for a scratch path is reused by the jobs of the slot and dropped at the end
        try:
            for j in js:
                report(*one(tuple(j)))
        finally:
            from . import facts as factsmod
            factsmod.purge_repo_cache(scratch(js[0][4]))
    with concurrent.futures.ThreadPoolExecutor(max_workers=jobs_n) as ex:
        list(ex.map(run_slot, by_slot.values()))
    print('selftest: %d change(s), %d not as expected' % (stats['n'], stats['bad']))
    return 1 if stats['bad'] else 0
