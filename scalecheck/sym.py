"""Symbolic evaluator over the typed THIR (DESIGN 3.2): walks a body in evaluation order and
returns (value, term) where `term` is the sequence of effects on the Output / Input in the wire
language.  One evaluator serves encoders and decoders; which parameter plays `dest`, `input` or
the `using_encoded` callback is decided by the caller.

Values are tuples, terms are lists (JSON friendly):

  values  ('self',) ('var',id) ('field',base,idx,name) ('elem',src) ('lit',v,ty) ('const',path,val)
          ('call',name,f,args,ga,trait) ('tuple',[..]) ('array',[..]) ('adt',path,variant,[(i,v)])
          ('cast',ty,v,fromty) ('bin',op,l,r) ('un',op,v) ('closure',id,env) ('sink',id)
          ('encoded',ty,v) ('res',v) ('opt',v) ('decoded',ty,uid,mode) ('byte',uid) ('input',)
          ('dest',) ('cb',) ('error',) ('never',) ('unit',) ...
  terms   ['eps'] ['byte',v] ['write',v] ['enc',ty,v] ['prim_le',v,ty]
          ['rb',uid] ['read',buf] ['dec',ty,uid,mode] ['DESC'] ['ASC'] ['HOOK',v] ['REMLEN']
          ['?'] ['ERR',why] ['CHECK',what] ['PANIC',kind,loc]
          ['cat',[..]] ['alt',scrut,[(desc,term)..]] ['star',src,term] ['opaque',why,loc]
"""
import re

from .facts import tname

MAX_DEPTH = 10


def strip(v):
    while isinstance(v, tuple) and v and v[0] in ('ref', 'deref', 'coerce'):
        v = v[1]
    return v


def cat(*ts):
    out = []
    for t in ts:
        if t is None or t == ['eps']:
            continue
        if t[0] == 'cat':
            out.extend(t[1])
        else:
            out.append(t)
    if not out:
        return ['eps']
    if len(out) == 1:
        return out[0]
    return ['cat', out]


def items(t):
    """top-level sequence of a term"""
    if t == ['eps']:
        return []
    if t[0] == 'cat':
        return list(t[1])
    return [t]


def walk(t):
    """all sub-terms, pre-order"""
    yield t
    if t[0] == 'cat':
        for x in t[1]:
            yield from walk(x)
    elif t[0] == 'alt':
        for _, x in t[2]:
            yield from walk(x)
    elif t[0] == 'star':
        yield from walk(t[2])
    elif t[0] == 'HELPER':
        yield from walk(t[2])
    elif t[0] == 'ONOK':
        yield from walk(t[1])
    elif t[0] == 'SINKW':
        yield from walk(t[2])


def has_opaque(t):
    return [x for x in walk(t) if x[0] == 'opaque']


class UID:
    def __init__(self):
        self.n = 0

    def next(self):
        self.n += 1
        return self.n


class Ctx:
    def __init__(self, ev, fn, depth=0):
        self.ev = ev
        self.fn = fn
        self.env = {}
        self.depth = depth
        self.returned = []   # values passed to `return`
        self.sinks = {}      # local id -> list of events written into a local Output sink
        self.sink_kind = {}

    def child(self, fn=None, depth=None):
        c = Ctx(self.ev, fn or self.fn, self.depth if depth is None else depth)
        c.env = dict(self.env)
        c.sinks = self.sinks
        c.sink_kind = self.sink_kind
        c.returned = self.returned
        return c


def pat_desc(pat):
    k = pat['k']
    if k == 'variant':
        subs = [pat_desc(sp) for _, sp in pat['subs']]
        if subs and any(x not in ('_',) and not x.startswith('(') or x.startswith('(') and x != '(_)' for x in subs) and all(
                sp['k'] in ('const', 'variant', 'leaf', 'deref') for _, sp in pat['subs']):
            return '%s(%s)' % (pat['name'], ','.join(subs))
        return pat['name']
    if k in ('deref', 'derefpat'):
        return pat_desc(pat['sub'])
    if k in ('const', 'range'):
        return pat['v']
    if k == 'wild':
        return '_'
    if k == 'bind':
        return '_' if not pat.get('sub') else pat_desc(pat['sub'])
    if k == 'guard':
        return 'guard'
    if k == 'or':
        return '|'.join(pat_desc(p) for p in pat['pats'])
    if k == 'leaf':
        return '(' + ','.join(pat_desc(sp) for _, sp in pat['subs']) + ')'
    return k


INT_RE = re.compile(r'^(-?\d+)_([iu](?:8|16|32|64|128|size))$')


def pat_tuple_ints(pat):
    """for a tuple pattern of integer / wildcard components: per component the list of (lo, hi) intervals, or None for
    a wildcard / binding; None when the pattern is not of that kind"""
    p = pat
    while p.get('k') in ('deref', 'derefpat'):
        p = p['sub']
    if p.get('k') != 'leaf' or not p.get('subs'):
        return None
    out = []
    for _i, sp in sorted(p['subs'], key=lambda x: x[0]):
        q = sp
        while q.get('k') in ('deref', 'derefpat'):
            q = q['sub']
        if q.get('k') == 'wild' or (q.get('k') == 'bind' and not q.get('sub')):
            out.append(None)
        else:
            r = pat_ints(q)
            if r is None:
                return None
            out.append(r)
    return tuple(out)


def pat_ints(pat):
    """set description of an integer pattern: list of (lo, hi) intervals, or None"""
    k = pat['k']
    if k in ('deref', 'derefpat'):
        return pat_ints(pat['sub'])
    if k == 'const':
        m = INT_RE.match(pat['v'])
        if m:
            return [(int(m.group(1)), int(m.group(1)))]
        if pat['v'] in ('true', 'false'):
            return [(1, 1)] if pat['v'] == 'true' else [(0, 0)]
        return None
    if k == 'range':
        m = re.match(r'^(-?\d+)_\w+\s*(\.\.=|\.\.)\s*(-?\d+)_\w+$', pat['v'])
        if m:
            lo, hi = int(m.group(1)), int(m.group(3))
            if m.group(2) == '..':
                hi -= 1
            return [(lo, hi)]
        return None
    if k == 'or':
        out = []
        for p in pat['pats']:
            r = pat_ints(p)
            if r is None:
                return None
            out += r
        return out
    return None


class Evaluator:
    def __init__(self, facts):
        self.facts = facts
        self.uid = UID()
        self.opaque_log = []
        self.extra_inputs = []
        self._input_adts = None
        self._assigned = {}
        self.emit_sinkw = False     # also record writes into local buffers as in-path events   # further values that denote an Input (e.g. self.input of a wrapper)

    def assigned_vars(self, fn):
        """ids of local variables that are re-assigned somewhere in the body (their symbolic value
        is not the initialiser)"""
        p = fn['path']
        if p not in self._assigned:
            acc = set()
            bor = set()

            def scan(n):
                if isinstance(n, dict):
                    if n.get('k') in ('assign', 'assignop'):
                        l = n['l']
                        while isinstance(l, dict) and l.get('k') in ('deref',):
                            l = l['e']
                        if isinstance(l, dict) and l.get('k') in ('var', 'upvar'):
                            acc.add(l['v'])
                    if n.get('k') in ('ref', 'rawref') and n.get('mut'):
                        l = n['e']
                        while isinstance(l, dict) and l.get('k') in ('deref', 'field', 'index'):
                            l = l['e']
                        if isinstance(l, dict) and l.get('k') in ('var', 'upvar'):
                            bor.add(l['v'])
                    for x in n.values():
                        if isinstance(x, (dict, list)):
                            scan(x)
                elif isinstance(n, list):
                    for x in n:
                        scan(x)
            scan(fn.get('thir'))
            for c in self.facts.children.get(p, []):
                scan(c.get('thir'))
            self._assigned[p] = (acc, bor - acc)
        return self._assigned[p]

    def input_adts(self):
        if self._input_adts is None:
            self._input_adts = {(i.get('self_ty') or {}).get('path') for i in self.facts.impls_of('Input')} - {None}
        return self._input_adts

    # ---------------------------------------------------------------- patterns
    def bind_pat(self, pat, val, ctx):
        if pat is None:
            return
        k = pat['k']
        if k == 'bind':
            ctx.env[pat['v']] = val
            if pat.get('sub'):
                self.bind_pat(pat['sub'], val, ctx)
        elif k in ('deref', 'derefpat'):
            self.bind_pat(pat['sub'], val, ctx)
        elif k == 'guard':
            self.bind_pat(pat['sub'], val, ctx)
        elif k == 'variant':
            v = strip(val)
            for i, sp in pat['subs']:
                if pat['name'] in ('Ok', 'Some', 'Continue') and isinstance(v, tuple) and v[0] in ('res', 'opt'):
                    self.bind_pat(sp, v[1], ctx)
                elif pat['name'] in ('Err', 'Break') and isinstance(v, tuple) and v[0] in ('res', 'tried'):
                    self.bind_pat(sp, ('error',), ctx)
                elif isinstance(v, tuple) and v[0] == 'adt' and v[2] == pat['name'] and any(fi == i for fi, _ in v[3]):
                    self.bind_pat(sp, [fv for fi, fv in v[3] if fi == i][0], ctx)
                else:
                    self.bind_pat(sp, ('field', v, i, pat['name']), ctx)
        elif k == 'leaf':
            v = strip(val)
            for i, sp in pat['subs']:
                if isinstance(v, tuple) and v[0] == 'tuple' and i < len(v[1]):
                    self.bind_pat(sp, v[1][i], ctx)
                elif isinstance(v, tuple) and v[0] == 'adt' and any(fi == i for fi, _ in v[3]):
                    self.bind_pat(sp, [fv for fi, fv in v[3] if fi == i][0], ctx)
                else:
                    self.bind_pat(sp, ('field', v, i, None), ctx)
        elif k == 'or':
            for p in pat['pats']:
                self.bind_pat(p, val, ctx)
        elif k == 'slicepat':
            # `[a, b, ..]` / `[x]`: the i-th prefix pattern is element i (an array literal gives the element itself)
            v = strip(val)
            while isinstance(v, tuple) and v and v[0] in ('ref', 'deref'):
                v = strip(v[1])
            for i, sp in enumerate(pat.get('prefix') or []):
                if isinstance(v, tuple) and v[0] == 'array' and i < len(v[1]):
                    self.bind_pat(sp, v[1][i], ctx)
                else:
                    self.bind_pat(sp, ('index', v, ('lit', i, 'usize', ())), ctx)

    # ---------------------------------------------------------------- helpers
    def opaque(self, why, e, ctx):
        loc = (e or {}).get('loc', ctx.fn.get('loc', '?'))
        self.opaque_log.append((ctx.fn['path'], why, loc))
        return ['opaque', why, loc]

    def is_dest(self, v):
        return strip(v) == ('dest',)

    def is_input(self, v):
        v = strip(v)
        if isinstance(v, tuple) and v and v[0] == 'input':
            return True
        return any(v == x for x in self.extra_inputs)

    def local_sink(self, v, ctx):
        v = strip(v)
        if isinstance(v, tuple) and v[0] == 'sink':
            return v[1]
        if isinstance(v, tuple) and v[0] == 'field':
            return self.local_sink(v[1], ctx)
        return None

    def is_err_value(self, v):
        v = strip(v)
        return isinstance(v, tuple) and (v[0] == 'never' or (v[0] == 'adt' and v[2] == 'Err') or v[0] == 'errres')

    # ---------------------------------------------------------------- expressions
    def ev(self, e, ctx):
        if e is None:
            return (('unit',), ['eps'])
        k = e['k']
        if k in ('ref', 'deref', 'coerce', 'rawref'):
            v, t = self.ev(e['e'], ctx)
            if k in ('ref', 'rawref'):
                return (('ref', v, bool(e.get('mut'))), t)
            return ((k, v), t)
        if k in ('var', 'upvar'):
            return (ctx.env.get(e['v'], ('var', e['v'], e.get('ty'))), ['eps'])
        if k == 'lit':
            return (('lit', e['v'], e['ty'], tuple(e.get('expn') or ())), ['eps'])
        if k == 'const':
            return (('const', e['path'], e.get('val'), e.get('def')), ['eps'])
        if k == 'zst':
            if e.get('fn'):
                return (('fnitem', e['fn'], tuple(e.get('ga') or ())), ['eps'])
            return (('zst', e['ty']), ['eps'])
        if k in ('nlit', 'cparam', 'constblock', 'static', 'tls'):
            return ((k, e.get('path') or e.get('name') or e.get('id') or e.get('v'), e.get('ty')), ['eps'])
        if k == 'field':
            v, t = self.ev(e['e'], ctx)
            sv = strip(v)
            if isinstance(sv, tuple) and sv[0] == 'tuple' and e['i'] < len(sv[1]):
                return (sv[1][e['i']], t)
            if isinstance(sv, tuple) and sv[0] == 'adt':
                for fi, fv in sv[3]:
                    if fi == e['i']:
                        return (fv, t)
            return (('field', sv, e['i'], self.facts.canon_field(e.get('lty'), e.get('fname'))), t)
        if k == 'cast':
            v, t = self.ev(e['e'], ctx)
            return (('cast', e['ty'], strip(v), e.get('from')), t)
        if k in ('bin', 'logic'):
            l, t1 = self.ev(e['l'], ctx)
            r, t2 = self.ev(e['r'], ctx)
            return (('bin', e['op'], strip(l), strip(r)), cat(t1, t2))
        if k == 'un':
            v, t = self.ev(e['e'], ctx)
            return (('un', e['op'], strip(v)), t)
        if k == 'tuple':
            vs, ts = [], []
            for x in e['es']:
                v, t = self.ev(x, ctx)
                vs.append(v)
                ts.append(t)
            return (('tuple', vs), cat(*ts))
        if k == 'array':
            vs, ts = [], []
            for x in e['es']:
                v, t = self.ev(x, ctx)
                vs.append(strip(v))
                ts.append(t)
            return (('array', vs), cat(*ts))
        if k == 'repeat':
            v, t = self.ev(e['e'], ctx)
            if str(e['n']) in ('1', '1_usize'):
                return (('array', [strip(v)]), t)       # `[x; 1]` is `[x]`
            return (('buf', e['n'], strip(v), e.get('ty')), t)
        if k == 'adt':
            fs, ts = [], []
            for fld in e['fields']:
                i, x = fld[0], fld[1]
                v, t = self.ev(x, ctx)
                fs.append((i, v))
                ts.append(t)
            if e['variant'] == 'Ok' and e['adt'].endswith('result::Result'):
                return (('res', fs[0][1]), cat(*ts))
            if e['variant'] == 'Err' and e['adt'].endswith('result::Result'):
                return (('errres', fs[0][1]), cat(*ts))
            if e['variant'] == 'Some' and e['adt'].endswith('option::Option'):
                return (('opt', fs[0][1]), cat(*ts))
            return (('adt', e['adt'], e['variant'], fs, e.get('ty')), cat(*ts))
        if k == 'closure':
            return (('closure', e['id'], dict(ctx.env)), ['eps'])
        if k == 'block':
            return self.ev_block(e, ctx)
        if k == 'if':
            return self.ev_if(e, ctx)
        if k == 'match':
            return self.ev_match(e, ctx)
        if k == 'loop':
            untouched = {i for i, kd in ctx.sink_kind.items() if i != '#touched' and kd[0] == 'vec'} - ctx.sink_kind.get('#touched', set())
            v, t = self.ev(_while_form(e['body']), ctx)
            if t == ['eps']:
                return (('unit',), t)
            c = canon_counter_loop(t) or canon_fill_loop(t, untouched)
            if c is not None:
                return (('unit',), c)
            return (('unit',), ['star', ('loop',), t])
        if k in ('return', 'break'):
            v, t = self.ev(e['e'], ctx) if e.get('e') else (('unit',), ['eps'])
            if k == 'return':
                ctx.returned.append(v)
                sv = strip(v)
                if self.is_err_value(v) or sv == ('error',) or (
                        isinstance(sv, tuple) and sv[0] == 'call' and sv[1] == 'from_residual'):
                    if sv[0] == 'call':
                        return (('never',), t)   # `?` residual: the ['?'] marker is emitted by TryDesugar
                    return (('never',), cat(t, ['ERR', 'return Err']))
                return (('returned', v), cat(t, ['RET', v]))
            return (('brk',), t)
        if k == 'continue':
            return (('never',), ['eps'])
        if k in ('assign', 'assignop'):
            l, t1 = self.ev(e['l'], ctx)
            r, t2 = self.ev(e['r'], ctx)
            ev_ = ['eps']
            sl = strip(l)
            if isinstance(sl, tuple) and (sl[0] in ('field', 'index', 'mutvar') or sl == ('self',) or sl[0] == 'param'):
                ev_ = ['SET', sl, strip(r), e.get('op')]
            return (('unit',), cat(t1, t2, ev_))
        if k == 'index':
            v, t1 = self.ev(e['e'], ctx)
            i, t2 = self.ev(e['i'], ctx)
            return (('index', strip(v), strip(i)), cat(t1, t2))
        if k == 'call':
            return self.ev_call(e, ctx)
        if k == 'callptr':
            return (('callptr',), self.opaque('call through function pointer', e, ctx))
        if k in ('let', 'letcond'):
            v, t = self.ev(e['e'], ctx)
            self.bind_pat(e['pat'], v, ctx)
            return (('letcond', pat_desc(e['pat']), strip(v)), t)
        return (('opaque', k), self.opaque('THIR node ' + k, e, ctx))

    def ev_block(self, e, ctx):
        ts = []
        for s in e['stmts']:
            if s['k'] == 'let':
                v, t = self.ev(s['init'], ctx) if s['init'] else (('uninit',), ['eps'])
                ts.append(t)
                sv0 = strip(v)
                sinkk = None
                if isinstance(sv0, tuple) and sv0[0] == 'call' and sv0[1] in ('new', 'with_capacity') and 'vec::Vec' in sv0[2]:
                    sinkk = 'vec'
                if isinstance(sv0, tuple) and sv0[0] == 'adt' and sv0[1].endswith('ArrayVecWrapper'):
                    sinkk = 'arrayvec'
                if isinstance(sv0, tuple) and sv0[0] == 'adt' and sv0[1].endswith('SizeTracker'):
                    sinkk = 'sizetracker'
                asg, bor = self.assigned_vars(ctx.fn)
                if (not sinkk) and s['pat']['k'] == 'bind' and (s['pat']['v'] in asg or s['pat']['v'] in bor):
                    ctx.env[s['pat']['v']] = ('mutvar', s['pat']['v'], s['pat']['name'], strip(v), s['pat']['v'] in asg)
                elif sinkk and s['pat']['k'] == 'bind':
                    ctx.env[s['pat']['v']] = ('sink', s['pat']['v'])
                    ctx.sinks[s['pat']['v']] = []
                    ctx.sink_kind[s['pat']['v']] = (sinkk, sv0)
                else:
                    self.bind_pat(s['pat'], v, ctx)
                if s.get('else'):
                    # `let PAT = v else { diverge }` is `match v { PAT => .., _ => diverge }`: same alt as the match
                    v2, t2 = self.ev(s['else'], ctx)
                    pd = pat_desc(s['pat'])
                    sv1 = strip(v)
                    if pd in ('Some', 'None') and isinstance(sv1, tuple) and sv1 and sv1[0] == 'ifval' and \
                            isinstance(strip(sv1[2]), tuple) and isinstance(strip(sv1[3]), tuple) and \
                            {strip(sv1[2])[0], strip(sv1[3])[0]} == {'opt', 'adt'}:
                        # the scrutinee is `if c { Some(x) } else { None }` (a checked access): the same branch on c
                        some_first = strip(sv1[2])[0] == 'opt'
                        payload = strip(sv1[2])[1] if some_first else strip(sv1[3])[1]
                        if pd == 'Some':
                            for i_, sp_ in s['pat']['subs']:
                                self.bind_pat(sp_, payload, ctx)
                        if self.is_err_value(v2) and not _ends_err(t2):
                            t2 = cat(t2, ['ERR', 'Err value'])
                        match_true = (pd == 'Some') == some_first
                        ts.append(['alt', ('if', sv1[1]), [('true', ['eps'] if match_true else t2), ('false', t2 if match_true else ['eps'])]])
                        continue
                    other = {'Some': 'None', 'None': 'Some', 'Ok': 'Err', 'Err': 'Ok'}.get(pd, '_')
                    if self.is_err_value(v2) and not _ends_err(t2):
                        t2 = cat(t2, ['ERR', 'Err value'])
                    ts.append(['alt', strip(v), [(('pat', pd, pat_ints(s['pat'])), ['eps']), (('pat', other, None), t2)]])
            else:
                v, t = self.ev(s, ctx)
                ts.append(t)
                if strip(v) == ('never',) and s.get('k') in ('return',):
                    break
        v, t = self.ev(e['expr'], ctx) if e['expr'] else (('unit',), ['eps'])
        ts.append(t)
        return (v, cat(*ts))

    def ev_if(self, e, ctx):
        c, tc = self.ev(e['cond'], ctx)
        sc = _simplify_bool(strip(c))
        # literal condition produced by cfg!(..): only the taken branch exists on this target
        if isinstance(sc, tuple) and sc[0] == 'lit' and isinstance(sc[1], bool):
            if sc[1]:
                v1, t1 = self.ev(e['then'], ctx)
                return (v1, cat(tc, ['CFG', sc], t1))
            v2, t2 = self.ev(e['else'], ctx) if e['else'] else (('unit',), ['eps'])
            return (v2, cat(tc, ['CFG', sc], t2))
        c1 = ctx.child()
        v1, t1 = self.ev(e['then'], c1)
        c2 = ctx.child()
        v2, t2 = self.ev(e['else'], c2) if e['else'] else (('unit',), ['eps'])
        a1 = t1 if not self.is_err_value(v1) or _ends_err(t1) else cat(t1, ['ERR', 'Err value'])
        a2 = t2 if not self.is_err_value(v2) or _ends_err(t2) else cat(t2, ['ERR', 'Err value'])
        if a1 == ['eps'] and a2 == ['eps']:
            mm = _ifval_minmax(sc, strip(v1), strip(v2))
            if mm is not None:
                return (mm, tc)
            return (('ifval', sc, v1, v2), tc)
        if self.is_err_value(v1) or strip(v1) == ('never',):
            val = v2
        elif self.is_err_value(v2) or strip(v2) == ('never',):
            val = v1
        else:
            val = ('ifval', sc, v1, v2)
        return (val, cat(tc, ['alt', ('if', sc), [('true', a1), ('false', a2)]]))

    def find_forloop_inner(self, body):
        n = body
        for _ in range(8):
            if n is None:
                return None
            if n['k'] == 'match' and n['src'] == 'ForLoopDesugar':
                return n
            if n['k'] == 'loop':
                n = n['body']
            elif n['k'] == 'block':
                n = n['expr'] if n['expr'] else (n['stmts'][0] if n['stmts'] else None)
            else:
                return None
        return None

    def ev_match(self, e, ctx):
        if e.get('src') == 'Normal' and len(e['arms']) == 2 and (e['scrut'].get('ty') == 'bool') and not any(a.get('guard') for a in e['arms']):
            # `match cond { true => a, false => b }` (or with a wildcard second arm) is `if cond { a } else { b }`
            def bval(p):
                if p.get('k') == 'const' and p.get('ty') == 'bool' and p.get('v') in ('true', 'false'):
                    return p['v'] == 'true'
                if p.get('k') in ('lit',) and isinstance(p.get('v'), bool):
                    return p['v']
                if p.get('k') == 'wild':
                    return None
                return 'no'
            b0, b1 = bval(e['arms'][0]['pat']), bval(e['arms'][1]['pat'])
            if b0 in (True, False) and (b1 is None or b1 == (not b0)):
                then = e['arms'][0]['body'] if b0 else e['arms'][1]['body']
                els = e['arms'][1]['body'] if b0 else e['arms'][0]['body']
                return self.ev_if({'k': 'if', 'cond': e['scrut'], 'then': then, 'else': els, 'loc': e.get('loc')}, ctx)
        if e.get('src') == 'Normal' and len(e['arms']) == 2 and not any(a.get('guard') for a in e['arms']):
            # `match s { [] => a, [..] => b }` (or `_ => b`) is `if s.is_empty() { a } else { b }`
            def empty_pat(p):
                while p.get('k') in ('deref', 'derefpat'):
                    p = p['sub']
                return p.get('k') == 'slicepat' and not p.get('prefix') and not p.get('suffix') and p.get('slice') is None

            def any_pat(p):
                while p.get('k') in ('deref', 'derefpat'):
                    p = p['sub']
                if p.get('k') == 'wild':
                    return True
                return p.get('k') == 'slicepat' and not p.get('prefix') and not p.get('suffix') and p.get('slice') is not None and \
                    (p['slice'] or {}).get('k') in ('wild', None)
            p0, p1 = e['arms'][0]['pat'], e['arms'][1]['pat']
            if (empty_pat(p0) and any_pat(p1)) or (empty_pat(p1) and any_pat(p0) and False):
                sc_e = e['scrut']
                cond = {'k': 'call', 'f': 'core::slice::<impl [T]>::is_empty', 'fa': 'core::slice::<impl [T]>::is_empty', 'name': 'is_empty', 'trait': None,
                        'inherent': '[T]', 'crate': 'core', 'local': False, 'unsafe': False, 'hir_call': False, 'ga': [], 'args': [sc_e], 'ty': 'bool', 'loc': e.get('loc'), 'exp': False}
                return self.ev_if({'k': 'if', 'cond': cond, 'then': e['arms'][0]['body'], 'else': e['arms'][1]['body'], 'loc': e.get('loc')}, ctx)
        sv, ts = self.ev(e['scrut'], ctx)
        sv1_ = strip(sv)
        if e.get('src') == 'Normal' and len(e['arms']) == 2 and isinstance(sv1_, tuple) and sv1_ and sv1_[0] == 'ifval' and \
                isinstance(strip(sv1_[2]), tuple) and isinstance(strip(sv1_[3]), tuple) and {strip(sv1_[2])[0], strip(sv1_[3])[0]} == {'opt', 'adt'} and \
                not any(a.get('guard') for a in e['arms']):
            # the scrutinee is a checked access `if c { Some(x) } else { None }`: the match on it is the branch on c
            names = [(a['pat'].get('name') if a['pat'].get('k') == 'variant' else ('_' if a['pat'].get('k') == 'wild' else None)) for a in e['arms']]
            if set(names) <= {'Some', 'None', '_'} and 'Some' in names:
                some_first = strip(sv1_[2])[0] == 'opt'
                payload = strip(sv1_[2])[1] if some_first else strip(sv1_[3])[1]
                res = {}
                for a, nm in zip(e['arms'], names):
                    sub = ctx.child()
                    if nm == 'Some':
                        for i_, sp_ in a['pat']['subs']:
                            self.bind_pat(sp_, payload, sub)
                    v_, t_ = self.ev(a['body'], sub)
                    if self.is_err_value(v_) and not _ends_err(t_):
                        t_ = cat(t_, ['ERR', 'Err value'])
                    res['Some' if nm == 'Some' else 'None'] = (v_, t_)
                if 'Some' in res and 'None' in res:
                    (vs_, ts_), (vn_, tn_) = res['Some'], res['None']
                    tt, tf = (ts_, tn_) if some_first else (tn_, ts_)
                    vt, vf = (vs_, vn_) if some_first else (vn_, vs_)
                    if self.is_err_value(vt) or strip(vt) == ('never',):
                        val = vf
                    elif self.is_err_value(vf) or strip(vf) == ('never',):
                        val = vt
                    else:
                        val = ('ifval', sv1_[1], vt, vf)
                    return (val, cat(ts, ['alt', ('if', sv1_[1]), [('true', tt), ('false', tf)]]))
        if e['src'] == 'ForLoopDesugar' and len(e['arms']) == 1:
            src = strip(sv)
            if isinstance(src, tuple) and src[0] == 'call' and src[1] == 'into_iter':
                src = strip(src[3][0])
            inner = self.find_forloop_inner(e['arms'][0]['body'])
            if inner is not None:
                somearm = [a for a in inner['arms'] if pat_desc(a['pat']) == 'Some' or (a['pat'].get('k') == 'variant' and a['pat'].get('name') == 'Some')]
                if somearm:
                    somearm = somearm[0]
                    if isinstance(src, tuple) and src and src[0] == 'mapiter':
                        # `for x in it.map(f)`: each iteration applies f to the next element of `it`, then runs the body on the result
                        r_ = self.apply_closure(src[2], [('elem', src[1])], ctx)
                        if r_:
                            cv, ct, _rets = r_
                            for i, sp in somearm['pat']['subs']:
                                self.bind_pat(sp, cv, ctx)
                            v, tb = self.ev(somearm['body'], ctx)
                            return (('unit',), cat(ts, ['star', src[1], cat(ct, tb)]))
                    if isinstance(src, tuple) and src[0] == 'array' and 0 < len(src[1]) <= 8:
                        # a loop over an array literal is the sequence of its bodies, one per element
                        tbs = []
                        for el in src[1]:
                            for i, sp in somearm['pat']['subs']:
                                self.bind_pat(sp, el, ctx)
                            v, tb = self.ev(somearm['body'], ctx)
                            tbs.append(tb)
                        return (('unit',), cat(ts, *tbs))
                    for i, sp in somearm['pat']['subs']:
                        self.bind_pat(sp, ('elem', src), ctx)
                    v, tb = self.ev(somearm['body'], ctx)
                    cp = _zip_copy(src, tb)
                    if cp is not None:
                        return (('unit',), cat(ts, ['MUTCALL', 'copy_from_slice', 'core::slice::<impl [T]>::copy_from_slice', cp, e.get('loc'), ()]))
                    return (('unit',), cat(ts, ['star', src, tb]))
            return (('unit',), cat(ts, self.opaque('unrecognised for-loop desugaring', e, ctx)))
        if e['src'] == 'TryDesugar':
            inner = strip(sv)
            if isinstance(inner, tuple) and inner[0] == 'call' and inner[1] == 'branch':
                inner = strip(inner[3][0])
            if isinstance(inner, tuple) and inner[0] in ('res', 'opt'):
                return (inner[1], cat(ts, ['?']))
            return (('tried', inner), cat(ts, ['?']))
        arms = []
        vals = []
        for a in e['arms']:
            sub = ctx.child()
            self.bind_pat(a['pat'], sv, sub)
            tg = ['eps']
            if a['pat']['k'] == 'guard' or a.get('guard'):
                gv, tg = self.ev(a['pat']['cond'] if a['pat']['k'] == 'guard' else a['guard'], sub)
                desc = ('guard', pat_desc(a['pat']), strip(gv))
            else:
                desc = ('pat', pat_desc(a['pat']), pat_ints(a['pat']))
                pt_ = pat_tuple_ints(a['pat'])
                if pt_ is not None:
                    desc = desc + (pt_,)
            v, t = self.ev(a['body'], sub)
            if self.is_err_value(v) and not _ends_err(t):
                t = cat(t, ['ERR', 'Err value'])
            arms.append((desc, cat(tg, t)))
            vals.append((desc, v))
        good = [v for d, v in vals if not self.is_err_value(v) and strip(v) != ('never',)]
        if len(good) == 1:
            val = good[0]
        else:
            val = ('matchval', strip(sv), [(d, strip(v)) for d, v in vals])
        if all(t == ['eps'] for d, t in arms):
            ssv = strip(sv)
            if not (isinstance(ssv, tuple) and ssv and ssv[0] == 'byte'):
                return (val, ts)
            # a dispatch on a byte just read stays visible even if no arm has an effect
        # Result-unwrapping match (tuples / derive): Ok(x) => x, Err(e) => return Err(e..)
        descs = sorted(d[1] for d, _ in arms)
        if descs == ['Err', 'Ok']:
            okarm = [t for d, t in arms if d[1] == 'Ok'][0]
            errarm = [t for d, t in arms if d[1] == 'Err'][0]
            if okarm == ['eps'] and _ends_err(errarm) and len(items(errarm)) == 1:
                ssv = strip(sv)
                okv = [v for d, v in vals if d[1] == 'Ok'][0]
                return (okv, cat(ts, ['?']))
        return (val, cat(ts, ['alt', strip(sv), arms]))

    # ---------------------------------------------------------------- calls
    def apply_closure(self, cv, args, ctx):
        cv = strip(cv)
        was_fnitem = None
        if isinstance(cv, tuple) and cv and cv[0] == 'fnitem' and cv[1] in self.facts.by_path:
            # a named function passed where a closure is expected
            was_fnitem = cv
            cv = ('closure', cv[1], {})
        if not (isinstance(cv, tuple) and cv[0] == 'closure'):
            return None
        cf = self.facts.by_path.get(cv[1])
        if not cf or ctx.depth >= MAX_DEPTH:
            return None
        sub = Ctx(self, cf, ctx.depth + 1)
        sub.env = dict(cv[2])
        sub.sinks = ctx.sinks
        sub.sink_kind = ctx.sink_kind
        sub.returned = []
        ps = cf['params'][1:] if len(cf['params']) == len(args) + 1 else cf['params']
        for p, a in zip(ps, args):
            self.bind_pat(p, a, sub)
        v, t = self.ev(cf['thir'], sub)
        if was_fnitem is not None and not [x for x in walk(t) if x[0] not in ('cat', 'alt', 'eps', 'RET', 'CFG')]:
            # a pure function passed by name: its application stays the symbolic call `f(args)`, exactly as if it had
            # been called directly
            return (('call', tname(was_fnitem[1]), was_fnitem[1], list(args), tuple(was_fnitem[2]), None, None), ['eps'], [])
        if any(x[0] == 'RET' for x in walk(t)):
            # early returns of the applied closure / function item are local to it
            t = ['HELPER', 'closure:' + tname(cv[1]), t]
        return (v, t, sub.returned)

    def ev_call(self, e, ctx):
        name = e['name']
        tr = tname(e['trait']) if e['trait'] else None
        f = e['f']
        argv, ts = [], []
        for a in e['args']:
            v, t = self.ev(a, ctx)
            argv.append(v)
            ts.append(t)
        pre = cat(*ts)
        local = e.get('local') or e.get('crate') == 'parity_scale_codec'
        # ------------------------------------------------ Output effects
        if tr == 'Output' and name in ('push_byte', 'write') and local:
            tgt = argv[0]
            evn = ['byte' if name == 'push_byte' else 'write', strip(argv[1])]
            if self.is_dest(tgt):
                return (('unit',), cat(pre, evn))
            ls = self.local_sink(tgt, ctx)
            if ls is not None:
                ctx.sinks.setdefault(ls, []).append(evn)
                return (('unit',), cat(pre, ['SINKW', ls, evn]) if self.emit_sinkw else pre)
            return (('unit',), cat(pre, self.opaque('write to an unknown sink', e, ctx)))
        if tr == 'Encode' and local and name == 'encode_to':
            tgt = argv[1]
            evn = ['enc', e['ga'][0], strip(argv[0])]
            if self.is_dest(tgt):
                return (('unit',), cat(pre, evn))
            ls = self.local_sink(tgt, ctx)
            if ls is not None:
                ctx.sinks.setdefault(ls, []).append(evn)
                return (('unit',), cat(pre, ['SINKW', ls, evn]) if self.emit_sinkw else pre)
            return (('unit',), cat(pre, self.opaque('encode_to into an unknown sink', e, ctx)))
        if tr == 'Encode' and local and name == 'encode':
            return (('encoded', e['ga'][0], strip(argv[0])), pre)
        if tr == 'Encode' and local and name == 'encoded_size':
            return (('encoded_size', e['ga'][0], strip(argv[0])), pre)
        if tr == 'Encode' and local and name == 'size_hint':
            return (('size_hint', e['ga'][0], strip(argv[0])), pre)
        if tr == 'Encode' and local and name == 'using_encoded':
            cbv = strip(argv[1])
            if isinstance(cbv, tuple) and cbv[0] == 'closure':
                r = self.apply_closure(cbv, [('cbarg', e['ga'][0], strip(argv[0]))], ctx)
                if r:
                    v, t, _ = r
                    # the closure's effects, with "write(cbarg)" meaning "the encoding of the receiver"
                    t2 = _subst_cbarg(t, e['ga'][0], strip(argv[0]))
                    return (('cbresult', v), cat(pre, t2))
            if cbv == ('cb',):
                return (('cbresult', None), cat(pre, ['enc', e['ga'][0], strip(argv[0])]))
            return (('unit',), cat(pre, self.opaque('using_encoded with an unrecognised callback', e, ctx)))
        # ---- invocation of the using_encoded callback: f(slice)
        if name in ('call_once', 'call_mut', 'call') and tr in ('FnOnce', 'FnMut', 'Fn'):
            fv = strip(argv[0])
            tup = strip(argv[1])
            args = tup[1] if isinstance(tup, tuple) and tup[0] == 'tuple' else [tup]
            if fv == ('cb',):
                return (('cbresult', None), cat(pre, self.slice_term(args[0], ctx, e)))
            r = self.apply_closure(fv, args, ctx)
            if r:
                v, t, rets = r
                return (v, cat(pre, t))
            if isinstance(fv, tuple) and fv[0] == 'param_fn':
                if not str(e.get('ty') or '').startswith('core::result::Result'):
                    # a callback that cannot fail (e.g. a size estimate `FnOnce(u32) -> usize`)
                    return (('call', 'callback:' + str(fv[1]), 'callback', [strip(a) for a in args], (), None, e.get('loc')),
                            cat(pre, ['CALLBACK', fv[1], [strip(a) for a in args], 'infallible']))
                return (('res', ('cbres',)), cat(pre, ['CALLBACK', fv[1], [strip(a) for a in args]]))
            return (('unknown',), cat(pre, self.opaque('call of an unknown closure value', e, ctx)))
        # ------------------------------------------------ Input effects
        if tr == 'Input' and local and argv and self.is_input(argv[0]):
            if name == 'read_byte':
                u = self.uid.next()
                return (('res', ('byte', u)), cat(pre, ['rb', u]))
            if name == 'read':
                u = self.uid.next()
                return (('res', ('io', 'read', u)), cat(pre, ['read', strip(argv[1]), u]))
            if name == 'descend_ref':
                u = self.uid.next()
                return (('res', ('io', 'descend_ref', u)), cat(pre, ['DESC', u]))
            if name == 'ascend_ref':
                u = self.uid.next()
                return (('io', 'ascend_ref', u), cat(pre, ['ASC', u]))
            if name == 'on_before_alloc_mem':
                u = self.uid.next()
                return (('res', ('io', 'on_before_alloc_mem', u)), cat(pre, ['HOOK', strip(argv[1]), u]))
            if name == 'remaining_len':
                u = self.uid.next()
                return (('res', ('remaining', u)), cat(pre, ['REMLEN', u]))
            if name == 'scale_internal_decode_bytes':
                u = self.uid.next()
                return (('res', ('decoded', 'bytes::Bytes', u, 'bytes')), cat(pre, ['dec', 'bytes::Bytes', u, 'bytes']))
        if tr == 'Decode' and local and name in ('decode', 'decode_into', 'skip') and argv:
            ty = e['ga'][0]
            a0 = deinit(strip(argv[0]))
            u = self.uid.next()
            if self.is_input(a0):
                mode = name
                extra = strip(argv[1]) if name == 'decode_into' and len(argv) > 1 else None
                return (('res', ('decoded', ty, u, mode)), cat(pre, ['dec', ty, u, mode, extra]))
            if isinstance(a0, tuple) and a0[0] == 'adt' and a0[1].endswith('PrefixInput'):
                return (('res', ('decoded', ty, u, 'prefixed', a0)), cat(pre, ['dec', ty, u, 'prefixed', a0]))
            if isinstance(a0, tuple) and a0[0] == 'adt':
                # decoding through a locally constructed input (depth/mem tracking, counted, cursor)
                inner = [fv for fi, fv in a0[3] if self.is_input(fv)]
                if inner or a0[1] in self.input_adts():
                    return (('res', ('decoded', ty, u, 'wrapped_input', a0)), cat(pre, ['dec', ty, u, 'wrapped_input', a0]))
            if isinstance(a0, tuple) and a0[0] == 'sink_input':
                return (('res', ('decoded', ty, u, 'wrapped_input', a0)), cat(pre, ['dec', ty, u, 'wrapped_input', a0]))
        if tr == 'DecodeLength' and name == 'len' and argv and self.is_input(argv[0]):
            u = self.uid.next()
            return (('res', ('decoded', e['ga'][0], u, 'len')), cat(pre, ['dec', e['ga'][0], u, 'len', None]))
        if tr in ('DecodeLimit', 'DecodeAll', 'DecodeWithMemLimit') and local and any(self.is_input(a) for a in argv):
            u = self.uid.next()
            return (('res', ('decoded', e['ga'][0], u, name)), cat(pre, ['dec', e['ga'][0], u, name, [strip(a) for a in argv]]))
        if tr == 'WrapperTypeDecode' and name == 'decode_wrapped' and argv and self.is_input(argv[0]):
            u = self.uid.next()
            return (('res', ('decoded', e['ga'][0], u, 'decode_wrapped')), cat(pre, ['dec', e['ga'][0], u, 'decode_wrapped', None]))
        if f in ('core::mem::take', 'core::mem::replace') and argv and isinstance(argv[0], tuple) and argv[0] and argv[0][0] == 'ref':
            # `mem::take(&mut place)` / `mem::replace(&mut place, v)`: the old value, and an assignment to the place
            place = strip(argv[0])
            if isinstance(place, tuple) and place and place[0] in ('field', 'mutvar'):
                if f.endswith('replace') and len(argv) == 2:
                    newv = strip(argv[1])
                else:
                    ty0 = (e.get('ga') or ['?'])[0]
                    newv = ('lit', 0, ty0, ()) if ty0 in ('usize', 'u8', 'u16', 'u32', 'u64', 'u128', 'isize', 'i8', 'i16', 'i32', 'i64', 'i128') else \
                        (('adt', 'core::option::Option', 'None', [], None) if ty0.startswith('core::option::Option') else ('default', ty0))
                # the value is the one the place held BEFORE the assignment: keep it distinguishable from a later read of the place
                oldv = ('call', 'take' if f.endswith('take') else 'replace', f, [place], tuple(e.get('ga') or ()), None, e.get('loc'))
                return (oldv, cat(pre, ['SET', place, newv, None]))
        if name in ('get', 'get_mut') and f.startswith('core::slice::<impl [T]>::') and len(argv) == 2:
            # checked indexing: Some(&s[r]) exactly when r lies within the slice
            recv, rng = strip(argv[0]), strip(argv[1])
            ln = ('call', 'len', 'core::slice::<impl [T]>::len', [recv], (), None, e.get('loc'))
            cond = None
            if isinstance(rng, tuple) and rng and rng[0] == 'adt':
                fs = dict(rng[3])
                if rng[1].endswith('RangeTo'):
                    cond = ('bin', 'Le', strip(fs.get(0)), ln)
                elif rng[1].endswith('RangeFrom'):
                    cond = ('bin', 'Le', strip(fs.get(0)), ln)
                elif rng[1].endswith('RangeFull'):
                    cond = ('lit', True, 'bool', ())
                elif rng[1].endswith('ops::range::Range'):
                    cond = ('bin', 'And', ('bin', 'Le', strip(fs.get(0)), strip(fs.get(1))), ('bin', 'Le', strip(fs.get(1)), ln))
            if cond is not None:
                return (('ifval', cond, ('opt', ('index', recv, rng)), ('adt', 'core::option::Option', 'None', [], None)), pre)
        if name == 'from_ref' and f.startswith('core::slice') and len(argv) == 1:
            x = strip(argv[0])
            while isinstance(x, tuple) and x and x[0] == 'ref':
                x = strip(x[1])
            return (('ref', ('array', [x]), False), pre)        # `slice::from_ref(&x)` is `&[x]`
        if f == 'core::mem::size_of' and not argv and e.get('ga') and e['ga'][0] in _PRIM_SIZES:
            return (('lit', _PRIM_SIZES[e['ga'][0]], 'usize', ()), pre)
        if name in ('min', 'max') and len(argv) == 2 and (tr == 'Ord' or f in ('core::cmp::min', 'core::cmp::max')):
            return (_minmax_call(name, argv[0], argv[1]), pre)
        # ------------------------------------------------ bool::then_some / bool::then: a conditional Option
        NONE = ('adt', 'core::option::Option', 'None', [], None)
        if f.startswith('core::bool::<impl bool>::then') and len(argv) == 2:
            b = _simplify_bool(strip(argv[0]))
            if name == 'then_some':
                return (('ifval', b, ('opt', strip(argv[1])), NONE), pre)
            r = self.apply_closure(argv[1], [], ctx)
            if r and r[1] == ['eps']:
                return (('ifval', b, ('opt', strip(r[0])), NONE), pre)
        # ------------------------------------------------ combinators on Result / Option
        if f.startswith(('core::result::Result', 'core::option::Option')):
            recv = strip(argv[0]) if argv else None
            if name == 'ok' and isinstance(recv, tuple) and recv and recv[0] == 'call' and recv[1] in ('try_from', 'try_into') and recv[3]:
                # `uN::try_from(x).ok()`: Some(x as uN) exactly when x fits (an integer conversion, not an input error: nothing is swallowed)
                ga_ = [g for g in (recv[4] or ()) if g in ('u8', 'u16', 'u32', 'u64', 'u128', 'usize')]
                tgt_ = (ga_[1] if recv[1] == 'try_into' and len(ga_) > 1 else ga_[0]) if ga_ else None
                if tgt_:
                    mx = (1 << {'u8': 8, 'u16': 16, 'u32': 32, 'u64': 64, 'u128': 128, 'usize': 64}[tgt_]) - 1
                    x_ = strip(recv[3][0])
                    # under the condition the conversion is lossless: a `conv`, not a narrowing `as` cast
                    return (('ifval', ('bin', 'Le', x_, ('lit', mx, tgt_, ())), ('opt', ('conv', x_, None, tgt_)), NONE), pre)
            if name == 'filter' and len(argv) == 2 and isinstance(recv, tuple) and recv and (recv[0] == 'opt' or (
                    recv[0] == 'ifval' and isinstance(strip(recv[2]), tuple) and strip(recv[2])[0] == 'opt' and strip(recv[3]) == NONE)):
                # `opt.filter(p)`: Some(x) only when p(x) holds as well
                payload_ = recv[1] if recv[0] == 'opt' else strip(recv[2])[1]
                r_ = self.apply_closure(argv[1], [('ref', payload_, False)], ctx)
                if r_ and r_[1] == ['eps']:
                    pred_ = _simplify_bool(strip(r_[0]))
                    cond_ = pred_ if recv[0] == 'opt' else ('bin', 'And', recv[1], pred_)
                    return (('ifval', cond_, ('opt', payload_), NONE), pre)
            if isinstance(recv, tuple) and recv and recv[0] == 'ifval' and name in ('ok_or', 'ok_or_else', 'map_or', 'map_or_else', 'map', 'unwrap_or', 'unwrap_or_else') and \
                    all(isinstance(strip(a), tuple) and (strip(a)[0] == 'opt' or strip(a) == NONE) for a in (recv[2], recv[3])):
                # a conditional Option taken apart by a combinator: the same `if` with the combinator applied to each side
                def ctor(fv, args):
                    fv = strip(fv)
                    if isinstance(fv, tuple) and fv and fv[0] == 'fnitem':
                        if fv[1].endswith('Result::Err'):
                            return (('adt', 'core::result::Result', 'Err', [(0, args[0])], None), ['eps'])
                        if fv[1].endswith('Result::Ok'):
                            return (('res', args[0]), ['eps'])
                        if fv[1].endswith('Option::Some'):
                            return (('opt', args[0]), ['eps'])
                    r_ = self.apply_closure(fv, args, ctx)
                    return (r_[0], r_[1]) if r_ else None

                def side(x):
                    x = strip(x)
                    some = x[0] == 'opt'
                    if name in ('ok_or', 'ok_or_else'):
                        if some:
                            return (('res', x[1]), ['eps'])
                        if name == 'ok_or':
                            return (('adt', 'core::result::Result', 'Err', [(0, strip(argv[1]))], None), ['eps'])
                        r_ = ctor(argv[1], [])
                        return (('adt', 'core::result::Result', 'Err', [(0, strip(r_[0]))], None), r_[1]) if r_ else None
                    if name == 'map':
                        if not some:
                            return (NONE, ['eps'])
                        r_ = ctor(argv[1], [x[1]])
                        return (('opt', strip(r_[0])), r_[1]) if r_ else None
                    if name in ('map_or', 'map_or_else'):
                        if some:
                            return ctor(argv[2], [x[1]])
                        return (strip(argv[1]), ['eps']) if name == 'map_or' else ctor(argv[1], [])
                    if name in ('unwrap_or', 'unwrap_or_else'):
                        if some:
                            return (x[1], ['eps'])
                        return (strip(argv[1]), ['eps']) if name == 'unwrap_or' else ctor(argv[1], [])
                    return None
                s1, s2 = side(recv[2]), side(recv[3])
                if s1 is not None and s2 is not None:
                    (v1, t1), (v2, t2) = s1, s2
                    a1 = t1 if not self.is_err_value(v1) or _ends_err(t1) else cat(t1, ['ERR', 'Err value'])
                    a2 = t2 if not self.is_err_value(v2) or _ends_err(t2) else cat(t2, ['ERR', 'Err value'])
                    if a1 == ['eps'] and a2 == ['eps']:
                        return (('ifval', recv[1], v1, v2), pre)
                    if self.is_err_value(v1):
                        val = v2
                    elif self.is_err_value(v2):
                        val = v1
                    else:
                        val = ('ifval', recv[1], v1, v2)
                    return (val, cat(pre, ['alt', ('if', recv[1]), [('true', a1), ('false', a2)]]))
            inner = recv[1] if isinstance(recv, tuple) and recv[0] in ('res', 'opt') else ('unwrapped', recv)
            if name == 'and_then':
                r = self.apply_closure(argv[1], [inner], ctx)
                if r:
                    v, t, rets = r
                    return (v, cat(pre, ['?'], t))
            if name in ('is_some_and', 'is_ok_and') and len(argv) == 2:
                # `opt.is_some_and(|x| p(x))` is `if let Some(x) = opt { p(x) } else { false }`
                payload = ('field', recv, 0, 'Some' if name == 'is_some_and' else 'Ok')
                r = self.apply_closure(argv[1], [payload], ctx)
                if r and r[1] == ['eps']:
                    return (('bin', 'And', ('letcond', 'Some' if name == 'is_some_and' else 'Ok', recv), strip(r[0])), pre)
            if name in ('map', 'inspect'):
                r = self.apply_closure(argv[1], [inner], ctx)
                if r:
                    v, t, rets = r
                    if name == 'inspect':
                        return (argv[0], cat(pre, ['ONOK', t]))
                    return (('res', v), cat(pre, ['ONOK', t]) if t != ['eps'] else pre)
                fv = strip(argv[1])
                if isinstance(fv, tuple) and fv and fv[0] == 'fnitem' and name == 'map':
                    # a variant constructor passed by name: `.map(Ok)`, `.map(Err)`, `.map(Some)`
                    wrap = 'res' if isinstance(recv, tuple) and recv and recv[0] == 'res' else ('opt' if isinstance(recv, tuple) and recv and recv[0] == 'opt' else 'res')
                    if fv[1].endswith('Result::Ok'):
                        return ((wrap, ('res', inner)), pre)
                    if fv[1].endswith('Option::Some'):
                        return ((wrap, ('opt', inner)), pre)
                    if fv[1].endswith('Result::Err'):
                        return ((wrap, ('adt', 'core::result::Result', 'Err', [(0, inner)], None)), pre)
                return (('res', ('mapped', fv, inner)), pre)
            if name == 'map_err':
                return (argv[0], pre)
            if name == 'or' and len(argv) == 2 and self.is_err_value(argv[1]):
                # `r.or(Err(e))`: r with its error replaced, as `r.map_err(|_| e)` is
                return (argv[0], pre)
            if name in ('ok_or_else', 'ok_or'):
                return (('res', inner), cat(pre, ['CHECK', name, recv]))
            if name == 'ok':
                return (('opt', inner), cat(pre, ['SWALLOW', 'ok()', e.get('loc')]))
            if name in ('unwrap_or', 'unwrap_or_default', 'unwrap_or_else'):
                return (('call', name, f, argv, tuple(e['ga']), tr), cat(pre, ['UNWRAP_OR', name, e.get('loc')]))
            if name in ('expect', 'unwrap'):
                return (inner, cat(pre, ['PANIC', name, e.get('loc'), recv]))
            if name in ('is_some', 'is_none', 'is_ok', 'is_err'):
                return (('call', name, f, argv, tuple(e['ga']), tr), pre)
        if tr in ('Into', 'From') and argv:
            return (('conv', strip(argv[0]), e['ga'][0] if tr == 'Into' else e['ga'][1], e['ga'][1] if tr == 'Into' else e['ga'][0]), pre)
        if tr == 'Iterator' and name == 'map':
            return (('mapiter', strip(argv[0]), argv[1]), pre)
        if tr == 'Iterator' and name == 'take' and len(argv) == 2:
            # `repeat_with(f).take(n)` is `(0..n).map(|_| f())`
            src = strip(argv[0])
            if isinstance(src, tuple) and src and src[0] == 'call' and src[1] == 'repeat_with' and src[3]:
                n = strip(argv[1])
                ty = 'usize'
                if isinstance(n, tuple) and n and n[0] == 'cast' and n[1] in ('usize', 'u64') and len(n) > 3 and n[3] in ('u8', 'u16', 'u32'):
                    ty = n[3]
                    n = strip(n[2])         # a widening cast of the count does not change it
                rng = ('adt', 'core::ops::range::Range', 'Range', [(0, ('lit', 0, ty, ())), (1, n)], 'core::ops::range::Range<%s>' % ty)
                return (('mapiter', rng, src[3][0]), pre)
        if (tr == 'FromIterator' and name == 'from_iter') or (tr == 'Iterator' and name == 'collect' and len(e['ga']) > 1):
            # `B::from_iter(it)` and `it.collect::<B>()` are the same call
            target = e['ga'][0] if name == 'from_iter' else e['ga'][1]
            it = strip(argv[0])
            if isinstance(it, tuple) and it[0] == 'mapiter':
                r = self.apply_closure(it[2], [('elem', it[1])], ctx)
                if r:
                    v, t, rets = r
                    return (('res', ('collected', target, strip(v))), cat(pre, ['star', it[1], t], ['COLLECT', target, it[1]]))
        if tr == 'Iterator' and name == 'for_each' and len(argv) == 2:
            r = self.apply_closure(argv[1], [('elem', strip(argv[0]))], ctx)
            if r:
                v, t, rets = r
                return (('unit',), cat(pre, ['star', strip(argv[0]), t]))
        if f == 'error::Error::chain':
            return (('error',), pre)
        # `core::ptr::from_mut(m)` / `from_ref(m)` of a `MaybeUninit<X>` place: the pointer `m.as_mut_ptr()` / `m.as_ptr()`
        # yields, typed `*mut MaybeUninit<X>` (every use casts it on)
        if f in ('core::ptr::from_mut', 'core::ptr::from_ref') and len(argv) == 1 and e.get('ga') and 'MaybeUninit<' in str(e['ga'][0]):
            nm = 'as_mut_ptr' if f.endswith('from_mut') else 'as_ptr'
            val = ('call', nm, 'core::mem::MaybeUninit::<T>::' + nm, argv, tuple(e['ga']), None, e.get('loc'))
            if nm == 'as_mut_ptr':
                return (val, cat(pre, ['MUTCALL', nm, 'core::mem::MaybeUninit::<T>::' + nm, [strip(a) for a in argv], e.get('loc'), tuple(e['ga'])]))
            return (val, pre)
        # ------------------------------------------------ panics
        if f.startswith(('core::panicking::', 'std::rt::begin_panic', 'core::panicking::assert_failed')) or name in (
                'panic', 'panic_fmt', 'assert_failed', 'unreachable_display', 'panic_explicit'):
            return (('never',), cat(pre, ['PANIC', name, e.get('loc'), None]))
        # ------------------------------------------------ crate-local helper taking dest/input/closure: inline
        hf = self.facts.by_path.get(f) if local else None
        passes = any(self.is_dest(a) or self.is_input(a) or strip(a) == ('cb',) for a in argv)
        passes_sink = [a for a in argv if self.local_sink(a, ctx) is not None]
        if hf is not None and hf.get('thir') and (passes or passes_sink) and ctx.depth < MAX_DEPTH and not e['trait']:
            sub = Ctx(self, hf, ctx.depth + 1)
            sub.sinks = ctx.sinks
            sub.sink_kind = ctx.sink_kind
            sub.returned = []
            for p, a in zip(hf['params'], argv):
                sa = strip(a)
                if sa in (('dest',), ('cb',)) or self.is_input(sa) or self.local_sink(a, ctx) is not None:
                    self.bind_pat(p, sa, sub)
                else:
                    self.bind_pat(p, a, sub)
            v, t = self.ev(hf['thir'], sub)
            rv = v
            m = _generic_map(hf, e)
            if m:
                t = subst_types(t, m)
                rv = subst_types(rv, m)
            if t == ['eps'] and hf.get('kind') == 'AssocFn' and hf.get('ctx') == 'inherent_impl' and hf.get('vis') not in ('Public', None):
                # a private accessor of a sink / input wrapper (`fn as_slice(&self) -> &[u8]`): no effect, just its value
                return (rv, pre)
            return (rv, cat(pre, ['HELPER', tname(f), t]))
        # a crate-private free function that takes neither the output nor the input but has effects of its own
        # (allocation, ownership transfers, unsafe operations, panics): part of its caller for every path rule
        if hf is not None and hf.get('thir') and not (passes or passes_sink) and ctx.depth < MAX_DEPTH and not e['trait'] and \
                ((hf.get('kind') == 'Fn' and not hf.get('impl')) or (hf.get('kind') == 'AssocFn' and hf.get('ctx') == 'inherent_impl')) and \
                hf.get('vis') not in ('Public', None) and f not in getattr(self, '_pure_helpers', set()) and \
                getattr(self, 'inline_effectful', True):
            sub = Ctx(self, hf, ctx.depth + 1)
            sub.sinks = ctx.sinks
            sub.sink_kind = ctx.sink_kind
            sub.returned = []
            for p, a in zip(hf['params'], argv):
                self.bind_pat(p, a, sub)
            v2, t2 = self.ev(hf['thir'], sub)
            m = _generic_map(hf, e)
            if m:
                t2 = subst_types(t2, m)
                v2 = subst_types(v2, m)
            if any(x[0] in ('ALLOC', 'OWN', 'MUTCALL', 'PANIC', 'HOOK', 'DESC', 'ASC', 'SET') for x in walk(t2)):
                return (v2, cat(pre, ['HELPER', tname(f), t2]))
            # a private accessor (`fn inner(&mut self) -> &mut I { self.input }`): the place it projects to, not a call
            sv2 = strip(v2)
            if t2 == ['eps'] and isinstance(sv2, tuple) and sv2 and sv2[0] == 'field':
                return (v2, pre)
            # a private constructor (`fn new(bytes) -> Self { Self { bytes, position: 0 } }`): the value it builds
            if t2 == ['eps'] and isinstance(sv2, tuple) and sv2 and sv2[0] == 'adt' and hf.get('kind') == 'AssocFn':
                return (v2, pre)
            # a private predicate / observer method without effects (`fn has_remaining(&self) -> bool { self.count < self.slice.len() }`)
            if t2 == ['eps'] and hf.get('kind') == 'AssocFn' and isinstance(sv2, tuple) and sv2 and sv2[0] in ('bin', 'un', 'lit', 'call', 'matchval', 'ifval'):
                return (v2, pre)
            # a private free function that only forwards its parameters to one other function
            # (`fn item_count_encoded_bytesize(n: u32) -> usize { Compact::<u32>::compact_len(&n) }`): the call it makes
            if t2 == ['eps'] and hf.get('kind') == 'Fn' and isinstance(sv2, tuple) and len(sv2) > 3 and sv2[0] == 'call' and sv2[1] != name and \
                    sv2[3] and all(_is_forwarded_param(a, argv) for a in sv2[3]):
                return (v2, pre)
            if not hasattr(self, '_pure_helpers'):
                self._pure_helpers = set()
            self._pure_helpers.add(f)
        if passes and not local and f in ('core::slice::<impl [T]>::is_empty', 'core::slice::<impl [T]>::len') and not any(
                self.is_dest(a) for a in argv):
            return (('call', name, f, argv, tuple(e['ga']), tr, e.get('loc')), pre)
        if passes:
            what = 'dest' if any(self.is_dest(a) for a in argv) else 'input'
            return (('unknown',), cat(pre, self.opaque('%s passed to %s' % (what, e['fa']), e, ctx)))
        mut_args = [a for a in argv if _is_mut_ref(a)]
        if mut_args and not local:
            for a in argv:
                ls = self.local_sink(a, ctx)
                if ls is not None:
                    ctx.sink_kind.setdefault('#touched', set()).add(ls)
            return (('call', name, f, argv, tuple(e['ga']), tr, e.get('loc')),
                    cat(pre, ['MUTCALL', name, f, [strip(a) for a in argv], e.get('loc'), tuple(e['ga'])]))
        if not local and name not in ALLOC_NAMES and not e.get('unsafe') and _sized_constructor(e):
            # a constructor / resizer of a heap container of an external crate that takes an integer: a sized allocation
            # request whatever it is called (BytesMut::zeroed, BitVec::repeat, ...)
            val = ('call', name, f, argv, tuple(e['ga']), tr, e.get('loc'))
            return (val, cat(pre, ['ALLOC', name, f, [strip(a) for a in argv], e.get('loc'), tuple(e['ga']), False, 'generic']))
        if (name in OWN_NAMES or e.get('unsafe')) and not local:
            val = ('call', name, f, argv, tuple(e['ga']), tr, e.get('loc'))
            kind = 'ALLOC' if name in ALLOC_NAMES else 'OWN'
            return (val, cat(pre, [kind, name, f, [strip(a) for a in argv], e.get('loc'), tuple(e['ga']), bool(e.get('unsafe'))]))
        if name in ALLOC_NAMES and not local:
            val = ('call', name, f, argv, tuple(e['ga']), tr, e.get('loc'))
            return (val, cat(pre, ['ALLOC', name, f, [strip(a) for a in argv], e.get('loc'), tuple(e['ga']), bool(e.get('unsafe'))]))
        if local and e.get('unsafe'):
            val = ('call', name, f, argv, tuple(e['ga']), tr, e.get('loc'))
            return (val, cat(pre, ['OWN', name, f, [strip(a) for a in argv], e.get('loc'), tuple(e['ga']), True]))
        return (('call', name, f, argv, tuple(e['ga']), tr, e.get('loc')), pre)

    def slice_term(self, sl, ctx, e):
        """bytes handed to the using_encoded callback"""
        sl = strip(sl)
        if not isinstance(sl, tuple):
            return self.opaque('callback argument', e, ctx)
        if sl[0] == 'call' and sl[1] in ('index', 'deref', 'as_slice', 'as_ref', 'borrow'):
            return self.slice_term(sl[3][0], ctx, e)
        if sl[0] == 'index':
            i = sl[2]
            if isinstance(i, tuple) and i[0] == 'adt' and i[1].endswith('RangeFull'):
                return self.slice_term(sl[1], ctx, e)
            return self.opaque('callback argument is a sub-slice', e, ctx)
        if sl[0] == 'call' and sl[1] == 'to_le_bytes':
            return ['prim_le', strip(sl[3][0]), sl[2]]
        if sl[0] == 'call' and sl[1] in ('to_be_bytes', 'to_ne_bytes'):
            return ['prim_other', strip(sl[3][0]), sl[1]]
        if sl[0] == 'array':
            return cat(*[['byte', x] for x in sl[1]]) if sl[1] else ['eps']
        if sl[0] == 'encoded':
            return ['enc', sl[1], sl[2]]
        ls = self.local_sink(sl, ctx)
        if ls is not None and ls in ctx.sinks:
            return cat(*ctx.sinks[ls])
        if sl[0] == 'call' and sl[1] in ('as_bytes', 'as_slice', 'as_byte_slice', 'as_raw_slice', 'to_vec', 'as_str'):
            # the raw bytes of the value, without any framing
            return ['write', sl]
        return self.opaque('callback argument of unrecognised form', e, ctx)


def _is_forwarded_param(a, argv):
    a = strip(a)
    while isinstance(a, tuple) and a and a[0] in ('ref', 'deref') and len(a) > 1:
        a = strip(a[1])
    for x in argv:
        x = strip(x)
        while isinstance(x, tuple) and x and x[0] in ('ref', 'deref') and len(x) > 1:
            x = strip(x[1])
        if a == x:
            return True
    return False


def _generic_map(callee, call):
    """{type parameter of the inlined function: the type it is instantiated with at this call site}, identity entries and
    lifetimes left out"""
    gs = callee.get('generics') or []
    ga = call.get('ga') or []
    if len(gs) != len(ga):
        return {}
    m = {}
    for g, a in zip(gs, ga):
        if g.startswith("'") or not isinstance(a, str) or a == g or '{closure' in a or a.startswith("'"):
            continue
        if not g[:1].isupper():
            continue
        m[g] = a
    return m


def subst_types(x, m, _re=__import__('re')):
    """instantiate type parameters in every type-carrying string of a term / value"""
    if isinstance(x, str):
        if any(g in x for g in m):
            for g, a in m.items():
                x = _re.sub(r'(?<![A-Za-z0-9_:])%s(?![A-Za-z0-9_])' % _re.escape(g), a.replace('\\', '\\\\'), x)
        return x
    if isinstance(x, tuple):
        if x and x[0] in ('closure',):
            return x
        return tuple([x[0]] + [subst_types(y, m) for y in x[1:]]) if x and isinstance(x[0], str) else tuple(subst_types(y, m) for y in x)
    if isinstance(x, list):
        return [x[0]] + [subst_types(y, m) for y in x[1:]] if x and isinstance(x[0], str) else [subst_types(y, m) for y in x]
    return x


def subst_any(x, pred, repl):
    """replace every sub-value satisfying pred in a term / value"""
    if isinstance(x, tuple):
        if x and pred(x):
            return repl
        return tuple(subst_any(y, pred, repl) for y in x)
    if isinstance(x, list):
        return [subst_any(y, pred, repl) for y in x]
    return x


def _mutvars_in(x, acc):
    if isinstance(x, tuple):
        if x and x[0] == 'mutvar':
            acc.add(x[1])
            return acc
        for y in x:
            _mutvars_in(y, acc)
    elif isinstance(x, list):
        for y in x:
            _mutvars_in(y, acc)
    return acc


_PRIM_SIZES = {'u8': 1, 'i8': 1, 'bool': 1, 'u16': 2, 'i16': 2, 'u32': 4, 'i32': 4, 'f32': 4, 'u64': 8, 'i64': 8, 'f64': 8, 'u128': 16, 'i128': 16}


def _minmax_call(kind, a, b):
    """canonical min / max of two values (commutative: arguments ordered by their printed form)"""
    x, y = sorted([strip(a), strip(b)], key=lambda v: (vstr(v), repr(v)))
    return ('call', kind, 'core::cmp::Ord::' + kind, [x, y], (), 'Ord', None)


def _ifval_minmax(c, v1, v2):
    """`if a < b { a } else { b }` (any of < <= > >=, either orientation) is min(a, b) / max(a, b)"""
    c = strip(c)
    if not (isinstance(c, tuple) and c and c[0] == 'bin' and c[1] in ('Lt', 'Le', 'Gt', 'Ge')):
        return None
    a, b = strip(c[2]), strip(c[3])

    def same(x, y):
        # structural identity (the printed form omits type arguments: `T::max_encoded_len()` and `E::max_encoded_len()` print
        # alike); a variable read twice yields the identical term
        return strip(x) == strip(y)
    if same(v1, a) and same(v2, b):
        kind = 'min' if c[1] in ('Lt', 'Le') else 'max'
    elif same(v1, b) and same(v2, a):
        kind = 'max' if c[1] in ('Lt', 'Le') else 'min'
    else:
        return None
    return _minmax_call(kind, a, b)


def _zip_copy(src, body):
    """`for (d, s) in A.iter_mut().zip(B) { *d = *s; }` copies B into A element by element: the same effect as
    `A.copy_from_slice(B)` (the lengths are whatever the two views say; rules compare those).  Returns [A, B] or None"""
    src = strip(src)
    if not (isinstance(src, tuple) and src and src[0] == 'call' and src[1] == 'zip' and len(src[3]) == 2):
        return None
    a, b = strip(src[3][0]), strip(src[3][1])

    def unit(x, names):
        for _ in range(4):
            if isinstance(x, tuple) and x and x[0] == 'call' and x[1] in names and x[3]:
                x = strip(x[3][0])
            else:
                break
        return x
    a0 = unit(a, ('iter_mut', 'into_iter'))
    b0 = unit(b, ('iter', 'into_iter', 'copied', 'cloned'))
    if a0 is a:
        return None
    its = items(body)
    if len(its) != 1 or its[0][0] != 'SET' or its[0][3] not in (None, '='):
        return None
    tgt, val = strip(its[0][1]), strip(its[0][2])

    def comp(x, i):
        return isinstance(x, tuple) and x and x[0] == 'field' and x[2] == i and isinstance(strip(x[1]), tuple) and strip(x[1])[0] == 'elem'
    if comp(tgt, 0) and comp(val, 1):
        return [a0, b0]
    return None


def _while_form(body):
    """`loop { if c { break } rest }` is `while !c { rest }`, i.e. `loop { if !c { rest } else { break } }` (the form a
    `while` desugars to): give both spellings the same tree"""
    b = body
    if not (isinstance(b, dict) and b.get('k') == 'block' and b.get('stmts')):
        return body
    first = b['stmts'][0]
    if not (isinstance(first, dict) and first.get('k') == 'if' and first.get('else') is None):
        return body
    th = first.get('then')
    brk = None
    if isinstance(th, dict) and th.get('k') == 'block' and not th.get('expr') and len(th.get('stmts') or []) == 1:
        brk = th['stmts'][0]
    elif isinstance(th, dict) and th.get('k') == 'block' and not th.get('stmts') and isinstance(th.get('expr'), dict):
        brk = th['expr']
    elif isinstance(th, dict) and th.get('k') == 'break':
        brk = th
    if not (isinstance(brk, dict) and brk.get('k') == 'break' and not brk.get('e')):
        return body
    rest = dict(b)
    rest['stmts'] = b['stmts'][1:]
    neg = {'k': 'un', 'op': 'Not', 'e': first['cond'], 'ty': 'bool', 'loc': first.get('loc')}
    new_if = dict(first)
    new_if['cond'] = neg
    new_if['then'] = rest
    new_if['else'] = brk
    nb = dict(b)
    nb['stmts'] = []
    nb['expr'] = new_if
    return nb


def early_return_form(body):
    """`{ a; if c { b; return X } rest; tail }` at the level of a function body is `{ a; if c { b; X } else { rest; tail } }`:
    a guard that leaves the function early with a value becomes one arm of a conditional value, so that rules which read
    the *value* of a function see every value it can return, each under its condition"""
    b = body
    if not (isinstance(b, dict) and b.get('k') == 'block' and b.get('stmts')):
        return body
    for i, st in enumerate(b['stmts']):
        if not (isinstance(st, dict) and st.get('k') == 'if' and st.get('else') is None):
            continue
        th = st.get('then')
        if isinstance(th, dict) and th.get('k') == 'return':
            th = {'k': 'block', 'stmts': [], 'expr': th, 'ty': th.get('ty'), 'loc': th.get('loc')}
        if not (isinstance(th, dict) and th.get('k') == 'block'):
            continue
        last = th.get('expr') if th.get('expr') else (th['stmts'][-1] if th.get('stmts') else None)
        if not (isinstance(last, dict) and last.get('k') == 'return' and last.get('e')):
            continue
        nth = dict(th)
        nth['stmts'] = list(th['stmts']) if th.get('expr') else list(th['stmts'][:-1])
        nth['expr'] = last['e']
        rest = dict(b)
        rest['stmts'] = b['stmts'][i + 1:]
        new_if = dict(st)
        new_if['then'] = nth
        new_if['else'] = early_return_form(rest)
        new_if['ty'] = b.get('ty')
        nb = dict(b)
        nb['stmts'] = b['stmts'][:i]
        nb['expr'] = new_if
        return nb
    return body


def fn_value(ev, f, ctx):
    """value and trace of a function body for rules that decide on the value: early `return X` guards are folded into
    the value (early_return_form); if a value-carrying early return is still left, the value is ('multi', tail, returns),
    which no value rule recognises (fail closed) instead of silently standing for the tail expression alone"""
    v, t = ev.ev(early_return_form(f['thir']), ctx)
    rets = tuple(strip(e[1]) for e in walk(t) if e[0] == 'RET' and len(e) > 1)
    if rets:
        v = ('multi', strip(v), rets)
    return v, t


def canon_counter_loop(t):
    """`let mut i = 0; while i < n { body; i += 1 }` (n loop-invariant, i advanced exactly once, last) is the loop
    `for i in 0..n { body }`: give both spellings the same term"""
    its = items(t)
    if len(its) != 1 or its[0][0] != 'alt':
        return None
    a = its[0]
    if not (isinstance(a[1], tuple) and a[1][0] == 'if'):
        return None
    c = strip(a[1][1])
    arms = dict(a[2])
    if arms.get('false') not in (['eps'], None) or arms.get('true') is None:
        return None
    if not (isinstance(c, tuple) and c[0] == 'bin' and len(c) >= 4):
        return None

    def ismut(v):
        return isinstance(v, tuple) and v and v[0] == 'mutvar'
    l, r = strip(c[2]), strip(c[3])
    if c[1] in ('Lt', 'Ne') and ismut(l):
        ctr, bound = l, c[3]
    elif c[1] in ('Gt', 'Ne') and ismut(r):
        ctr, bound = r, c[2]
    else:
        return None
    init = strip(ctr[3])
    if not (isinstance(init, tuple) and init[0] == 'lit' and init[1] == 0):
        return None
    body = items(arms['true'])
    if not body:
        return None
    last = body[-1]

    def is_ctr(v):
        v = strip(v)
        return ismut(v) and v[1] == ctr[1]

    def one(v):
        v = strip(v)
        return isinstance(v, tuple) and v[0] == 'lit' and v[1] == 1
    if not (last[0] == 'SET' and is_ctr(last[1])):
        return None
    if last[3] == 'AddAssign':
        if not one(last[2]):
            return None
    elif last[3] in ('Assign', None, '='):
        v = strip(last[2])
        if not (isinstance(v, tuple) and v[0] == 'bin' and v[1] == 'Add' and ((is_ctr(v[2]) and one(v[3])) or (is_ctr(v[3]) and one(v[2])))):
            return None
    else:
        return None
    rest = body[:-1]
    set_ids = set()
    for x in rest:
        for y in walk(x):
            if y[0] == 'SET':
                tgt = strip(y[1])
                if ismut(tgt):
                    set_ids.add(tgt[1])
    if ctr[1] in set_ids:
        return None
    bm = _mutvars_in(bound, set())
    if ctr[1] in bm or (bm & set_ids):
        return None
    ty = init[2] if len(init) > 2 else 'usize'
    rng = ('adt', 'core::ops::range::Range', 'Range', [(0, init), (1, bound)], 'core::ops::range::Range<%s>' % ty)
    nb = subst_any(cat(*rest), lambda v: v[0] == 'mutvar' and v[1] == ctr[1], ('elem', rng))
    return ['star', rng, nb]


def canon_fill_loop(t, empty_sinks):
    """`let mut v = Vec::new(); while v.len() < n { ..; v.push(x) }` (v untouched before the loop, pushed exactly once
    per iteration, last; n loop-invariant) runs exactly n times: the loop `for _ in 0..n { ..; v.push(x) }`"""
    its = items(t)
    if len(its) != 1 or its[0][0] != 'alt':
        return None
    a = its[0]
    if not (isinstance(a[1], tuple) and a[1][0] == 'if'):
        return None
    c = strip(a[1][1])
    arms = dict(a[2])
    if arms.get('false') not in (['eps'], None) or arms.get('true') is None:
        return None
    if not (isinstance(c, tuple) and c[0] == 'bin' and len(c) >= 4):
        return None

    def len_of_sink(v):
        v = strip(v)
        if isinstance(v, tuple) and v[0] == 'call' and v[1] == 'len' and len(v[3]) == 1:
            r = strip(v[3][0])
            if isinstance(r, tuple) and r[0] == 'sink' and r[1] in empty_sinks:
                return r[1]
        return None
    if c[1] in ('Lt', 'Ne') and len_of_sink(c[2]) is not None:
        k, bound = len_of_sink(c[2]), c[3]
    elif c[1] in ('Gt', 'Ne') and len_of_sink(c[3]) is not None:
        k, bound = len_of_sink(c[3]), c[2]
    else:
        return None
    body = items(arms['true'])
    if not body:
        return None

    def on_sink(ev_):
        return ev_[0] == 'MUTCALL' and any(strip(x) == ('sink', k) for x in ev_[3])
    last = body[-1]
    if not (on_sink(last) and last[1] in ('push', 'push_back') and strip(last[3][0]) == ('sink', k)):
        return None
    n_touch = sum(1 for x in body for y in walk(x) if on_sink(y))
    if n_touch != 1:
        return None
    set_ids = set()
    for x in body:
        for y in walk(x):
            if y[0] == 'SET':
                tgt = strip(y[1])
                if isinstance(tgt, tuple) and tgt and tgt[0] == 'mutvar':
                    set_ids.add(tgt[1])
    if _mutvars_in(bound, set()) & set_ids:
        return None
    if any(isinstance(x, tuple) and x == ('sink', k) for x in _flatten_vals(bound)):
        return None
    rng = ('adt', 'core::ops::range::Range', 'Range', [(0, ('lit', 0, 'usize', ())), (1, bound)], 'core::ops::range::Range<usize>')
    return ['star', rng, cat(*body)]


def _flatten_vals(x):
    if isinstance(x, tuple):
        yield x
        for y in x:
            yield from _flatten_vals(y)
    elif isinstance(x, list):
        for y in x:
            yield from _flatten_vals(y)


def deinit(v, depth=0):
    """replace locals that are only mutably borrowed (never re-assigned) by their initialiser"""
    if depth > 10 or not isinstance(v, tuple):
        return v
    if v and v[0] == 'mutvar' and len(v) > 4 and not v[4]:
        return deinit(strip(v[3]), depth + 1)
    out = []
    for x in v:
        if isinstance(x, tuple):
            out.append(deinit(x, depth + 1))
        elif isinstance(x, list):
            out.append([deinit(y, depth + 1) if isinstance(y, tuple) else y for y in x])
        else:
            out.append(x)
    return tuple(out)


def _simplify_bool(c):
    """`cfg!(..) || x`, `cfg!(..) && x` with the literal produced by cfg!"""
    if isinstance(c, tuple) and c and c[0] == 'un' and c[1] == 'Not':
        a = _simplify_bool(strip(c[2]))
        if isinstance(a, tuple) and a[0] == 'lit' and isinstance(a[1], bool):
            return ('lit', not a[1]) + tuple(a[2:])        # keeps the marker of a cfg!-produced literal
        return c
    if isinstance(c, tuple) and c and c[0] == 'bin' and c[1] in ('Or', 'And'):
        l, r = _simplify_bool(strip(c[2])), _simplify_bool(strip(c[3]))
        for a, b in ((l, r), (r, l)):
            if isinstance(a, tuple) and a[0] == 'lit' and isinstance(a[1], bool):
                if c[1] == 'Or':
                    return a if a[1] else b
                return b if a[1] else a
    # `x <= x + n` / `x + n >= x` for a length n: holds whenever the sum exists (an overflowing sum is its own panic site)
    if isinstance(c, tuple) and c and c[0] == 'bin' and c[1] in ('Le', 'Ge') and len(c) >= 4:
        lo, hi = (strip(c[2]), strip(c[3])) if c[1] == 'Le' else (strip(c[3]), strip(c[2]))
        if isinstance(hi, tuple) and hi and hi[0] == 'bin' and hi[1] == 'Add':
            for x, n in ((strip(hi[2]), strip(hi[3])), (strip(hi[3]), strip(hi[2]))):
                if x == lo and isinstance(n, tuple) and n and ((n[0] == 'call' and n[1] == 'len') or (n[0] == 'lit' and isinstance(n[1], int) and not isinstance(n[1], bool) and n[1] >= 0)):
                    return ('lit', True, 'bool', ())
    return c


OWN_NAMES = {'forget', 'drop', 'into_raw', 'from_raw', 'assume_init', 'assume_init_drop', 'assume_init_mut', 'assume_init_ref',
             'assume_init_read', 'assert_decoding_finished', 'write_bytes', 'from_raw_parts_mut', 'from_raw_parts', 'transmute', 'dealloc',
             'leak', 'new_unchecked', 'from_utf8_unchecked', 'take', 'read', 'copy_nonoverlapping', 'zeroed', 'drop_in_place',
             'unwrap_unchecked', 'get_unchecked', 'get_unchecked_mut', 'transmute_copy', 'read_unaligned', 'write_unaligned', 'replace',
             'swap', 'into_inner', 'uninit_array', 'slice_assume_init_mut', 'as_uninit_mut', 'decode_into_unchecked'} - {'take', 'read', 'replace', 'swap', 'into_inner'}
ALLOC_NAMES = {'with_capacity', 'reserve', 'reserve_exact', 'try_reserve', 'try_reserve_exact', 'resize', 'resize_with', 'from_elem', 'repeat',
               'alloc', 'alloc_zeroed', 'realloc', 'set_len', 'with_capacity_in', 'extend_from_slice', 'extend_from_within', 'to_vec',
               'collect', 'extend', 'split_to', 'split_off', 'new_uninit_slice', 'new_zeroed_slice', 'new_uninit', 'truncate', 'try_from_vec',
               'from_exact_iter', 'push', 'insert', 'push_back', 'push_front', 'into_boxed_slice', 'shrink_to_fit'}


HEAP_TYPES = ('alloc::vec::Vec<', 'alloc::string::String', 'alloc::collections::', 'bytes::bytes_mut::BytesMut', 'bytes::bytes::Bytes',
              'bitvec::vec::BitVec<', 'bitvec::boxed::BitBox<', 'alloc::boxed::Box<[', 'alloc::rc::Rc<[', 'alloc::sync::Arc<[',
              'std::collections::', 'arrayvec::')
INT_TYS = ('usize', 'u32', 'u64', 'u128', 'u16')
# queries and conversions that take an integer but allocate nothing
NOT_ALLOCATING = {'get', 'get_mut', 'index', 'index_mut', 'remove', 'swap_remove', 'split_at', 'split_at_mut', 'truncate', 'drain', 'nth',
                  'swap', 'contains', 'binary_search', 'starts_with', 'ends_with', 'from_utf8', 'from', 'into', 'len', 'capacity',
                  'is_empty', 'advance', 'slice', 'chunks', 'windows', 'rotate_left', 'rotate_right', 'first', 'last', 'set', 'take',
                  'skip', 'step_by', 'checked_add', 'checked_mul', 'saturating_add', 'saturating_mul', 'min', 'max', 'cmp', 'eq', 'ne',
                  'lt', 'le', 'gt', 'ge', 'partial_cmp', 'clone', 'to_string', 'fmt'}


def _sized_constructor(e):
    """external call whose receiver / result is a heap container and that takes an integer argument"""
    if (e.get('crate') or '') not in ('alloc', 'bytes', 'bitvec', 'std', 'arrayvec', 'generic_array'):
        return False
    if e.get('name') in NOT_ALLOCATING or e.get('trait'):
        return False
    rty = e.get('ty') or ''
    inh = e.get('inherent') or ''
    heap = any(h in rty for h in HEAP_TYPES) or any(inh.startswith(h.rstrip('<')) or h in inh for h in HEAP_TYPES)
    if not heap:
        return False
    for a in e.get('args') or []:
        if isinstance(a, dict) and (a.get('ty') in INT_TYS):
            return True
    return False


def _is_mut_ref(a):
    """`&mut place` (possibly behind coercions) of a place that outlives the call"""
    n = 0
    while isinstance(a, tuple) and a and a[0] in ('coerce', 'deref') and n < 6:
        a = a[1]
        n += 1
    if isinstance(a, tuple) and a and a[0] == 'ref' and len(a) > 2 and a[2]:
        r = strip(a[1])
        n = 0
        while isinstance(r, tuple) and r and n < 12 and (r[0] in ('field', 'index') or (
                r[0] == 'call' and r[1] in ('index_mut', 'view_bits_mut', 'deref_mut', 'as_mut', 'as_mut_slice', 'borrow_mut', 'split_at_mut') and r[3])):
            r = strip(r[1]) if r[0] != 'call' else strip(r[3][0])
            n += 1
        return isinstance(r, tuple) and r and r[0] in ('self', 'param', 'var', 'input', 'sink', 'elem', 'mutvar')
    # a half of `x.split_at_mut(n)` / `x.split_first_mut()` (already a `&mut` into x)
    b = strip(a)
    if isinstance(b, tuple) and b and b[0] == 'field' and isinstance(strip(b[1]), tuple) and strip(b[1]) and strip(b[1])[0] == 'call' and \
            strip(b[1])[1] in ('split_at_mut', 'split_at_mut_checked') and strip(b[1])[3]:
        r = strip(strip(b[1])[3][0])
        n = 0
        while isinstance(r, tuple) and r and n < 12 and (r[0] in ('field', 'index') or (
                r[0] == 'call' and r[1] in ('index_mut', 'deref_mut', 'as_mut', 'as_mut_slice', 'borrow_mut') and r[3])):
            r = strip(r[1]) if r[0] != 'call' else strip(r[3][0])
            n += 1
        return isinstance(r, tuple) and r and r[0] in ('self', 'param', 'var', 'input', 'sink', 'elem', 'mutvar')
    return False


def _ends_err(t):
    its = items(t)
    return bool(its) and its[-1][0] in ('ERR', 'PANIC')


def _subst_cbarg(t, ty, recv):
    """inside a using_encoded closure, `dest.write(buf)` writes the encoding of the receiver"""
    if t[0] == 'write' and isinstance(t[1], tuple) and t[1] and t[1][0] == 'cbarg':
        return ['enc', ty, recv]
    if t[0] == 'cat':
        return ['cat', [_subst_cbarg(x, ty, recv) for x in t[1]]]
    if t[0] == 'alt':
        return ['alt', t[1], [(d, _subst_cbarg(x, ty, recv)) for d, x in t[2]]]
    if t[0] == 'star':
        return ['star', t[1], _subst_cbarg(t[2], ty, recv)]
    return t


# ------------------------------------------------------------------------------------------------
# rendering


def vstr(v, n=0):
    v = strip(v)
    if n > 8:
        return '…'
    if not isinstance(v, tuple):
        return repr(v)
    k = v[0]
    if k in ('self', 'dest', 'input', 'cb', 'unit', 'never', 'error'):
        return k
    if k == 'var':
        return 'v%s' % v[1]
    if k == 'field':
        if v[3] is not None and not str(v[3]).isdigit() and v[3] != str(v[2]):
            return '%s.%s' % (vstr(v[1], n + 1), v[3]) if isinstance(v[3], str) and not v[3][:1].isupper() else '%s.%s.%d' % (vstr(v[1], n + 1), v[3], v[2])
        return '%s.%d' % (vstr(v[1], n + 1), v[2])
    if k == 'elem':
        return 'elem(%s)' % vstr(v[1], n + 1)
    if k == 'lit':
        return '%s%s' % (v[1], '' if not isinstance(v[1], (int, bool)) else ':' + v[2])
    if k == 'const':
        return v[1].rsplit('::', 1)[-1] if v[2] is None else '%s=%s' % (v[1].rsplit('::', 1)[-1], v[2])
    if k == 'call':
        return '%s(%s)' % (v[1], ', '.join(vstr(a, n + 1) for a in v[3]))
    if k == 'tuple':
        return '(%s)' % ', '.join(vstr(a, n + 1) for a in v[1])
    if k == 'array':
        return '[%s]' % ', '.join(vstr(a, n + 1) for a in v[1])
    if k == 'adt':
        return '%s::%s{%s}' % (v[1].rsplit('::', 1)[-1], v[2], ', '.join('%d: %s' % (i, vstr(a, n + 1)) for i, a in v[3]))
    if k == 'cast':
        return '(%s as %s)' % (vstr(v[2], n + 1), v[1])
    if k == 'bin':
        return '(%s %s %s)' % (vstr(v[2], n + 1), v[1], vstr(v[3], n + 1))
    if k == 'un':
        return '%s(%s)' % (v[1], vstr(v[2], n + 1))
    if k == 'decoded':
        return 'decoded#%s:%s' % (v[2], v[1])
    if k == 'byte':
        return 'byte#%s' % v[1]
    if k == 'io':
        return '%s#%s' % (v[1], v[2])
    if k == 'remaining':
        return 'remaining#%s' % (v[1] if len(v) > 1 else '')
    if k == 'param':
        return v[1]
    if k == 'mutvar':
        return 'mut ' + v[2]
    if k in ('res', 'opt', 'errres'):
        return '%s(%s)' % ({'res': 'Ok', 'opt': 'Some', 'errres': 'Err'}[k], vstr(v[1], n + 1))
    if k == 'conv':
        return 'conv(%s)' % vstr(v[1], n + 1)
    if k == 'closure':
        return 'closure'
    if k == 'sink':
        return 'sink%s' % v[1]
    if k == 'encoded':
        return 'encoded<%s>(%s)' % (v[1], vstr(v[2], n + 1))
    if k == 'index':
        return '%s[%s]' % (vstr(v[1], n + 1), vstr(v[2], n + 1))
    if k == 'ifval':
        return 'if %s {%s} else {%s}' % (vstr(v[1], n + 1), vstr(v[2], n + 1), vstr(v[3], n + 1))
    if k == 'matchval':
        return 'match %s {%s}' % (vstr(v[1], n + 1), '; '.join('%s => %s' % (dstr(d), vstr(x, n + 1)) for d, x in v[2]))
    if k == 'buf':
        return '[%s; %s]' % (vstr(v[2], n + 1), v[1])
    if k == 'collected':
        return 'collect<%s>(%s)' % (v[1], vstr(v[2], n + 1))
    if k == 'mapped':
        return 'map(%s, %s)' % (vstr(v[1], n + 1), vstr(v[2], n + 1))
    if k == 'fnitem':
        return v[1].rsplit('::', 1)[-1]
    if k == 'cbarg':
        return 'cbarg'
    if k == 'tried':
        return 'try(%s)' % vstr(v[1], n + 1)
    if k == 'unwrapped':
        return 'unwrap(%s)' % vstr(v[1], n + 1)
    if k == 'returned':
        return 'return(%s)' % vstr(v[1], n + 1)
    if k == 'letcond':
        return 'let %s = %s' % (v[1], vstr(v[2], n + 1))
    return k + ('(%s)' % ', '.join(vstr(a, n + 1) if isinstance(a, tuple) else str(a) for a in v[1:3]) if len(v) > 1 else '')


def dstr(d):
    if isinstance(d, tuple):
        if d[0] == 'pat':
            return str(d[1])
        if d[0] == 'guard':
            return '%s if %s' % (d[1], vstr(d[2]))
        if d[0] == 'if':
            return 'if ' + vstr(d[1])
        return vstr(d)
    return str(d)


def tstr(t):
    k = t[0]
    if k == 'eps':
        return 'ε'
    if k == 'byte':
        return 'byte(%s)' % vstr(t[1])
    if k == 'write':
        return 'write(%s)' % vstr(t[1])
    if k == 'enc':
        return 'enc<%s>(%s)' % (t[1], vstr(t[2]))
    if k == 'prim_le':
        return 'le_bytes(%s)' % vstr(t[1])
    if k == 'prim_other':
        return '%s(%s)' % (t[2], vstr(t[1]))
    if k == 'rb':
        return 'rb#%s' % t[1]
    if k == 'read':
        return 'read(%s)' % vstr(t[1])
    if k == 'io':
        return 'io#%s' % t[2]
    if k == 'dec':
        return '%s<%s>#%s' % ({'decode': 'dec', 'decode_into': 'dec_into', 'skip': 'skip'}.get(t[3], t[3]), t[1], t[2])
    if k in ('DESC', 'ASC', 'REMLEN', '?'):
        return k
    if k == 'HOOK':
        return 'HOOK(%s)' % vstr(t[1])
    if k == 'ERR':
        return 'ERR'
    if k == 'CHECK':
        return 'CHECK(%s)' % t[1]
    if k == 'PANIC':
        return 'PANIC(%s@%s)' % (t[1], t[2])
    if k == 'cat':
        return ' · '.join(tstr(x) for x in t[1])
    if k == 'alt':
        return 'alt(%s){%s}' % (dstr(t[1]) if isinstance(t[1], tuple) and t[1] and t[1][0] in ('if',) else vstr(t[1]),
                                '; '.join('%s: %s' % (dstr(d), tstr(x)) for d, x in t[2]))
    if k == 'star':
        return 'star(%s){%s}' % (vstr(t[1]), tstr(t[2]))
    if k == 'HELPER':
        return '%s{%s}' % (t[1], tstr(t[2]))
    if k == 'ONOK':
        return 'on_ok{%s}' % tstr(t[1])
    if k == 'opaque':
        return 'OPAQUE(%s @%s)' % (t[1], t[2])
    if k == 'RET':
        return 'RET(%s)' % vstr(t[1])
    if k == 'SET':
        return 'SET(%s %s= %s)' % (vstr(t[1]), t[3] or '', vstr(t[2]))
    if k == 'MUTCALL':
        return 'mut:%s(%s)' % (t[1], ', '.join(vstr(a) for a in t[3]))
    if k == 'SINKW':
        return 'sink%s<-%s' % (t[1], tstr(t[2]))
    if k in ('OWN', 'ALLOC'):
        return '%s:%s(%s)' % (k.lower(), t[1], ', '.join(vstr(a) for a in t[3]))
    if k == 'CFG':
        return 'cfg'
    if k == 'COLLECT':
        return 'collect<%s>' % t[1]
    if k == 'CALLBACK':
        return 'CALLBACK(%s)' % t[1]
    return k + '(' + ', '.join(str(x)[:40] for x in t[1:]) + ')'
