use crate::{json::J, obj};
use rustc_hir::def::DefKind;
use rustc_hir::def_id::{DefId, LocalDefId};
use rustc_middle::ty::{self, Ty, TyCtxt};
use rustc_span::Span;

pub fn def_path(tcx: TyCtxt<'_>, did: DefId) -> String {
    tcx.def_path_str(did)
}

pub fn krate_of(tcx: TyCtxt<'_>, did: DefId) -> String {
    tcx.crate_name(did.krate).to_string()
}

/// "file:line" of the span start (callsite-agnostic: the literal position of the tokens).
pub fn loc(tcx: TyCtxt<'_>, sp: Span) -> String {
    if sp.is_dummy() {
        return "?:0".into();
    }
    let sm = tcx.sess.source_map();
    let lo = sm.lookup_char_pos(sp.lo());
    format!("{}:{}", lo.file.name.prefer_local_unconditionally(), lo.line)
}

/// Location of the outermost macro call site (or of the span itself).
pub fn root_loc(tcx: TyCtxt<'_>, sp: Span) -> String {
    let mut s = sp;
    let mut n = 0;
    while s.from_expansion() && n < 32 {
        s = s.ctxt().outer_expn_data().call_site;
        n += 1;
    }
    loc(tcx, s)
}

/// Names of the macros in the expansion backtrace, innermost first (e.g. ["cfg"], ["Encode"]).
pub fn expn_chain(sp: Span) -> Vec<J> {
    let mut out = Vec::new();
    let mut s = sp;
    let mut n = 0;
    while s.from_expansion() && n < 32 {
        let d = s.ctxt().outer_expn_data();
        let name = match d.kind {
            rustc_span::ExpnKind::Macro(_, sym) => sym.to_string(),
            rustc_span::ExpnKind::Desugaring(k) => format!("desugar:{:?}", k),
            rustc_span::ExpnKind::AstPass(k) => format!("astpass:{:?}", k),
            rustc_span::ExpnKind::Root => "root".to_string(),
        };
        out.push(J::Str(name));
        s = d.call_site;
        n += 1;
    }
    out
}

/// Structured rendering of a type: enough for the evaluator to recognise constructors without
/// parsing strings.
pub fn ty_json<'tcx>(tcx: TyCtxt<'tcx>, t: Ty<'tcx>, depth: usize) -> J {
    let s = t.to_string();
    if depth > 6 {
        return obj! {"k": J::s("deep"), "s": J::s(s)};
    }
    match t.kind() {
        ty::Bool | ty::Char | ty::Int(_) | ty::Uint(_) | ty::Float(_) | ty::Str | ty::Never => {
            obj! {"k": J::s("prim"), "s": J::s(s)}
        },
        ty::Adt(def, args) => {
            let a: Vec<J> = args
                .iter()
                .map(|ga| match ga.kind() {
                    ty::GenericArgKind::Type(t2) => ty_json(tcx, t2, depth + 1),
                    ty::GenericArgKind::Lifetime(_) => obj! {"k": J::s("lt")},
                    ty::GenericArgKind::Const(c) => obj! {"k": J::s("const"), "s": J::s(c.to_string())},
                })
                .collect();
            obj! {"k": J::s("adt"), "path": J::s(def_path(tcx, def.did())), "crate": J::s(krate_of(tcx, def.did())), "args": J::Arr(a), "s": J::s(s)}
        },
        ty::Ref(_, inner, m) => {
            obj! {"k": J::s("ref"), "mut": J::Bool(m.is_mut()), "t": ty_json(tcx, *inner, depth + 1), "s": J::s(s)}
        },
        ty::RawPtr(inner, m) => {
            obj! {"k": J::s("ptr"), "mut": J::Bool(m.is_mut()), "t": ty_json(tcx, *inner, depth + 1), "s": J::s(s)}
        },
        ty::Slice(inner) => obj! {"k": J::s("slice"), "t": ty_json(tcx, *inner, depth + 1), "s": J::s(s)},
        ty::Array(inner, n) => {
            obj! {"k": J::s("array"), "t": ty_json(tcx, *inner, depth + 1), "n": J::s(n.to_string()), "s": J::s(s)}
        },
        ty::Tuple(ts) => {
            let a: Vec<J> = ts.iter().map(|t2| ty_json(tcx, t2, depth + 1)).collect();
            obj! {"k": J::s("tuple"), "ts": J::Arr(a), "s": J::s(s)}
        },
        ty::Param(p) => obj! {"k": J::s("param"), "name": J::s(p.name.as_str()), "s": J::s(s)},
        ty::Alias(..) => obj! {"k": J::s("alias"), "s": J::s(s)},
        ty::FnDef(did, _) => obj! {"k": J::s("fndef"), "path": J::s(def_path(tcx, *did)), "s": J::s(s)},
        ty::Closure(did, _) => obj! {"k": J::s("closure"), "path": J::s(def_path(tcx, *did)), "s": J::s(s)},
        ty::Dynamic(..) => obj! {"k": J::s("dyn"), "s": J::s(s)},
        _ => obj! {"k": J::s("other"), "s": J::s(s)},
    }
}

/// Header of a body owner: path, kind, impl context (trait, self type, method), parent, span.
pub fn fn_header<'tcx>(tcx: TyCtxt<'tcx>, ldid: LocalDefId) -> Vec<(&'static str, J)> {
    let did = ldid.to_def_id();
    let kind = tcx.def_kind(ldid);
    let path = def_path(tcx, did);
    let mut rec: Vec<(&'static str, J)> = Vec::new();
    rec.push(("path", J::s(&path)));
    rec.push(("kind", J::s(format!("{:?}", kind).split(|c| c == ' ' || c == '{').next().unwrap_or(""))));
    let span = tcx.def_span(did);
    rec.push(("loc", J::s(loc(tcx, span))));
    rec.push(("root_loc", J::s(root_loc(tcx, span))));
    rec.push(("expn", J::Arr(expn_chain(span))));
    let mut impl_trait = J::Null;
    let mut impl_self = J::Null;
    let mut impl_self_ty = J::Null;
    let mut impl_path = J::Null;
    let mut mname = J::Null;
    let mut ctx = J::s("free");
    // closures / inline consts: record the enclosing non-closure item
    let mut owner = did;
    while matches!(tcx.def_kind(owner), DefKind::Closure | DefKind::InlineConst) {
        owner = tcx.parent(owner);
    }
    if owner != did {
        rec.push(("parent", J::s(def_path(tcx, owner))));
        rec.push(("direct_parent", J::s(def_path(tcx, tcx.parent(did)))));
    }
    if matches!(tcx.def_kind(owner), DefKind::AssocFn | DefKind::AssocConst { .. }) {
        if owner == did {
            mname = J::s(tcx.item_name(owner).as_str());
        } else {
            mname = J::s(tcx.item_name(owner).as_str());
        }
        let parent = tcx.parent(owner);
        match tcx.def_kind(parent) {
            DefKind::Impl { .. } => {
                impl_path = J::s(def_path(tcx, parent));
                if let Some(tr) = tcx.impl_opt_trait_ref(parent) {
                    let tr = tr.instantiate_identity().skip_norm_wip();
                    impl_trait = J::s(def_path(tcx, tr.def_id));
                    impl_self = J::s(tr.self_ty().to_string());
                    impl_self_ty = ty_json(tcx, tr.self_ty(), 0);
                    ctx = J::s("trait_impl");
                } else {
                    let st = tcx.type_of(parent).instantiate_identity().skip_norm_wip();
                    impl_self = J::s(st.to_string());
                    impl_self_ty = ty_json(tcx, st, 0);
                    ctx = J::s("inherent_impl");
                }
            },
            DefKind::Trait => {
                impl_trait = J::s(def_path(tcx, parent));
                impl_self = J::s("Self");
                ctx = J::s("trait_default");
            },
            _ => {},
        }
    }
    rec.push(("ctx", ctx));
    rec.push(("trait", impl_trait));
    rec.push(("self", impl_self));
    rec.push(("self_ty", impl_self_ty));
    rec.push(("impl", impl_path));
    rec.push(("method", mname));
    if matches!(kind, DefKind::Fn | DefKind::AssocFn) {
        let sig = tcx.fn_sig(did).instantiate_identity().skip_norm_wip();
        let sig = sig.skip_binder();
        rec.push(("unsafe_fn", J::Bool(!sig.safety().is_safe())));
        let ins: Vec<J> = sig.inputs().iter().map(|t| J::s(t.to_string())).collect();
        rec.push(("inputs", J::Arr(ins)));
        rec.push(("output", J::s(sig.output().to_string())));
        rec.push(("vis", J::s(format!("{:?}", tcx.visibility(did)).split('(').next().unwrap_or(""))));
        let gens = tcx.generics_of(did);
        let gp: Vec<J> = gens.own_params.iter().map(|p| J::s(p.name.as_str())).collect();
        rec.push(("generics", J::Arr(gp)));
        let preds: Vec<J> = tcx
            .predicates_of(did)
            .instantiate_identity(tcx)
            .predicates
            .iter()
            .map(|p| J::s(p.skip_norm_wip().to_string()))
            .collect();
        rec.push(("preds", J::Arr(preds)));
    }
    rec
}
