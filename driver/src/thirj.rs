//! Typed THIR -> JSON.
use crate::common::{def_path, expn_chain, krate_of, loc};
use crate::{json::J, obj};
use rustc_middle::thir::{self, ExprId, ExprKind, PatKind, StmtKind, Thir};
use rustc_middle::ty::{self, TyCtxt};

pub struct W<'a, 'tcx> {
    pub tcx: TyCtxt<'tcx>,
    pub thir: &'a Thir<'tcx>,
}

fn lit_json(lit: &rustc_ast::LitKind, neg: bool) -> J {
    use rustc_ast::LitKind::*;
    match lit {
        Int(v, _) => {
            let n = v.get();
            if neg {
                J::Int(-(n as i128))
            } else {
                J::u(n)
            }
        },
        Bool(b) => J::Bool(*b),
        Str(s, _) => J::s(s.as_str()),
        Char(c) => J::s(c.to_string()),
        Byte(b) => J::Int(*b as i128),
        other => J::s(format!("{:?}", other)),
    }
}

impl<'a, 'tcx> W<'a, 'tcx> {
    fn ty(&self, t: ty::Ty<'tcx>) -> J {
        J::s(t.to_string())
    }

    pub fn pat(&self, p: &thir::Pat<'tcx>) -> J {
        match &p.kind {
            PatKind::Wild => obj! {"k": J::s("wild")},
            PatKind::Missing => obj! {"k": J::s("wild")},
            PatKind::Binding { name, var, subpattern, mode, ty, .. } => obj! {
                "k": J::s("bind"),
                "name": J::s(name.as_str()),
                "v": J::Int(var.0.local_id.as_u32() as i128),
                "byref": J::Bool(!matches!(mode.0, rustc_hir::ByRef::No)),
                "ty": self.ty(*ty),
                "sub": subpattern.as_ref().map(|s| self.pat(s)).unwrap_or(J::Null)
            },
            PatKind::Variant { adt_def, variant_index, subpatterns, .. } => {
                let v = adt_def.variant(*variant_index);
                let subs: Vec<J> = subpatterns
                    .iter()
                    .map(|fp| J::Arr(vec![J::Int(fp.field.as_u32() as i128), self.pat(&fp.pattern)]))
                    .collect();
                obj! {
                    "k": J::s("variant"),
                    "adt": J::s(def_path(self.tcx, adt_def.did())),
                    "name": J::s(v.name.as_str()),
                    "idx": J::Int(variant_index.as_u32() as i128),
                    "subs": J::Arr(subs),
                    "ty": self.ty(p.ty)
                }
            },
            PatKind::Leaf { subpatterns } => {
                let subs: Vec<J> = subpatterns
                    .iter()
                    .map(|fp| J::Arr(vec![J::Int(fp.field.as_u32() as i128), self.pat(&fp.pattern)]))
                    .collect();
                obj! {"k": J::s("leaf"), "subs": J::Arr(subs), "ty": self.ty(p.ty)}
            },
            PatKind::Deref { subpattern, .. } => obj! {"k": J::s("deref"), "sub": self.pat(subpattern)},
            PatKind::DerefPattern { subpattern, .. } => {
                obj! {"k": J::s("derefpat"), "sub": self.pat(subpattern)}
            },
            PatKind::Constant { value } => {
                obj! {"k": J::s("const"), "v": J::s(value.to_string()), "ty": self.ty(p.ty)}
            },
            PatKind::Range(r) => obj! {"k": J::s("range"), "v": J::s(r.to_string()), "ty": self.ty(p.ty)},
            PatKind::Guard { subpattern, condition } => {
                obj! {"k": J::s("guard"), "sub": self.pat(subpattern), "cond": self.expr(*condition)}
            },
            PatKind::Or { pats } => {
                obj! {"k": J::s("or"), "pats": J::Arr(pats.iter().map(|q| self.pat(q)).collect())}
            },
            PatKind::Slice { prefix, slice, suffix } | PatKind::Array { prefix, slice, suffix } => obj! {
                "k": J::s("slicepat"),
                "prefix": J::Arr(prefix.iter().map(|q| self.pat(q)).collect()),
                "slice": match slice { Some(q) => self.pat(q), None => J::Null },
                "suffix": J::Arr(suffix.iter().map(|q| self.pat(q)).collect())
            },
            PatKind::Never => obj! {"k": J::s("never")},
            PatKind::Error(_) => obj! {"k": J::s("error")},
        }
    }

    fn block(&self, b: thir::BlockId) -> J {
        let blk = &self.thir.blocks[b];
        let mut stmts = Vec::new();
        for s in blk.stmts.iter() {
            match &self.thir.stmts[*s].kind {
                StmtKind::Expr { expr, .. } => stmts.push(self.expr(*expr)),
                StmtKind::Let { pattern, initializer, else_block, span, .. } => stmts.push(obj! {
                    "k": J::s("let"),
                    "pat": self.pat(pattern),
                    "init": initializer.map(|i| self.expr(i)).unwrap_or(J::Null),
                    "else": else_block.map(|e| self.block(e)).unwrap_or(J::Null),
                    "loc": J::s(loc(self.tcx, *span))
                }),
            }
        }
        let safety = match blk.safety_mode {
            thir::BlockSafety::Safe => "safe",
            thir::BlockSafety::BuiltinUnsafe => "builtin_unsafe",
            thir::BlockSafety::ExplicitUnsafe(_) => "unsafe",
        };
        obj! {
            "k": J::s("block"),
            "safety": J::s(safety),
            "stmts": J::Arr(stmts),
            "expr": blk.expr.map(|e| self.expr(e)).unwrap_or(J::Null),
            "loc": J::s(loc(self.tcx, blk.span))
        }
    }

    fn es(&self, v: &[ExprId]) -> J {
        J::Arr(v.iter().map(|e| self.expr(*e)).collect())
    }

    pub fn expr(&self, e: ExprId) -> J {
        let ex = &self.thir.exprs[e];
        let ty = self.ty(ex.ty);
        let l = || J::s(loc(self.tcx, ex.span));
        match &ex.kind {
            ExprKind::Scope { value, .. } => self.expr(*value),
            ExprKind::Use { source } | ExprKind::NeverToAny { source } => self.expr(*source),
            ExprKind::PlaceTypeAscription { source, .. } |
            ExprKind::ValueTypeAscription { source, .. } => self.expr(*source),
            ExprKind::PointerCoercion { source, cast, .. } => obj! {
                "k": J::s("coerce"), "cast": J::s(format!("{:?}", cast)), "ty": ty, "e": self.expr(*source)
            },
            ExprKind::If { cond, then, else_opt, .. } => obj! {
                "k": J::s("if"), "cond": self.expr(*cond), "then": self.expr(*then),
                "else": else_opt.map(|x| self.expr(x)).unwrap_or(J::Null), "loc": l()
            },
            ExprKind::Call { ty: fty, fun, args, from_hir_call, .. } => match fty.kind() {
                ty::FnDef(did, ga) => {
                    let gas: Vec<J> = ga.iter().map(|a| J::s(a.to_string())).collect();
                    let tr = self.tcx.trait_of_assoc(*did).map(|t| J::s(def_path(self.tcx, t))).unwrap_or(J::Null);
                    let sig = self.tcx.fn_sig(*did).skip_binder().skip_binder();
                    // inherent impl: self type of the impl the method belongs to
                    let mut inh = J::Null;
                    if let Some(p) = self.tcx.opt_parent(*did) {
                        if matches!(self.tcx.def_kind(p), rustc_hir::def::DefKind::Impl { of_trait: false }) {
                            inh = J::s(self.tcx.type_of(p).instantiate_identity().skip_norm_wip().to_string());
                        }
                    }
                    obj! {
                        "k": J::s("call"),
                        "f": J::s(def_path(self.tcx, *did)),
                        "fa": J::s(self.tcx.def_path_str_with_args(*did, ga)),
                        "name": J::s(self.tcx.item_name(*did).as_str()),
                        "trait": tr,
                        "inherent": inh,
                        "crate": J::s(krate_of(self.tcx, *did)),
                        "local": J::Bool(did.is_local()),
                        "unsafe": J::Bool(!sig.safety().is_safe()),
                        "hir_call": J::Bool(*from_hir_call),
                        "ga": J::Arr(gas),
                        "args": self.es(args),
                        "ty": ty,
                        "loc": l(),
                        "exp": J::Bool(ex.span.from_expansion())
                    }
                },
                _ => obj! {"k": J::s("callptr"), "fun": self.expr(*fun), "args": self.es(args), "ty": ty, "loc": l()},
            },
            ExprKind::ByUse { expr, .. } => self.expr(*expr),
            ExprKind::Deref { arg } => obj! {"k": J::s("deref"), "e": self.expr(*arg), "ty": ty},
            ExprKind::Binary { op, lhs, rhs } => obj! {
                "k": J::s("bin"), "op": J::s(format!("{:?}", op)), "l": self.expr(*lhs), "r": self.expr(*rhs), "ty": ty, "loc": l()
            },
            ExprKind::LogicalOp { op, lhs, rhs } => obj! {
                "k": J::s("logic"), "op": J::s(format!("{:?}", op)), "l": self.expr(*lhs), "r": self.expr(*rhs), "loc": l()
            },
            ExprKind::Unary { op, arg } => obj! {
                "k": J::s("un"), "op": J::s(format!("{:?}", op)), "e": self.expr(*arg), "ty": ty, "loc": l()
            },
            ExprKind::Cast { source } => {
                let from = self.thir.exprs[*source].ty;
                obj! {"k": J::s("cast"), "ty": ty, "from": self.ty(from), "e": self.expr(*source), "loc": l()}
            },
            ExprKind::Loop { body } => obj! {"k": J::s("loop"), "body": self.expr(*body), "loc": l()},
            ExprKind::Let { expr, pat } => obj! {"k": J::s("letcond"), "pat": self.pat(pat), "e": self.expr(*expr)},
            ExprKind::Match { scrutinee, arms, match_source } => {
                let ms = format!("{:?}", match_source);
                let ms = ms.split('(').next().unwrap().to_string();
                let arms: Vec<J> = arms
                    .iter()
                    .map(|a| {
                        let arm = &self.thir.arms[*a];
                        obj! {
                            "pat": self.pat(&arm.pattern),
                            "guard": arm.guard.map(|g| self.expr(g)).unwrap_or(J::Null),
                            "body": self.expr(arm.body),
                            "loc": J::s(loc(self.tcx, arm.span))
                        }
                    })
                    .collect();
                obj! {"k": J::s("match"), "src": J::s(ms), "scrut": self.expr(*scrutinee), "arms": J::Arr(arms), "ty": ty, "loc": l()}
            },
            ExprKind::Block { block } => self.block(*block),
            ExprKind::Assign { lhs, rhs } => obj! {"k": J::s("assign"), "l": self.expr(*lhs), "r": self.expr(*rhs), "loc": l()},
            ExprKind::AssignOp { op, lhs, rhs } => obj! {
                "k": J::s("assignop"), "op": J::s(format!("{:?}", op)), "l": self.expr(*lhs), "r": self.expr(*rhs), "loc": l()
            },
            ExprKind::Field { lhs, variant_index, name } => {
                let lty = self.thir.exprs[*lhs].ty;
                let fname = match lty.kind() {
                    ty::Adt(def, _) => J::s(def.variant(*variant_index).fields[*name].name.as_str()),
                    _ => J::Null,
                };
                obj! {
                    "k": J::s("field"), "i": J::Int(name.as_u32() as i128), "var": J::Int(variant_index.as_u32() as i128),
                    "fname": fname, "e": self.expr(*lhs), "ty": ty, "lty": self.ty(lty)
                }
            },
            ExprKind::Index { lhs, index } => obj! {"k": J::s("index"), "e": self.expr(*lhs), "i": self.expr(*index), "ty": ty, "loc": l()},
            ExprKind::VarRef { id } => obj! {"k": J::s("var"), "v": J::Int(id.0.local_id.as_u32() as i128), "ty": ty},
            ExprKind::UpvarRef { var_hir_id, .. } => {
                obj! {"k": J::s("upvar"), "v": J::Int(var_hir_id.0.local_id.as_u32() as i128), "ty": ty}
            },
            ExprKind::Borrow { arg, borrow_kind } => obj! {
                "k": J::s("ref"), "mut": J::Bool(matches!(borrow_kind, rustc_middle::mir::BorrowKind::Mut { .. })), "e": self.expr(*arg), "ty": ty
            },
            ExprKind::RawBorrow { arg, mutability } => obj! {"k": J::s("rawref"), "mut": J::Bool(mutability.is_mut()), "e": self.expr(*arg), "ty": ty},
            ExprKind::Break { value, .. } => obj! {"k": J::s("break"), "e": value.map(|v| self.expr(v)).unwrap_or(J::Null)},
            ExprKind::Continue { .. } => obj! {"k": J::s("continue")},
            ExprKind::Return { value } => obj! {"k": J::s("return"), "e": value.map(|v| self.expr(v)).unwrap_or(J::Null), "loc": l()},
            ExprKind::Repeat { value, count } => obj! {"k": J::s("repeat"), "n": J::s(count.to_string()), "e": self.expr(*value), "ty": ty},
            ExprKind::Array { fields } => obj! {"k": J::s("array"), "es": self.es(fields), "ty": ty},
            ExprKind::Tuple { fields } => obj! {"k": J::s("tuple"), "es": self.es(fields), "ty": ty},
            ExprKind::Adt(adt) => {
                let v = adt.adt_def.variant(adt.variant_index);
                let fs: Vec<J> = adt
                    .fields
                    .iter()
                    .map(|f| J::Arr(vec![J::Int(f.name.as_u32() as i128), self.expr(f.expr), J::s(v.fields[f.name].name.as_str())]))
                    .collect();
                let base = match &adt.base {
                    thir::AdtExprBase::None => J::Null,
                    thir::AdtExprBase::Base(b) => self.expr(b.base),
                    _ => J::s("default"),
                };
                obj! {
                    "k": J::s("adt"), "adt": J::s(def_path(self.tcx, adt.adt_def.did())), "variant": J::s(v.name.as_str()),
                    "vidx": J::Int(adt.variant_index.as_u32() as i128), "fields": J::Arr(fs), "base": base, "ty": ty, "loc": l()
                }
            },
            ExprKind::Closure(c) => obj! {"k": J::s("closure"), "id": J::s(def_path(self.tcx, c.closure_id.to_def_id())), "loc": l()},
            ExprKind::Literal { lit, neg } => obj! {
                "k": J::s("lit"), "v": lit_json(&lit.node, *neg), "ty": ty, "exp": J::Bool(ex.span.from_expansion()),
                "expn": J::Arr(if ex.span.from_expansion() { expn_chain(ex.span) } else { vec![] }), "loc": l()
            },
            ExprKind::NonHirLiteral { lit, .. } => obj! {"k": J::s("nlit"), "v": J::s(format!("{:?}", lit)), "ty": ty},
            ExprKind::ZstLiteral { .. } => {
                let (p, ga) = match ex.ty.kind() {
                    ty::FnDef(did, ga) => (
                        J::s(def_path(self.tcx, *did)),
                        J::Arr(ga.iter().map(|a| J::s(a.to_string())).collect()),
                    ),
                    _ => (J::Null, J::Null),
                };
                obj! {"k": J::s("zst"), "ty": ty, "fn": p, "ga": ga}
            },
            ExprKind::NamedConst { def_id, args, .. } => {
                let mut val = J::Null;
                if let Ok(v) = self.tcx.const_eval_resolve(
                    ty::TypingEnv::fully_monomorphized(),
                    rustc_middle::mir::UnevaluatedConst::new(*def_id, args),
                    rustc_span::DUMMY_SP,
                ) {
                    if args.is_empty() || !args.iter().any(|a| a.has_param_hack()) {
                        if let Some(si) = v.try_to_scalar_int() {
                            val = J::u(si.to_bits_unchecked());
                        }
                    }
                }
                obj! {
                    "k": J::s("const"), "path": J::s(self.tcx.def_path_str_with_args(*def_id, args)),
                    "def": J::s(def_path(self.tcx, *def_id)), "val": val, "ty": ty, "loc": l()
                }
            },
            ExprKind::ConstParam { param, .. } => obj! {"k": J::s("cparam"), "name": J::s(param.name.as_str()), "ty": ty},
            ExprKind::ConstBlock { did, .. } => obj! {"k": J::s("constblock"), "id": J::s(def_path(self.tcx, *did)), "ty": ty},
            ExprKind::StaticRef { def_id, .. } => obj! {"k": J::s("static"), "path": J::s(def_path(self.tcx, *def_id)), "ty": ty, "loc": l()},
            ExprKind::ThreadLocalRef(did) => obj! {"k": J::s("tls"), "path": J::s(def_path(self.tcx, *did)), "ty": ty, "loc": l()},
            ExprKind::InlineAsm(_) => obj! {"k": J::s("asm"), "loc": l()},
            other => obj! {"k": J::s("other"), "dbg": J::s(format!("{:?}", other).chars().take(80).collect::<String>()), "loc": l()},
        }
    }
}

trait HasParamHack {
    fn has_param_hack(&self) -> bool;
}
impl<'tcx> HasParamHack for ty::GenericArg<'tcx> {
    fn has_param_hack(&self) -> bool {
        use rustc_middle::ty::TypeVisitableExt;
        self.has_param()
    }
}
