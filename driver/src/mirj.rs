//! MIR (optimized_mir at -Zmir-opt-level=0) -> JSON.
use crate::common::{def_path, krate_of, loc};
use crate::{json::J, obj};
use rustc_hir::def_id::LocalDefId;
use rustc_middle::mir::{
    self, AggregateKind, BasicBlock, Body, Const, Operand, Place, ProjectionElem, Rvalue,
    StatementKind, TerminatorKind, UnwindAction,
};
use rustc_middle::ty::{self, TyCtxt, TypeVisitableExt};

struct M<'a, 'tcx> {
    tcx: TyCtxt<'tcx>,
    body: &'a Body<'tcx>,
    owner: LocalDefId,
}

fn bb(b: BasicBlock) -> J {
    J::Int(b.as_u32() as i128)
}

fn unwind(u: &UnwindAction) -> J {
    match u {
        UnwindAction::Cleanup(b) => bb(*b),
        UnwindAction::Continue => J::s("continue"),
        UnwindAction::Unreachable => J::s("unreachable"),
        UnwindAction::Terminate(_) => J::s("terminate"),
    }
}

impl<'a, 'tcx> M<'a, 'tcx> {
    fn place(&self, p: &Place<'tcx>) -> J {
        let mut proj = Vec::new();
        for (_base, elem) in p.iter_projections() {
            proj.push(match elem {
                ProjectionElem::Deref => J::s("*"),
                ProjectionElem::Field(f, t) => obj! {"f": J::Int(f.as_u32() as i128), "ty": J::s(t.to_string())},
                ProjectionElem::Index(l) => obj! {"idx": J::Int(l.as_u32() as i128)},
                ProjectionElem::ConstantIndex { offset, min_length, from_end } => obj! {
                    "cidx": J::Int(offset as i128), "min": J::Int(min_length as i128), "from_end": J::Bool(from_end)
                },
                ProjectionElem::Subslice { from, to, from_end } => obj! {
                    "sub": J::Int(from as i128), "to": J::Int(to as i128), "from_end": J::Bool(from_end)
                },
                ProjectionElem::Downcast(name, v) => obj! {
                    "down": J::Int(v.as_u32() as i128), "name": name.map(|s| J::s(s.as_str())).unwrap_or(J::Null)
                },
                ProjectionElem::OpaqueCast(_) => J::s("opaque"),
                ProjectionElem::UnwrapUnsafeBinder(_) => J::s("unbind"),
            });
        }
        obj! {"l": J::Int(p.local.as_u32() as i128), "p": J::Arr(proj)}
    }

    fn constant(&self, c: &Const<'tcx>) -> J {
        let t = c.ty();
        let mut rec: Vec<(&'static str, J)> = vec![("ty", J::s(t.to_string())), ("s", J::s(c.to_string()))];
        if let ty::FnDef(did, ga) = t.kind() {
            rec.push(("fn", self.fn_json(*did, ga)));
        } else if !c.has_param() {
            let env = ty::TypingEnv::post_analysis(self.tcx, self.owner.to_def_id());
            if t.is_integral() || t.is_bool() || t.is_char() {
                if let Some(si) = c.try_eval_scalar_int(self.tcx, env) {
                    let size = si.size();
                    let v = if t.is_signed() { J::Int(si.to_int(size)) } else { J::u(si.to_uint(size)) };
                    rec.push(("v", v));
                }
            }
        }
        if let Const::Unevaluated(u, _) = c {
            rec.push(("def", J::s(def_path(self.tcx, u.def))));
        }
        J::Obj(rec)
    }

    fn fn_json(&self, did: rustc_hir::def_id::DefId, ga: ty::GenericArgsRef<'tcx>) -> J {
        let tcx = self.tcx;
        let gas: Vec<J> = ga.iter().map(|a| J::s(a.to_string())).collect();
        let tr = tcx.trait_of_assoc(did).map(|t| J::s(def_path(tcx, t))).unwrap_or(J::Null);
        let mut inh = J::Null;
        if let Some(p) = tcx.opt_parent(did) {
            if matches!(tcx.def_kind(p), rustc_hir::def::DefKind::Impl { of_trait: false }) {
                inh = J::s(tcx.type_of(p).instantiate_identity().skip_norm_wip().to_string());
            }
        }
        let mut resolved = J::Null;
        let mut resolved_local = J::Null;
        let env = ty::TypingEnv::post_analysis(tcx, self.owner.to_def_id());
        if let Ok(Some(inst)) = ty::Instance::try_resolve(tcx, env, did, ga) {
            let rd = inst.def_id();
            resolved = J::s(def_path(tcx, rd));
            resolved_local = J::Bool(rd.is_local());
        }
        let sig = tcx.fn_sig(did).skip_binder().skip_binder();
        obj! {
            "f": J::s(def_path(tcx, did)),
            "fa": J::s(tcx.def_path_str_with_args(did, ga)),
            "name": J::s(tcx.item_name(did).as_str()),
            "trait": tr,
            "inherent": inh,
            "crate": J::s(krate_of(tcx, did)),
            "local": J::Bool(did.is_local()),
            "unsafe": J::Bool(!sig.safety().is_safe()),
            "ga": J::Arr(gas),
            "resolved": resolved,
            "resolved_local": resolved_local
        }
    }

    fn operand(&self, o: &Operand<'tcx>) -> J {
        match o {
            Operand::Copy(p) => obj! {"copy": self.place(p)},
            Operand::Move(p) => obj! {"move": self.place(p)},
            Operand::Constant(c) => obj! {"const": self.constant(&c.const_)},
            Operand::RuntimeChecks(r) => obj! {"rtcheck": J::s(format!("{:?}", r))},
        }
    }

    fn rvalue(&self, r: &Rvalue<'tcx>) -> J {
        match r {
            Rvalue::Use(o, _) => obj! {"k": J::s("use"), "o": self.operand(o)},
            Rvalue::Repeat(o, n) => obj! {"k": J::s("repeat"), "o": self.operand(o), "n": J::s(n.to_string())},
            Rvalue::Ref(_, bk, p) => obj! {
                "k": J::s("ref"), "mut": J::Bool(matches!(bk, mir::BorrowKind::Mut { .. })), "p": self.place(p)
            },
            Rvalue::ThreadLocalRef(d) => obj! {"k": J::s("tls"), "path": J::s(def_path(self.tcx, *d))},
            Rvalue::RawPtr(k, p) => obj! {"k": J::s("rawptr"), "kind": J::s(format!("{:?}", k)), "p": self.place(p)},
            Rvalue::Cast(kind, o, t) => {
                let from = o.ty(&self.body.local_decls, self.tcx);
                let ks = format!("{:?}", kind);
                let kname = ks.split('(').next().unwrap_or("").to_string();
                obj! {
                    "k": J::s("cast"), "kind": J::s(kname), "detail": J::s(ks), "o": self.operand(o),
                    "from": J::s(from.to_string()), "to": J::s(t.to_string())
                }
            },
            Rvalue::BinaryOp(op, ab) => obj! {
                "k": J::s("bin"), "op": J::s(format!("{:?}", op)), "a": self.operand(&ab.0), "b": self.operand(&ab.1)
            },
            Rvalue::UnaryOp(op, a) => obj! {"k": J::s("un"), "op": J::s(format!("{:?}", op)), "a": self.operand(a)},
            Rvalue::Discriminant(p) => obj! {"k": J::s("discr"), "p": self.place(p)},
            Rvalue::Aggregate(kind, ops) => {
                let ops: Vec<J> = ops.iter().map(|o| self.operand(o)).collect();
                let (ak, extra) = match &**kind {
                    AggregateKind::Array(t) => ("array", J::s(t.to_string())),
                    AggregateKind::Tuple => ("tuple", J::Null),
                    AggregateKind::Adt(did, v, ga, _, _) => {
                        let adt = self.tcx.adt_def(*did);
                        (
                            "adt",
                            obj! {
                                "path": J::s(def_path(self.tcx, *did)),
                                "variant": J::s(adt.variant(*v).name.as_str()),
                                "vidx": J::Int(v.as_u32() as i128),
                                "ga": J::Arr(ga.iter().map(|a| J::s(a.to_string())).collect())
                            },
                        )
                    },
                    AggregateKind::Closure(did, _) => ("closure", J::s(def_path(self.tcx, *did))),
                    AggregateKind::RawPtr(t, _) => ("rawptr", J::s(t.to_string())),
                    _ => ("other", J::Null),
                };
                obj! {"k": J::s("agg"), "ak": J::s(ak), "x": extra, "ops": J::Arr(ops)}
            },
            Rvalue::CopyForDeref(p) => obj! {"k": J::s("use"), "o": obj!{"copy": self.place(p)}},
            Rvalue::WrapUnsafeBinder(o, _) => obj! {"k": J::s("use"), "o": self.operand(o)},
        }
    }

    fn body(&self) -> J {
        let tcx = self.tcx;
        let locals: Vec<J> = self
            .body
            .local_decls
            .iter()
            .map(|d| obj! {"ty": J::s(d.ty.to_string())})
            .collect();
        let mut names: Vec<J> = Vec::new();
        for vdi in self.body.var_debug_info.iter() {
            if let mir::VarDebugInfoContents::Place(p) = &vdi.value {
                names.push(J::Arr(vec![J::s(vdi.name.as_str()), self.place(p)]));
            }
        }
        let mut blocks = Vec::new();
        for (_b, data) in self.body.basic_blocks.iter_enumerated() {
            let mut stmts = Vec::new();
            for st in &data.statements {
                match &st.kind {
                    StatementKind::Assign(pr) => {
                        let (p, r) = &**pr;
                        stmts.push(obj! {
                            "k": J::s("assign"), "p": self.place(p), "r": self.rvalue(r),
                            "loc": J::s(loc(tcx, st.source_info.span)),
                            "exp": J::Bool(st.source_info.span.from_expansion())
                        });
                    },
                    StatementKind::SetDiscriminant { place, variant_index } => {
                        stmts.push(obj! {"k": J::s("setdiscr"), "p": self.place(place), "v": J::Int(variant_index.as_u32() as i128)});
                    },
                    StatementKind::Intrinsic(i) => {
                        stmts.push(obj! {"k": J::s("intrinsic"), "dbg": J::s(format!("{:?}", i))});
                    },
                    StatementKind::StorageDead(l) => {
                        stmts.push(obj! {"k": J::s("dead"), "l": J::Int(l.as_u32() as i128)});
                    },
                    _ => {},
                }
            }
            let t = data.terminator();
            let tl = J::s(loc(tcx, t.source_info.span));
            let texp = J::Bool(t.source_info.span.from_expansion());
            let term = match &t.kind {
                TerminatorKind::Goto { target } => obj! {"k": J::s("goto"), "t": bb(*target)},
                TerminatorKind::SwitchInt { discr, targets } => {
                    let ts: Vec<J> = targets.iter().map(|(v, b)| J::Arr(vec![J::u(v), bb(b)])).collect();
                    let dty = discr.ty(&self.body.local_decls, tcx);
                    obj! {
                        "k": J::s("switch"), "d": self.operand(discr), "dty": J::s(dty.to_string()),
                        "ts": J::Arr(ts), "otherwise": bb(targets.otherwise()), "loc": tl, "exp": texp
                    }
                },
                TerminatorKind::UnwindResume => obj! {"k": J::s("resume")},
                TerminatorKind::UnwindTerminate(_) => obj! {"k": J::s("terminate")},
                TerminatorKind::Return => obj! {"k": J::s("return"), "loc": tl},
                TerminatorKind::Unreachable => obj! {"k": J::s("unreachable"), "loc": tl},
                TerminatorKind::Drop { place, target, unwind: u, .. } => {
                    let pty = place.ty(&self.body.local_decls, tcx).ty;
                    obj! {
                        "k": J::s("drop"), "p": self.place(place), "pty": J::s(pty.to_string()),
                        "t": bb(*target), "unwind": unwind(u), "loc": tl
                    }
                },
                TerminatorKind::Call { func, args, destination, target, unwind: u, fn_span, .. } => {
                    let f = match func {
                        Operand::Constant(c) => match c.const_.ty().kind() {
                            ty::FnDef(did, ga) => self.fn_json(*did, ga),
                            _ => obj! {"ptr": self.operand(func)},
                        },
                        _ => obj! {"ptr": self.operand(func), "pty": J::s(func.ty(&self.body.local_decls, tcx).to_string())},
                    };
                    let a: Vec<J> = args.iter().map(|s| self.operand(&s.node)).collect();
                    let aty: Vec<J> =
                        args.iter().map(|s| J::s(s.node.ty(&self.body.local_decls, tcx).to_string())).collect();
                    obj! {
                        "k": J::s("call"), "fn": f, "args": J::Arr(a), "aty": J::Arr(aty), "dest": self.place(destination),
                        "t": target.map(bb).unwrap_or(J::Null), "unwind": unwind(u), "loc": tl,
                        "floc": J::s(loc(tcx, *fn_span)), "exp": texp
                    }
                },
                TerminatorKind::Assert { cond, expected, msg, target, unwind: u } => {
                    use rustc_middle::mir::AssertKind::*;
                    let (mk, ops): (&str, Vec<J>) = match &**msg {
                        BoundsCheck { len, index } => ("BoundsCheck", vec![self.operand(len), self.operand(index)]),
                        Overflow(op, a, b) => {
                            let _ = op;
                            ("Overflow", vec![self.operand(a), self.operand(b)])
                        },
                        OverflowNeg(a) => ("OverflowNeg", vec![self.operand(a)]),
                        DivisionByZero(a) => ("DivisionByZero", vec![self.operand(a)]),
                        RemainderByZero(a) => ("RemainderByZero", vec![self.operand(a)]),
                        MisalignedPointerDereference { required, found } => {
                            ("MisalignedPointerDereference", vec![self.operand(required), self.operand(found)])
                        },
                        NullPointerDereference => ("NullPointerDereference", vec![]),
                        InvalidEnumConstruction(a) => ("InvalidEnumConstruction", vec![self.operand(a)]),
                        _ => ("Other", vec![]),
                    };
                    let op = match &**msg {
                        Overflow(op, _, _) => J::s(format!("{:?}", op)),
                        _ => J::Null,
                    };
                    obj! {
                        "k": J::s("assert"), "cond": self.operand(cond), "expected": J::Bool(*expected),
                        "msg": J::s(mk), "op": op, "ops": J::Arr(ops), "t": bb(*target), "unwind": unwind(u), "loc": tl, "exp": texp
                    }
                },
                TerminatorKind::FalseEdge { real_target, .. } => obj! {"k": J::s("goto"), "t": bb(*real_target)},
                TerminatorKind::FalseUnwind { real_target, .. } => obj! {"k": J::s("goto"), "t": bb(*real_target)},
                other => obj! {"k": J::s("other"), "dbg": J::s(format!("{:?}", other))},
            };
            blocks.push(obj! {"cleanup": J::Bool(data.is_cleanup), "stmts": J::Arr(stmts), "term": term});
        }
        obj! {
            "argc": J::Int(self.body.arg_count as i128),
            "locals": J::Arr(locals),
            "names": J::Arr(names),
            "blocks": J::Arr(blocks)
        }
    }
}

pub fn body<'tcx>(tcx: TyCtxt<'tcx>, owner: LocalDefId, body: &Body<'tcx>) -> J {
    M { tcx, body, owner }.body()
}
