//! impl / trait / ADT / const tables.
use crate::common::{def_path, expn_chain, krate_of, loc, root_loc, ty_json};
use crate::{json::J, obj};
use rustc_hir::def::DefKind;
use rustc_hir::{Attribute, ItemKind};
use rustc_middle::ty::{self, TyCtxt, TypeVisitableExt};

fn codec_attrs(tcx: TyCtxt<'_>, hir_id: rustc_hir::HirId) -> J {
    let mut out = Vec::new();
    for a in tcx.hir_attrs(hir_id) {
        if let Attribute::Unparsed(item) = a {
            let path: Vec<String> = item.path.segments.iter().map(|s| s.to_string()).collect();
            let args = match &item.args {
                rustc_hir::AttrArgs::Empty => String::new(),
                rustc_hir::AttrArgs::Delimited(d) => rustc_ast_pretty::pprust::tts_to_string(&d.tokens),
                rustc_hir::AttrArgs::Eq { expr, .. } => format!("= {}", expr.symbol),
            };
            out.push(obj! {"path": J::s(path.join("::")), "args": J::s(args)});
        }
    }
    J::Arr(out)
}

fn adt_fields_json<'tcx>(tcx: TyCtxt<'tcx>, def: ty::AdtDef<'tcx>) -> J {
    let mut vs = Vec::new();
    for v in def.variants().iter() {
        let fs: Vec<J> = v
            .fields
            .iter()
            .map(|f| {
                let t = tcx.type_of(f.did).instantiate_identity().skip_norm_wip();
                obj! {
                    "name": J::s(f.name.as_str()), "ty": J::s(t.to_string()),
                    "phantom": J::Bool(t.is_phantom_data()),
                    "pub": J::Bool(f.vis.is_public())
                }
            })
            .collect();
        vs.push(obj! {"name": J::s(v.name.as_str()), "fields": J::Arr(fs)});
    }
    J::Arr(vs)
}

pub fn impls<'tcx>(tcx: TyCtxt<'tcx>) -> Vec<J> {
    let mut out = Vec::new();
    for id in tcx.hir_free_items() {
        let item = tcx.hir_item(id);
        let ItemKind::Impl(imp) = &item.kind else { continue };
        let did = item.owner_id.to_def_id();
        let span = item.span;
        let (trait_path, trait_args, self_ty) = match tcx.impl_opt_trait_ref(did) {
            Some(tr) => {
                let tr = tr.instantiate_identity().skip_norm_wip();
                let targs: Vec<J> = tr.args.iter().skip(1).map(|a| J::s(a.to_string())).collect();
                (J::s(def_path(tcx, tr.def_id)), J::Arr(targs), tr.self_ty())
            },
            None => (J::Null, J::Arr(vec![]), tcx.type_of(did).instantiate_identity().skip_norm_wip()),
        };
        let trait_args_ty = match tcx.impl_opt_trait_ref(did) {
            Some(tr) => {
                let tr = tr.instantiate_identity().skip_norm_wip();
                J::Arr(
                    tr.args
                        .iter()
                        .skip(1)
                        .filter_map(|a| a.as_type())
                        .map(|t| ty_json(tcx, t, 0))
                        .collect(),
                )
            },
            None => J::Arr(vec![]),
        };
        let gens = tcx.generics_of(did);
        let gp: Vec<J> = gens
            .own_params
            .iter()
            .map(|p| {
                obj! {"name": J::s(p.name.as_str()), "kind": J::s(match p.kind {
                    ty::GenericParamDefKind::Lifetime => "lifetime",
                    ty::GenericParamDefKind::Type { .. } => "type",
                    ty::GenericParamDefKind::Const { .. } => "const",
                })}
            })
            .collect();
        let preds: Vec<J> = tcx
            .predicates_of(did)
            .instantiate_identity(tcx)
            .predicates
            .iter()
            .map(|p| J::s(p.skip_norm_wip().to_string()))
            .collect();
        // structured trait predicates: (self type string, trait path, trait args)
        let mut tpreds = Vec::new();
        for p in tcx.predicates_of(did).instantiate_identity(tcx).predicates.iter() {
            let p = p.skip_norm_wip();
            if let Some(tp) = p.as_trait_clause() {
                let tp = tp.skip_binder();
                let args: Vec<J> = tp.trait_ref.args.iter().skip(1).map(|a| J::s(a.to_string())).collect();
                tpreds.push(obj! {
                    "self": J::s(tp.self_ty().to_string()),
                    "trait": J::s(def_path(tcx, tp.def_id())),
                    "args": J::Arr(args)
                });
            }
        }
        let mut items = Vec::new();
        for ai in tcx.associated_items(did).in_definition_order() {
            let kind = match ai.kind {
                ty::AssocKind::Fn { .. } => "fn",
                ty::AssocKind::Const { .. } => "const",
                ty::AssocKind::Type { .. } => "type",
            };
            let mut rec = vec![
                ("name", J::s(ai.name().as_str())),
                ("kind", J::s(kind)),
                ("path", J::s(def_path(tcx, ai.def_id))),
            ];
            if let ty::AssocKind::Type { .. } = ai.kind {
                let t = tcx.type_of(ai.def_id).instantiate_identity().skip_norm_wip();
                rec.push(("value", J::s(t.to_string())));
                rec.push(("value_ty", ty_json(tcx, t, 0)));
            }
            items.push(J::Obj(rec));
        }
        let self_adt = match self_ty.kind() {
            ty::Adt(def, _) => obj! {
                "path": J::s(def_path(tcx, def.did())),
                "crate": J::s(krate_of(tcx, def.did())),
                "kind": J::s(if def.is_enum() { "enum" } else if def.is_union() { "union" } else { "struct" }),
                "variants": adt_fields_json(tcx, *def)
            },
            _ => J::Null,
        };
        out.push(obj! {
            "path": J::s(def_path(tcx, did)),
            "trait": trait_path,
            "trait_args": trait_args,
            "trait_args_ty": trait_args_ty,
            "self": J::s(self_ty.to_string()),
            "self_ty": ty_json(tcx, self_ty, 0),
            "self_adt": self_adt,
            "generics": J::Arr(gp),
            "preds": J::Arr(preds),
            "tpreds": J::Arr(tpreds),
            "items": J::Arr(items),
            "unsafe": J::Bool(imp.of_trait.as_ref().map(|t| !matches!(t.safety, rustc_hir::Safety::Safe)).unwrap_or(false)),
            "loc": J::s(loc(tcx, span)),
            "root_loc": J::s(root_loc(tcx, span)),
            "expn": J::Arr(expn_chain(span))
        });
    }
    out
}

pub fn traits<'tcx>(tcx: TyCtxt<'tcx>) -> Vec<J> {
    let mut out = Vec::new();
    for id in tcx.hir_free_items() {
        let item = tcx.hir_item(id);
        if !matches!(item.kind, ItemKind::Trait { .. }) {
            continue;
        }
        let did = item.owner_id.to_def_id();
        let mut items = Vec::new();
        for ai in tcx.associated_items(did).in_definition_order() {
            let kind = match ai.kind {
                ty::AssocKind::Fn { .. } => "fn",
                ty::AssocKind::Const { .. } => "const",
                ty::AssocKind::Type { .. } => "type",
            };
            items.push(obj! {
                "name": J::s(ai.name().as_str()),
                "kind": J::s(kind),
                "has_default": J::Bool(ai.defaultness(tcx).has_value()),
                "path": J::s(def_path(tcx, ai.def_id))
            });
        }
        out.push(obj! {"path": J::s(def_path(tcx, did)), "items": J::Arr(items), "loc": J::s(loc(tcx, item.span))});
    }
    out
}

pub fn adts<'tcx>(tcx: TyCtxt<'tcx>) -> Vec<J> {
    let mut out = Vec::new();
    for id in tcx.hir_free_items() {
        let item = tcx.hir_item(id);
        if !matches!(item.kind, ItemKind::Struct(..) | ItemKind::Enum(..) | ItemKind::Union(..)) {
            continue;
        }
        let did = item.owner_id.to_def_id();
        let def = tcx.adt_def(did);
        let repr = def.repr();
        // attributes are read from the HIR nodes of the variants / fields themselves
        let mut vattr_map: std::collections::HashMap<rustc_hir::def_id::LocalDefId, J> = std::collections::HashMap::new();
        let mut fattr_map: std::collections::HashMap<rustc_hir::def_id::LocalDefId, J> = std::collections::HashMap::new();
        match &item.kind {
            ItemKind::Enum(_, _, edef) => {
                for hv in edef.variants.iter() {
                    vattr_map.insert(hv.def_id, codec_attrs(tcx, hv.hir_id));
                    for hf in hv.data.fields().iter() {
                        fattr_map.insert(hf.def_id, codec_attrs(tcx, hf.hir_id));
                    }
                }
            },
            ItemKind::Struct(_, _, vd) | ItemKind::Union(_, _, vd) => {
                for hf in vd.fields().iter() {
                    fattr_map.insert(hf.def_id, codec_attrs(tcx, hf.hir_id));
                }
            },
            _ => {},
        }
        let mut variants = Vec::new();
        for (vidx, v) in def.variants().iter_enumerated() {
            let discr = if def.is_enum() {
                let d = def.discriminant_for_variant(tcx, vidx);
                J::s(d.to_string())
            } else {
                J::Null
            };
            let explicit = matches!(v.discr, ty::VariantDiscr::Explicit(_));
            let vattrs = match v.def_id.as_local().and_then(|l| vattr_map.get(&l)) {
                Some(j) => j.clone(),
                None => J::Arr(vec![]),
            };
            let fs: Vec<J> = v
                .fields
                .iter()
                .map(|f| {
                    let t = tcx.type_of(f.did).instantiate_identity().skip_norm_wip();
                    let attrs = match f.did.as_local().and_then(|l| fattr_map.get(&l)) {
                        Some(j) => j.clone(),
                        None => J::Arr(vec![]),
                    };
                    obj! {
                        "name": J::s(f.name.as_str()), "ty": J::s(t.to_string()), "ty_json": ty_json(tcx, t, 0),
                        "phantom": J::Bool(t.is_phantom_data()), "attrs": attrs
                    }
                })
                .collect();
            variants.push(obj! {
                "name": J::s(v.name.as_str()),
                "discr": discr,
                "explicit_discr": J::Bool(explicit),
                "ctor": J::s(format!("{:?}", v.ctor_kind())),
                "attrs": vattrs,
                "fields": J::Arr(fs)
            });
        }
        let gens = tcx.generics_of(did);
        let gp: Vec<J> = gens.own_params.iter().map(|p| J::s(p.name.as_str())).collect();
        out.push(obj! {
            "path": J::s(def_path(tcx, did)),
            "kind": J::s(if def.is_enum() { "enum" } else if def.is_union() { "union" } else { "struct" }),
            "exported": J::Bool(tcx.effective_visibilities(()).is_reachable(item.owner_id.def_id)),
            "transparent": J::Bool(repr.transparent()),
            "repr_c": J::Bool(repr.c()),
            "repr_int": J::s(repr.int.map(|i| format!("{:?}", i)).unwrap_or_default()),
            "attrs": codec_attrs(tcx, item.hir_id()),
            "generics": J::Arr(gp),
            "variants": J::Arr(variants),
            "loc": J::s(loc(tcx, item.span)),
            "expn": J::Arr(expn_chain(item.span))
        });
    }
    out
}

pub fn consts<'tcx>(tcx: TyCtxt<'tcx>) -> Vec<J> {
    let mut out = Vec::new();
    for ldid in tcx.hir_body_owners() {
        if !matches!(tcx.def_kind(ldid), DefKind::Const { .. }) {
            continue;
        }
        let did = ldid.to_def_id();
        let t = tcx.type_of(did).instantiate_identity().skip_norm_wip();
        if t.has_param() || tcx.generics_of(did).count() > 0 {
            continue;
        }
        let mut val = J::Null;
        if t.is_integral() || t.is_bool() {
            if let Ok(v) = tcx.const_eval_poly(did) {
                if let Some(si) = v.try_to_scalar_int() {
                    let size = si.size();
                    val = if t.is_signed() { J::Int(si.to_int(size)) } else { J::u(si.to_uint(size)) };
                }
            }
        }
        out.push(obj! {"path": J::s(def_path(tcx, did)), "ty": J::s(t.to_string()), "val": val, "loc": J::s(loc(tcx, tcx.def_span(did)))});
    }
    out
}
