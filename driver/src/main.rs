//! scalefacts: a rustc_private driver that dumps resolved facts (impl tables, ADTs, typed THIR,
//! MIR) of the crates it compiles as JSON, for the Python rule evaluator under /verif/scalecheck.
//!
//! Injected with RUSTC_WORKSPACE_WRAPPER (argv[1] is the real rustc and is dropped).
//! Environment:
//!   SCALEFACTS_OUT    directory for `<crate>.json` (no output when unset)
//!   SCALEFACTS_CRATES comma separated crate names to dump (default: the codec crates + vf_*)
//!   SCALEFACTS_CFG    free-form label of the feature configuration, copied into the file
#![feature(rustc_private)]
#![allow(clippy::all)]

extern crate rustc_abi;
extern crate rustc_ast;
extern crate rustc_ast_pretty;
extern crate rustc_driver;
extern crate rustc_hir;
extern crate rustc_interface;
extern crate rustc_middle;
extern crate rustc_span;

mod common;
mod json;
mod mirj;
mod tables;
mod thirj;

use json::J;
use rustc_driver::{Callbacks, Compilation};
use rustc_hir::def::DefKind;
use rustc_interface::interface::Compiler;
use rustc_middle::ty::TyCtxt;
use std::collections::BTreeMap;

struct Cb {
    /// per body owner (def path string): (header + thir) collected in after_expansion
    fns: BTreeMap<String, Vec<(&'static str, J)>>,
    order: Vec<String>,
    active: bool,
}

fn wanted(krate: &str) -> bool {
    if std::env::var("SCALEFACTS_OUT").is_err() {
        return false;
    }
    match std::env::var("SCALEFACTS_CRATES") {
        Ok(list) => list.split(',').any(|c| c == krate),
        Err(_) => {
            matches!(krate, "parity_scale_codec" | "parity_scale_codec_derive" | "codec_fuzzer") ||
                krate.starts_with("vf_")
        },
    }
}

impl Callbacks for Cb {
    fn after_expansion<'tcx>(&mut self, _c: &Compiler, tcx: TyCtxt<'tcx>) -> Compilation {
        let krate = tcx.crate_name(rustc_span::def_id::LOCAL_CRATE).to_string();
        self.active = wanted(&krate);
        if !self.active {
            return Compilation::Continue;
        }
        rustc_middle::ty::print::with_no_visible_paths!(rustc_middle::ty::print::with_no_trimmed_paths!({
            for ldid in tcx.hir_body_owners() {
                let kind = tcx.def_kind(ldid);
                if !matches!(
                    kind,
                    DefKind::Fn |
                        DefKind::AssocFn | DefKind::Closure |
                        DefKind::Const { .. } | DefKind::AssocConst { .. } |
                        DefKind::InlineConst
                ) {
                    continue;
                }
                let mut rec = common::fn_header(tcx, ldid);
                let path = match &rec[0].1 {
                    J::Str(s) => s.clone(),
                    _ => unreachable!(),
                };
                if let Ok((thir, root)) = tcx.thir_body(ldid) {
                    let thir = thir.borrow();
                    let w = thirj::W { tcx, thir: &thir };
                    let params: Vec<J> = thir
                        .params
                        .iter()
                        .map(|p| p.pat.as_ref().map(|q| w.pat(q)).unwrap_or(J::Null))
                        .collect();
                    rec.push(("params", J::Arr(params)));
                    rec.push(("thir", w.expr(root)));
                }
                // several closures may print the same path in odd cases; keep first
                if !self.fns.contains_key(&path) {
                    self.order.push(path.clone());
                    self.fns.insert(path, rec);
                }
            }
        }));
        Compilation::Continue
    }

    fn after_analysis<'tcx>(&mut self, _c: &Compiler, tcx: TyCtxt<'tcx>) -> Compilation {
        if !self.active {
            return Compilation::Continue;
        }
        let krate = tcx.crate_name(rustc_span::def_id::LOCAL_CRATE).to_string();
        let out_dir = std::env::var("SCALEFACTS_OUT").unwrap();
        let mut out = String::new();
        rustc_middle::ty::print::with_no_visible_paths!(rustc_middle::ty::print::with_no_trimmed_paths!({
            let want_mir = std::env::var("SCALEFACTS_NOMIR").is_err() && krate != "parity_scale_codec_derive";
            for ldid in tcx.hir_body_owners() {
                let kind = tcx.def_kind(ldid);
                if !matches!(kind, DefKind::Fn | DefKind::AssocFn | DefKind::Closure) {
                    continue;
                }
                if !want_mir {
                    continue;
                }
                let path = common::def_path(tcx, ldid.to_def_id());
                if let Some(rec) = self.fns.get_mut(&path) {
                    if rec.iter().any(|(k, _)| *k == "mir") {
                        continue;
                    }
                    if tcx.is_mir_available(ldid.to_def_id()) {
                        let body = tcx.optimized_mir(ldid.to_def_id());
                        rec.push(("mir", mirj::body(tcx, ldid, body)));
                    }
                }
            }
            let impls = tables::impls(tcx);
            let adts = tables::adts(tcx);
            let consts = tables::consts(tcx);
            let traits = tables::traits(tcx);
            let fns: Vec<J> =
                self.order.iter().map(|p| J::Obj(self.fns.remove(p).unwrap())).collect();
            // the source files this compilation actually read, with the hash rustc computed of each: the consumer
            // compares them with the files on disk, so facts can never silently describe another tree state
            let mut srcs: Vec<J> = Vec::new();
            for sf in tcx.sess.source_map().files().iter() {
                if sf.cnum != rustc_span::def_id::LOCAL_CRATE {
                    continue;
                }
                if let rustc_span::FileName::Real(real) = &sf.name {
                    if let Some(pth) = real.local_path() {
                        let hex: String = sf.src_hash.hash_bytes().iter().map(|b| format!("{:02x}", b)).collect();
                        srcs.push(obj! {
                            "path": J::s(pth.to_string_lossy().to_string()),
                            "kind": J::s(format!("{:?}", sf.src_hash.kind)),
                            "hash": J::s(hex)
                        });
                    }
                }
            }
            // module tree (the consumer canonicalises nested private modules away: moving an item into an inline module and
            // re-exporting it does not change what it is)
            let mut mods: Vec<J> = Vec::new();
            for ldid in tcx.hir_crate_items(()).definitions() {
                if matches!(tcx.def_kind(ldid), DefKind::Mod) {
                    mods.push(J::s(common::def_path(tcx, ldid.to_def_id())));
                }
            }
            // what the crate root re-exports (glob imports resolved): name, kind of the thing, visibility
            let mut root_exports: Vec<J> = Vec::new();
            for ch in tcx.module_children_local(rustc_span::def_id::CRATE_DEF_ID).iter() {
                let kind = match ch.res {
                    rustc_hir::def::Res::Def(DefKind::Macro(mk), _) => {
                        if mk.contains(rustc_hir::def::MacroKinds::DERIVE) { "Macro(Derive)".to_string() } else { "Macro(other)".to_string() }
                    }
                    rustc_hir::def::Res::Def(k, _) => format!("{:?}", k),
                    _ => "other".to_string(),
                };
                root_exports.push(obj! {
                    "name": J::s(ch.ident.name.as_str()),
                    "kind": J::s(kind),
                    "public": J::Bool(ch.vis.is_public())
                });
            }
            let cwd = std::env::current_dir().map(|p| p.to_string_lossy().to_string()).unwrap_or_default();
            let doc = obj! {
                "crate": J::s(&krate),
                "cwd": J::s(cwd),
                "sources": J::Arr(srcs),
                "cfg": J::s(std::env::var("SCALEFACTS_CFG").unwrap_or_default()),
                "impls": J::Arr(impls),
                "adts": J::Arr(adts),
                "mods": J::Arr(mods),
                "root_exports": J::Arr(root_exports),
                "consts": J::Arr(consts),
                "traits": J::Arr(traits),
                "fns": J::Arr(fns)
            };
            doc.write(&mut out);
        }));
        let tmp = format!("{}/.{}.json.tmp{}", out_dir, krate, std::process::id());
        let fin = format!("{}/{}.json", out_dir, krate);
        std::fs::write(&tmp, out).expect("scalefacts: cannot write fact file");
        std::fs::rename(&tmp, &fin).expect("scalefacts: cannot rename fact file");
        Compilation::Continue
    }
}

fn main() {
    let mut args: Vec<String> = std::env::args().collect();
    // RUSTC_WORKSPACE_WRAPPER: argv[1] is the path of the real rustc
    if args.len() > 1 && (args[1].ends_with("rustc") || args[1].contains("/rustc")) {
        args.remove(1);
    }
    let mut cb = Cb { fns: BTreeMap::new(), order: Vec::new(), active: false };
    rustc_driver::run_compiler(&args, &mut cb);
}
