//! Minimal JSON value + serializer (the driver has zero cargo dependencies).
use std::fmt::Write as _;

#[derive(Clone, Debug)]
pub enum J {
    Null,
    Bool(bool),
    Int(i128),
    /// unsigned 128-bit values that do not fit i128
    Big(u128),
    Str(String),
    Arr(Vec<J>),
    Obj(Vec<(&'static str, J)>),
}

impl J {
    pub fn s<S: AsRef<str>>(s: S) -> J {
        J::Str(s.as_ref().to_string())
    }
    pub fn opt_s(s: Option<String>) -> J {
        match s {
            Some(s) => J::Str(s),
            None => J::Null,
        }
    }
    pub fn u(n: u128) -> J {
        if n <= i128::MAX as u128 {
            J::Int(n as i128)
        } else {
            J::Big(n)
        }
    }
    pub fn write(&self, o: &mut String) {
        match self {
            J::Null => o.push_str("null"),
            J::Bool(b) => o.push_str(if *b { "true" } else { "false" }),
            J::Int(i) => {
                let _ = write!(o, "{}", i);
            },
            J::Big(i) => {
                let _ = write!(o, "{}", i);
            },
            J::Str(s) => esc(s, o),
            J::Arr(v) => {
                o.push('[');
                for (i, x) in v.iter().enumerate() {
                    if i > 0 {
                        o.push(',');
                    }
                    x.write(o);
                }
                o.push(']');
            },
            J::Obj(v) => {
                o.push('{');
                for (i, (k, x)) in v.iter().enumerate() {
                    if i > 0 {
                        o.push(',');
                    }
                    esc(k, o);
                    o.push(':');
                    x.write(o);
                }
                o.push('}');
            },
        }
    }
}

fn esc(s: &str, o: &mut String) {
    o.push('"');
    for c in s.chars() {
        match c {
            '"' => o.push_str("\\\""),
            '\\' => o.push_str("\\\\"),
            '\n' => o.push_str("\\n"),
            '\t' => o.push_str("\\t"),
            '\r' => o.push_str("\\r"),
            c if (c as u32) < 0x20 => {
                let _ = write!(o, "\\u{:04x}", c as u32);
            },
            c => o.push(c),
        }
    }
    o.push('"');
}

#[macro_export]
macro_rules! obj {
    ( $( $k:literal : $v:expr ),* $(,)? ) => {
        $crate::json::J::Obj(vec![ $( ($k, $v) ),* ])
    };
}
